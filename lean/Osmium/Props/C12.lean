/-
C12 — All id-to-value index implementations behave as one mathematical map.

Property theorems only (models: Osmium/Model/IndexMap.lean, helper lemmas:
Osmium/Lemmas/IndexMap.lean).  Every theorem quantifies over ALL insertion histories / ALL
node-and-way streams of the model; the hypotheses are the property's domain:
`DistinctIds` (distinct ids), `NonEmptyVals` (no inserted value is the "empty" value).
The FlexMem theorems hold for ANY `FlexParams` (bits, min_dense_entries, density_factor), so
the quick tier's `-DOSMIUM_VERIF_FLEXMEM_MIN_DENSE_ENTRIES=200` build and the real threshold
(`Generated.C12.flexMinDenseEntries`) are covered by one and the same statement.
Histories with PHASES (any number of set / sort steps, index files closed and reopened in between, nodes that arrive
after ways) have their own theorems: section "histories with PHASES", `nlfw_nodes_after_way`,
`nlfw_must_sort_invariant` (lemmas: Osmium/Lemmas/IndexPhases.lean, Osmium/Lemmas/NodeLoc.lean).
-/
import Osmium.Lemmas.IndexMap
import Osmium.Lemmas.NodeLoc
import Osmium.Lemmas.IndexPhases
import Osmium.Generated.C12Constants
import Osmium.Generated.C12Shape
import Osmium.Generated.Src
import Osmium.Lemmas.CxxSem

set_option linter.unusedSectionVars false

namespace Osmium.IndexMap.C12

open Osmium.IndexMap

variable {V : Type} [DecidableEq V]

/-- The specification is "exactly the inserted pairs": for distinct ids, `specOf h id = some v`
    iff `(id, v)` was inserted, and `none` iff the id was never inserted. -/
theorem spec_is_inserted_pairs (h : Hist V) (hd : DistinctIds h) (id : Nat) :
    (∀ v, specOf h id = some v ↔ (id, v) ∈ h) ∧ (specOf h id = none ↔ id ∉ h.map (·.1)) :=
  ⟨fun v => specOf_iff_mem hd id v, specOf_eq_none_iff id⟩

/-- dense_mem_array (VectorBasedDenseMap over std::vector): after any insertions with distinct
    ids in any order, `get` = the inserted value / not_found, `get_noexcept` = value / empty.
    Needs value-initialised slots to be the empty value (true for Location, see
    `dense_mem_vinit_is_empty` and the counterexample `dense_value_init_not_empty_refuted`). -/
theorem dense_refines (e : V) (h : Hist V) (hd : DistinctIds h) (hn : NonEmptyVals e h) (id : Nat) :
    (denseImpl e e).get ((denseImpl e e).build h) id = specOf h id ∧
    (denseImpl e e).getNoexcept ((denseImpl e e).build h) id = (specOf h id).getD e :=
  (denseLaws e).refines h hd hn id

/-- sparse_mem_array (VectorBasedSparseMap over std::vector): sorted before lookup. -/
theorem sparse_refines (bs : Nat) (e : V) (h : Hist V) (hd : DistinctIds h) (hn : NonEmptyVals e h)
    (id : Nat) :
    (sparseImpl bs e).get ((sparseImpl bs e).sort ((sparseImpl bs e).build h)) id = specOf h id ∧
    (sparseImpl bs e).getNoexcept ((sparseImpl bs e).sort ((sparseImpl bs e).build h)) id =
      (specOf h id).getD e :=
  (sparseLaws bs e).refines h hd hn id

/-- sparse_mem_map (std::map) -/
theorem stdmap_refines (e : V) (h : Hist V) (hd : DistinctIds h) (hn : NonEmptyVals e h) (id : Nat) :
    (stdMapImpl e).get ((stdMapImpl e).build h) id = specOf h id :=
  ((stdMapLaws e).refines h hd hn id).1

/-- flex_mem for ANY bits / min_dense_entries / density_factor: whether or not (and whenever)
    the automatic sparse→dense switch happens during the insertions, after the sort step every
    lookup is the lookup in the mathematical map. -/
theorem flexmem_refines (P : FlexParams) (e : V) (h : Hist V) (hd : DistinctIds h)
    (hn : NonEmptyVals e h) (id : Nat) :
    (flexImpl P e).get ((flexImpl P e).sort ((flexImpl P e).build h)) id = specOf h id ∧
    (flexImpl P e).getNoexcept ((flexImpl P e).sort ((flexImpl P e).build h)) id =
      (specOf h id).getD e :=
  (flexLaws P e).refines h hd hn id

/-- `switch_to_dense()` (automatic or called by the user) carries every entry over: a FlexMem
    that represents `h` still represents `h` afterwards, is in dense mode, and needs no sort. -/
theorem switch_preserves (P : FlexParams) (e : V) (s : Flex V) (h : Hist V)
    (hr : FlexRep P e s h) (hd : DistinctIds h) (hn : NonEmptyVals e h) (id : Nat) :
    (Flex.switchToDense P e s).dense = true ∧
    Flex.get P e (Flex.switchToDense P e s) id = specOf h id := by
  obtain ⟨h1, h2⟩ := Flex.switch_rep P e s h hr hd
  exact ⟨h2, (flexLaws P e).get_ok _ h h1 (Or.inl h2) hd hn id⟩

/-- … and on an index whose lookups were valid before, no lookup changes. -/
theorem switch_preserves_lookups (P : FlexParams) (e : V) (s : Flex V) (h : Hist V)
    (hr : FlexRep P e s h) (hrd : FlexReady s) (hd : DistinctIds h) (hn : NonEmptyVals e h) (id : Nat) :
    Flex.get P e (Flex.switchToDense P e s) id = Flex.get P e s id := by
  rw [(switch_preserves P e s h hr hd hn id).2]
  exact ((flexLaws P e).get_ok s h hr hrd hd hn id).symm

/-- Corollary: any two implementations that satisfy the laws (all of the above, in any
    combination, with any FlexMem parameters) answer every lookup identically on the same
    insertion history. -/
theorem all_impls_equal {I J : Impl V} {e : V} (LI : Laws I e) (LJ : Laws J e) (h : Hist V)
    (hd : DistinctIds h) (hn : NonEmptyVals e h) (id : Nat) :
    I.get (I.sort (I.build h)) id = J.get (J.sort (J.build h)) id ∧
    I.getNoexcept (I.sort (I.build h)) id = J.getNoexcept (J.sort (J.build h)) id := by
  rw [(LI.refines h hd hn id).1, (LJ.refines h hd hn id).1, (LI.refines h hd hn id).2,
    (LJ.refines h hd hn id).2]
  exact ⟨rfl, rfl⟩

/-- the insertion order is irrelevant -/
theorem order_irrelevant {I : Impl V} {e : V} (L : Laws I e) (h h' : Hist V) (hp : h.Perm h')
    (hd : DistinctIds h) (hn : NonEmptyVals e h) (id : Nat) :
    I.get (I.sort (I.build h)) id = I.get (I.sort (I.build h')) id := by
  rw [(L.refines h hd hn id).1, (L.refines h' (hd.perm hp) (hn.perm hp) id).1]
  exact specOf_perm hd hp id

/-! ### the mmap-backed variants — `_partial`: under the OS contract `GrowOk`

`MemoryMapping::resize` (mremap / munmap+ftruncate+mmap) and `mmap` itself are operating-system
behaviour.  The model takes them as a parameter `g : Grow` with the contract `GrowOk g`: "the new
mapping has the requested size and the old content is still there".  NOTHING is assumed about
the new area — the theorems go through because the code `std::fill`s it with the empty value. -/

/-- dense_mmap_array / dense_file_array -/
theorem mmap_dense_refines_partial (g : Grow V) (hg : GrowOk g) (inc : Nat) (e : V) (h : Hist V)
    (hd : DistinctIds h) (hn : NonEmptyVals e h) (id : Nat) :
    (mdenseImpl g inc e).get ((mdenseImpl g inc e).build h) id = specOf h id ∧
    (mdenseImpl g inc e).getNoexcept ((mdenseImpl g inc e).build h) id = (specOf h id).getD e :=
  (mdenseLaws g hg inc e).refines h hd hn id

/-- sparse_mmap_array / sparse_file_array (growth by push_back past the capacity included) -/
theorem mmap_sparse_refines_partial (g : Grow (Nat × V)) (hg : GrowOk g) (inc bs : Nat) (e : V)
    (pe : Nat × V) (h : Hist V) (hd : DistinctIds h) (hn : NonEmptyVals e h) (id : Nat) :
    (msparseImpl g inc bs e pe).get
      ((msparseImpl g inc bs e pe).sort ((msparseImpl g inc bs e pe).build h)) id = specOf h id :=
  ((msparseLaws g hg inc bs e pe).refines h hd hn id).1

/-- every capacity growth leaves `[m_size, capacity)` reading as the empty value (the state
    invariant of `mmap_vector_base` the dense lookups rely on) -/
theorem mmap_growth_keeps_empty_fill_partial (g : Grow V) (hg : GrowOk g) (inc : Nat) (e : V)
    (mv : MmapVec V) (hi : MInv e mv) (id : Nat) (v : V) :
    MInv e (MDense.set g inc e mv id v) :=
  (MDense.set_spec g hg inc e mv hi id v).1

/-! ### histories with PHASES: (set* sort lookups)*, reloads in between (seed C12-8)

An insertion history is a list of `MOp`s — `set id v` and `sort` in ANY order and number — run by `Impl.runOps`
from a fresh index or from an index reloaded from a file; `setsOf ops` are its insertions in order.  The
theorems above are the one-phase instances (`Impl.runOps_sets`). -/

/-- EVERY implementation that satisfies the laws, ANY number of set / sort phases: the final `sort()`
    re-establishes the lookup law for everything inserted so far — also for ids inserted AFTER an earlier sort,
    whether they lie below, between or above the earlier ones and in whatever order they came. -/
theorem sort_phases {I : Impl V} {e : V} (L : Laws I e) (ops : List (MOp V)) (hd : DistinctIds (setsOf ops))
    (hn : NonEmptyVals e (setsOf ops)) (id : Nat) :
    I.get (I.sort (I.runOps I.init ops)) id = specOf (setsOf ops) id ∧
    I.getNoexcept (I.sort (I.runOps I.init ops)) id = (specOf (setsOf ops) id).getD e :=
  L.sort_phases ops hd hn id

/-- sparse_mem_array (VectorBasedSparseMap over std::vector) on histories with any number of phases -/
theorem sparse_sort_phases (bs : Nat) (e : V) (ops : List (MOp V)) (hd : DistinctIds (setsOf ops))
    (hn : NonEmptyVals e (setsOf ops)) (id : Nat) :
    (sparseImpl bs e).get ((sparseImpl bs e).sort ((sparseImpl bs e).runOps (sparseImpl bs e).init ops)) id =
      specOf (setsOf ops) id ∧
    (sparseImpl bs e).getNoexcept ((sparseImpl bs e).sort ((sparseImpl bs e).runOps (sparseImpl bs e).init ops)) id =
      (specOf (setsOf ops) id).getD e :=
  (sparseLaws bs e).sort_phases ops hd hn id

/-- sparse_mmap_array / sparse_file_array on histories with any number of phases -/
theorem mmap_sparse_sort_phases_partial (g : Grow (Nat × V)) (hg : GrowOk g) (inc bs : Nat) (e : V) (pe : Nat × V)
    (ops : List (MOp V)) (hd : DistinctIds (setsOf ops)) (hn : NonEmptyVals e (setsOf ops)) (id : Nat) :
    (msparseImpl g inc bs e pe).get
      ((msparseImpl g inc bs e pe).sort ((msparseImpl g inc bs e pe).runOps (msparseImpl g inc bs e pe).init ops)) id =
      specOf (setsOf ops) id :=
  ((msparseLaws g hg inc bs e pe).sort_phases ops hd hn id).1

/-- flex_mem (any parameters, whenever the switch happens) on histories with any number of phases -/
theorem flexmem_sort_phases (P : FlexParams) (e : V) (ops : List (MOp V)) (hd : DistinctIds (setsOf ops))
    (hn : NonEmptyVals e (setsOf ops)) (id : Nat) :
    (flexImpl P e).get ((flexImpl P e).sort ((flexImpl P e).runOps (flexImpl P e).init ops)) id = specOf (setsOf ops) id :=
  ((flexLaws P e).sort_phases ops hd hn id).1

/-- lookups are valid after EVERY sort step of a longer history (they see exactly what was inserted before it) -/
theorem lookups_valid_after_every_sort {I : Impl V} {e : V} (L : Laws I e) (ops1 ops2 : List (MOp V))
    (hd : DistinctIds (setsOf (ops1 ++ ops2))) (hn : NonEmptyVals e (setsOf (ops1 ++ ops2))) (id : Nat) :
    I.get (I.runOps I.init (ops1 ++ [.sort])) id = specOf (setsOf ops1) id :=
  L.lookup_after_each_sort ops1 ops2 hd hn id

/-- the two-phase history in plain words: insert `h1`, sort (and look up), insert `h2`, sort -/
theorem sort_after_more_sets {I : Impl V} {e : V} (L : Laws I e) (h1 h2 : Hist V) (hd : DistinctIds (h1 ++ h2))
    (hn : NonEmptyVals e (h1 ++ h2)) (id : Nat) :
    I.get (I.sort (h2.foldl (fun m p => I.set m p.1 p.2) (I.sort (I.build h1)))) id = specOf (h1 ++ h2) id := by
  have hs : ∀ h : Hist V, setsOf (h.map fun p => MOp.set p.1 p.2) = h := by
    intro h; induction h with
    | nil => rfl
    | cons p t ih => simp only [List.map_cons, setsOf, ih]
  have hso : setsOf ((h1.map fun p => MOp.set p.1 p.2) ++ [MOp.sort] ++ (h2.map fun p => MOp.set p.1 p.2)) = h1 ++ h2 := by
    simp only [setsOf_append, hs, setsOf, List.append_nil]
  have := (L.sort_phases ((h1.map fun p => MOp.set p.1 p.2) ++ [MOp.sort] ++ (h2.map fun p => MOp.set p.1 p.2))
    (by rw [hso]; exact hd) (by rw [hso]; exact hn) id).1
  rw [hso, Impl.runOps_append, Impl.runOps_sort_last, Impl.runOps_sets, Impl.runOps_sets_from] at this
  exact this

/-- Reopening the index's own file gives back exactly the vector that was there — sorted or not —, so nothing
    the constructor `VectorBasedSparseMap(int fd)` leaves behind may assume more than "holds these entries". -/
theorem reopen_keeps_vector_partial (g : Grow (Nat × V)) (hg : GrowOk g) (inc : Nat) (pe : Nat × V)
    (mv : MmapVec (Nat × V)) (hi : MInv pe mv) (hne : ∀ p ∈ mv.view.toList, p ≠ pe) :
    (MmapVec.load g inc pe mv.data).view = mv.view :=
  MSparse.load_own_file g hg inc pe mv hi hne

/-- Dump/reopen COMMUTES with later insertions: phases `ops0`, close, reopen (`mmap_vector_file(fd)`: size from the
    file, content as it was), more phases `ops` with ids anywhere relative to the loaded ones, sort — every lookup
    is what it would be without the reload, namely the map of everything ever inserted. -/
theorem reload_then_set_then_sort_partial (g : Grow (Nat × V)) (hg : GrowOk g) (inc bs : Nat) (e : V) (k0 : Nat)
    (ops0 ops : List (MOp V)) (hd : DistinctIds (setsOf ops0 ++ setsOf ops))
    (hn : NonEmptyVals e (setsOf ops0 ++ setsOf ops)) (id : Nat) :
    let I := msparseImpl g inc bs e (k0, e)
    I.get (I.sort (I.runOps (MmapVec.load g inc (k0, e) (I.runOps I.init ops0).data) ops)) id =
      I.get (I.sort (I.runOps I.init (ops0 ++ ops))) id ∧
    I.get (I.sort (I.runOps I.init (ops0 ++ ops))) id = specOf (setsOf ops0 ++ setsOf ops) id := by
  intro I
  refine ⟨MSparse.reload_commutes g hg inc bs e k0 ops0 ops hd hn id, ?_⟩
  have h2 := (msparseLaws g hg inc bs e (k0, e)).sort_phases (ops0 ++ ops)
    (by rw [setsOf_append]; exact hd) (by rw [setsOf_append]; exact hn) id
  rw [setsOf_append] at h2
  exact h2.1

/-- … for ANY number of reload generations (each life any phases, closed sorted or unsorted) -/
theorem reload_generations_partial (g : Grow (Nat × V)) (hg : GrowOk g) (inc bs : Nat) (e : V) (k0 : Nat)
    (gens : List (List (MOp V))) (ops : List (MOp V))
    (hd : DistinctIds (livesSets gens ++ setsOf ops)) (hn : NonEmptyVals e (livesSets gens ++ setsOf ops)) (id : Nat) :
    let I := msparseImpl g inc bs e (k0, e)
    I.get (I.sort (I.runOps (MSparse.lives g inc bs e (k0, e) I.init gens) ops)) id =
      specOf (livesSets gens ++ setsOf ops) id :=
  (MSparse.reload_generations g hg inc bs e k0 gens ops hd hn id).1

/-- … and through `dump_as_list` of another sparse index opened as `sparse_file_array` -/
theorem dump_list_reload_then_phases_partial (g : Grow (Nat × V)) (hg : GrowOk g) (inc bs : Nat) (e : V) (k0 : Nat)
    (ops0 ops : List (MOp V)) (hd : DistinctIds (setsOf ops0 ++ setsOf ops))
    (hn : NonEmptyVals e (setsOf ops0 ++ setsOf ops)) (id : Nat) :
    let J := sparseImpl bs e
    let I := msparseImpl g inc bs e (k0, e)
    I.get (I.sort (I.runOps (MmapVec.load g inc (k0, e) (J.runOps J.init ops0)) ops)) id =
      specOf (setsOf ops0 ++ setsOf ops) id :=
  Sparse.dump_list_reload_phases g hg inc bs e k0 ops0 ops hd hn id

/-! ### dump / load -/

/-- Dumping a dense index as an array and opening the file as `dense_file_array`, and dumping a
    sorted sparse index as a list and opening the file as `sparse_file_array`, preserve every
    lookup.  (`_partial` in the same sense as above: the loader maps the file through `g`.) -/
theorem dump_load_roundtrip_partial (gd : Grow V) (hgd : GrowOk gd) (gs : Grow (Nat × V))
    (hgs : GrowOk gs) (inc : Nat) (e : V) (k0 : Nat) :
    (∀ (a : Array V) (id : Nat),
      MDense.get e (MmapVec.load gd inc e a) id = Dense.get e a id ∧
      MDense.getNoexcept e (MmapVec.load gd inc e a) id = Dense.getNoexcept e a id) ∧
    (∀ (a : Array (Nat × V)) (id : Nat), (∀ p ∈ a.toList, p.2 ≠ e) →
      Sparse.getN (MmapVec.load gs inc (k0, e) a).data (MmapVec.load gs inc (k0, e) a).size id =
        Sparse.get a id) := by
  refine ⟨fun a id => Dense.dump_load gd hgd inc e a id, fun a id hne => ?_⟩
  obtain ⟨h1, h2⟩ := Sparse.dump_load_list gs hgs inc (k0, e) a
    (fun p hp heq => hne p hp (by rw [heq]))
  rw [MSparse.get_view _ h1, h2]

/-- … hence a dumped-and-reloaded index still is the map of the insertion history. -/
theorem dump_load_is_same_map_partial (gs : Grow (Nat × V)) (hgs : GrowOk gs) (inc bs : Nat) (e : V)
    (k0 : Nat) (h : Hist V) (hd : DistinctIds h) (hn : NonEmptyVals e h) (id : Nat) :
    let a := (sparseImpl bs e).sort ((sparseImpl bs e).build h)
    Sparse.getN (MmapVec.load gs inc (k0, e) a).data (MmapVec.load gs inc (k0, e) a).size id = specOf h id := by
  intro a
  have hrep := (sparseLaws bs e).rep_sort _ _ ((sparseLaws bs e).build_rep h hd hn)
  have hne : ∀ p ∈ (a : Array (Nat × V)).toList, p.2 ≠ e := fun p hp =>
    hn p ((hrep.trans (List.reverse_perm h)).mem_iff.1 hp)
  rw [(dump_load_roundtrip_partial (fun a n => a ++ Array.replicate (n - a.size) e)
    (fun a n hle => ⟨by simp; omega, fun i hi => by simp [Array.getElem?_append, hi]⟩) gs hgs inc e k0).2 a id hne]
  exact ((sparseLaws bs e).refines h hd hn id).1

/-- Dumping a sorted sparse index as a dense array (`dump_as_array`, windows of `bs` slots,
    last window partial) produces exactly the array the dense index built from the same
    insertions holds — for every buffer size `bs > 0`. -/
theorem sparse_dump_as_array_eq_dense (bs : Nat) (hbs : 0 < bs) (e : V) (h : Hist V)
    (hd : DistinctIds h) (hn : NonEmptyVals e h) :
    (sparseImpl bs e).dumpAsArray ((sparseImpl bs e).sort ((sparseImpl bs e).build h)) =
      (denseImpl e e).dumpAsArray ((denseImpl e e).build h) :=
  Sparse.dumpAsArray_eq_dense bs hbs e h hd hn

/-- the buffer size of the current source is positive -/
theorem dump_buffer_size_pos : 0 < Generated.C12.dumpBufferBytes / Generated.C12.sizeofLocation := by decide

/-! ### NodeLocationsForWays -/

/-- For every arrival order of the nodes: when `way()` performs its lookups both storages are
    "ready" (sorted, or never needed sorting) — `m_must_sort` is false only if they are, and the
    sort step at the start of `way()` establishes it otherwise. -/
theorem nlfw_sort_flag {Ip In : Impl V} {e : V} (Lp : Laws Ip e) (Ln : Laws In e) (ign : Bool)
    (s : NLFW Ip In) (ns : List (Int × V)) (hi : NInv Lp Ln ign s ns) (hok : NodesOk e ns) :
    Lp.Ready s.prepare.pos ∧ Ln.Ready s.prepare.neg := by
  obtain ⟨hp, hms⟩ := hi.prepare hok
  obtain ⟨r1, r2, _⟩ := hp.ready hms
  exact ⟨r1, r2⟩

/-- … and that invariant holds after every prefix of every stream of nodes. -/
theorem nlfw_invariant_nodes {Ip In : Impl V} {e : V} (Lp : Laws Ip e) (Ln : Laws In e) (ign : Bool) :
    ∀ (ns : List (Int × V)), NodesOk e ns →
      NInv Lp Ln ign (ns.foldr (fun p s => s.node p.1 p.2) (NLFW.init Ip In ign)) ns := by
  intro ns
  induction ns with
  | nil => intro _; exact NInv.init Lp Ln ign
  | cons p t ih =>
    intro hok
    exact (ih (NodesOk.suffix (l1 := [p]) hok)).node p.1 p.2 hok

/-- "the location of the node with that id": `specSigned ns r = some v` iff the node `(r, v)` arrived
    (positive, negative or 0 — the signed id as a whole), `none` iff no node with id `r` arrived. -/
theorem nlfw_spec_is_node_with_that_id (ns : List (Int × V)) (hnd : (ns.map (·.1)).Nodup) (r : Int) :
    (∀ v, specSigned ns r = some v ↔ (r, v) ∈ ns) ∧ (specSigned ns r = none ↔ r ∉ ns.map (·.1)) :=
  ⟨fun v => specSigned_iff_mem hnd r v, specSigned_eq_none_iff r⟩

/-- ONE `way()` call, in the property's own words.  In every handler state reachable by nodes with
    distinct ids in ANY order (`NInv`, see `nlfw_invariant_nodes`), over ANY two index implementations
    that satisfy the laws, for ANY node refs carrying ANY locations (undefined, equal to the index's,
    stale, foreign, invalid, half-defined):
    (1) the ref ids are unchanged;
    (2) every ref ends with the location of the node with that id, or the undefined location if no
        such node arrived;
    (3) `not_found` is thrown iff errors are not ignored and some ref ends without a fully defined
        location;
    (4) nothing depends on what the refs carried: any way with the same ref ids gives the same result. -/
theorem nlfw_way_overwrites_carried_locations {Ip In : Impl V} {e : V} (Lp : Laws Ip e) (Ln : Laws In e)
    (ok : V → Bool) (ign : Bool) (s : NLFW Ip In) (ns : List (Int × V)) (hi : NInv Lp Ln ign s ns)
    (hok : NodesOk e ns) (refs : List (NRef V)) :
    refIds (s.way ok refs).2.1 = refIds refs ∧
    (s.way ok refs).2.1 = refs.map (fun p => (p.1, (specSigned ns p.1).getD e)) ∧
    ((s.way ok refs).2.2 = true ↔ ign = false ∧ ∃ p ∈ refs, ok ((specSigned ns p.1).getD e) = false) ∧
    (∀ refs' : List (NRef V), refIds refs' = refIds refs → (s.way ok refs').2 = (s.way ok refs).2) := by
  have hw := (hi.way hok ok refs).2
  refine ⟨?_, ?_, ?_, ?_⟩
  · rw [hw, refIds_specWay]
  · rw [hw]; simp [specWay, refIds, specLoc, Function.comp_def]
  · rw [hw]
    simp only [specWay, refIds, specLoc, List.map_map, List.any_map, Bool.and_eq_true, Bool.not_eq_true',
      List.any_eq_true, Function.comp_def]
  · intro refs' hids
    rw [hw, (hi.way hok ok refs').2, hids]

/-- The same way object passed through a handler twice (the second handler state `s'` being ANY state
    with the invariant: the same handler after more nodes, or another handler over other indexes with
    moved nodes): the second pass gives exactly what a pass of the original way would give — the
    locations written by the first pass leave no trace. -/
theorem nlfw_way_twice {Ip In Ip' In' : Impl V} {e : V} (Lp : Laws Ip' e) (Ln : Laws In' e)
    (ok : V → Bool) (ign : Bool) (s : NLFW Ip In) (s' : NLFW Ip' In') (ns' : List (Int × V))
    (hi : NInv Lp Ln ign s' ns') (hok : NodesOk e ns') (refs : List (NRef V)) :
    (s'.way ok (s.way ok refs).2.1).2 = (s'.way ok refs).2 := by
  apply (nlfw_way_overwrites_carried_locations Lp Ln ok ign s' ns' hi hok refs).2.2.2
  simp [NLFW.way, NLFW.wayLoop_eq, refIds, Function.comp_def]

/-- Whole programs: nodes and ways interleaved arbitrarily, nodes in ANY arrival order, new way
    objects carrying ANY locations (`way`), earlier way objects passed through again as the handler
    left them (`again`), `ignore_errors()` at any point, the handler and its indexes replaced by new
    ones with the way objects surviving (`fresh`).  The output of every `way()` call is what `specRun`
    says — and `specRun` knows of a way object ONLY ITS REF IDS, and of the nodes only the map
    id ↦ location of the current handler life. -/
theorem nlfw_ways_get_locations {Ip In : Impl V} {e : V} (Lp : Laws Ip e) (Ln : Laws In e)
    (ok : V → Bool) (ign : Bool) (evs : List (Ev V)) (hok : EvsOk e [] evs) :
    (NLFW.run ok (NLFW.init Ip In ign) { h := NLFW.init Ip In ign } evs).2 = specRun ok e ign [] [] evs :=
  NInv.run ok ign evs { h := NLFW.init Ip In ign } ign [] (NInv.init Lp Ln ign) hok

/-- Nodes that arrive AFTER a way: nodes `b1` (any order), a way, nodes `b2` (any order, ids anywhere relative to
    those of `b1` — in particular above the LAST id of `b1` and below its LARGEST), a second way.  The second way
    gets the locations of the nodes of both batches. -/
theorem nlfw_nodes_after_way {Ip In : Impl V} {e : V} (Lp : Laws Ip e) (Ln : Laws In e) (ok : V → Bool) (ign : Bool)
    (b1 b2 : List (Int × V)) (refs1 refs2 : List (NRef V)) (hok : NodesOk e (b2.reverse ++ b1.reverse)) :
    (NLFW.run ok (NLFW.init Ip In ign) { h := NLFW.init Ip In ign }
      (nodeEvs b1 ++ Ev.way refs1 :: (nodeEvs b2 ++ [Ev.way refs2]))).2 =
      [specWay ok e ign b1.reverse (refIds refs1), specWay ok e ign (b2.reverse ++ b1.reverse) (refIds refs2)] := by
  have hev : EvsOk e [] (nodeEvs b1 ++ Ev.way refs1 :: (nodeEvs b2 ++ [Ev.way refs2])) := by
    rw [evsOk_nodeEvs]
    show EvsOk e (b1.reverse ++ []) (nodeEvs b2 ++ [Ev.way refs2])
    rw [evsOk_nodeEvs]
    simpa [EvsOk] using hok
  rw [nlfw_ways_get_locations Lp Ln ok ign _ hev, specRun_nodeEvs]
  simp only [specRun, List.append_nil]
  rw [specRun_nodeEvs]
  simp only [specRun]

/-- The `m_must_sort` / `m_last_id` state machine along WHOLE streams (nodes, ways, more nodes, more ways …): after every
    prefix, whenever `m_must_sort` is false both indexes are ready for lookups and no node of this handler life has
    |id| above `m_last_id`. -/
theorem nlfw_must_sort_invariant {Ip In : Impl V} {e : V} (Lp : Laws Ip e) (Ln : Laws In e) (ok : V → Bool) (ign : Bool)
    (evs : List (Ev V)) (hok : EvsOk e [] evs) :
    let s := (NLFW.run ok (NLFW.init Ip In ign) { h := NLFW.init Ip In ign } evs).1.h
    s.mustSort = false → Lp.Ready s.pos ∧ Ln.Ready s.neg ∧ ∀ p ∈ lifeNodes [] evs, p.1.natAbs ≤ s.lastId :=
  (NInv.run_state ok ign evs { h := NLFW.init Ip In ign } ign [] (NInv.init Lp Ln ign) hok).ready

/-- The reset `m_last_id = max()` after the sort in `way()` is NEEDED.  `st` = a handler over sparse indexes after the nodes
    50, 30 and a way: sorted index, `m_must_sort = false`.  If `m_last_id` still is 30 (the id of the LAST node, not of the
    largest), the node 40 arriving now leaves `m_must_sort` false although the index is no longer sorted, and the next
    way gets no location for it (not_found thrown); with `m_last_id = max()` the same node sets `m_must_sort`. -/
theorem nlfw_last_id_reset_is_needed :
    let st (last : Nat) : NLFW (sparseImpl 4 (0 : Int)) (sparseImpl 4 0) :=
      { pos := #[(30, 3), (50, 5)], neg := #[], lastId := last }
    ((st 30).node 40 4).mustSort = false ∧
    (((st 30).node 40 4).way (fun l => l != 0) [(30, 0), (40, 0), (50, 0)]).2 = ([(30, 3), (40, 0), (50, 5)], true) ∧
    ((st idMax).node 40 4).mustSort = true := by
  decide +kernel

/-- regardless of the order in which the nodes arrived: two handlers fed the same nodes in different
    orders (any permutation) answer every way identically -/
theorem nlfw_arrival_order_irrelevant {Ip In : Impl V} {e : V} (Lp : Laws Ip e) (Ln : Laws In e)
    (ok : V → Bool) (ign : Bool) (ns ns' : List (Int × V)) (hp : ns.Perm ns') (hok : NodesOk e ns)
    (refs refs' : List (NRef V)) (hids : refIds refs = refIds refs') :
    ((ns.foldr (fun p s => s.node p.1 p.2) (NLFW.init Ip In ign)).way ok refs).2 =
    ((ns'.foldr (fun p s => s.node p.1 p.2) (NLFW.init Ip In ign)).way ok refs').2 := by
  have hok' : NodesOk e ns' :=
    ⟨(hp.map _).nodup_iff.1 hok.1, fun p h => hok.2.1 p (hp.mem_iff.2 h), fun p h => hok.2.2 p (hp.mem_iff.2 h)⟩
  rw [((nlfw_invariant_nodes Lp Ln ign ns hok).way hok ok refs).2,
    ((nlfw_invariant_nodes Lp Ln ign ns' hok').way hok' ok refs').2, hids]
  exact specWay_perm hok hp ok ign _

/-- `clear()` (outside the property: "makes the handler unusable"): on every implementation that
    answers "not found" after `clear()` — all nine do, `*_clearLaw` — a way passed through afterwards
    ends with undefined locations in every ref, whatever the refs carried. -/
theorem nlfw_clear_then_ways_find_nothing {Ip In : Impl V} {e : V} (hp : ClearLaw Ip e) (hn : ClearLaw In e)
    (ok : V → Bool) (s : NLFW Ip In) (refs : List (NRef V)) :
    (s.clear.way ok refs).2 = (refs.map (fun r => (r.1, e)), !s.ignoreErrors && (!refs.isEmpty && !ok e)) :=
  NLFW.clear_way hp hn ok s refs

/-- … and all registered implementations (and `Dummy`) satisfy that law, for all parameters -/
theorem all_impls_clear_law (e vinit : V) (gd : Grow V) (gs : Grow (Nat × V)) (inc bs : Nat) (pe : Nat × V)
    (P : FlexParams) :
    ClearLaw (denseImpl vinit e) e ∧ ClearLaw (mdenseImpl gd inc e) e ∧ ClearLaw (sparseImpl bs e) e ∧
    ClearLaw (msparseImpl gs inc bs e pe) e ∧ ClearLaw (stdMapImpl e) e ∧ ClearLaw (flexImpl P e) e ∧
    ClearLaw (dummyImpl e) e :=
  ⟨dense_clearLaw vinit e, mdense_clearLaw gd inc e, sparse_clearLaw bs e, msparse_clearLaw gs inc bs e pe,
   stdmap_clearLaw e, flex_clearLaw P e, dummy_clearLaw e⟩

/-! ### the constants of the current source satisfy the side conditions -/

/-- `Location{}` (what `std::vector::resize` fills with) is `empty_value<Location>()` -/
theorem dense_mem_vinit_is_empty : Generated.C12.locValueInit = Generated.C12.locEmpty := by decide

/-- OBSERVATION (outside C12's registered types): for `size_t` values the value-initialised
    slot (0) is not the empty value (SIZE_MAX), and then the dense std::vector map is NOT a map:
    after set(5, 100) the never-inserted id 3 is found with value 0. -/
theorem dense_value_init_not_empty_refuted :
    Generated.C12.sizetValueInit ≠ Generated.C12.sizetEmpty ∧
    (denseImpl Generated.C12.sizetValueInit Generated.C12.sizetEmpty).get
      ((denseImpl Generated.C12.sizetValueInit Generated.C12.sizetEmpty).build [(5, 100)]) 3 = some 0 := by
  decide

/-! ### non-vacuity -/

example : DistinctIds [(5, (1 : Int)), (3, 7), (65536, 2)] ∧ NonEmptyVals (0 : Int) [(5, 1), (3, 7), (65536, 2)] := by
  simp [DistinctIds, NonEmptyVals]

-- unsorted sparse lookups really fail (the sort step matters) …
example : (sparseImpl 4 (0 : Int)).get ((sparseImpl 4 0).build [(5, 1), (3, 7), (4, 9)]) 5 = none := by decide +kernel
-- … and succeed after it (through the theorem: its hypotheses are met by this history)
example : (sparseImpl 4 (0 : Int)).get ((sparseImpl 4 0).sort ((sparseImpl 4 0).build [(5, 1), (3, 7), (4, 9)])) 5 = some 1 :=
  (sparse_refines 4 0 [(5, 1), (3, 7), (4, 9)] (by simp [DistinctIds]) (by simp [NonEmptyVals]) 5).1.trans (by decide)

-- a FlexMem history that crosses the switch (threshold 3, factor 3, 2-bit blocks)
example : ((flexImpl ⟨2, 3, 3⟩ (0 : Int)).build [(1, 11), (2, 12), (3, 13)]).dense = true := by decide
example : (flexImpl ⟨2, 3, 3⟩ (0 : Int)).get ((flexImpl ⟨2, 3, 3⟩ 0).build [(1, 11), (2, 12), (3, 13), (9, 19)]) 9 = some 19 := by decide

-- a stream that needs the sort step: nodes 5, -3, 2, a way whose refs carry stale / foreign / half-defined
-- locations (99, 98, 0 = undefined, 97), a late node 1, the FIRST way object again, a new way
example : (NLFW.run (fun (l : Int) => l != 0) (NLFW.init (sparseImpl 4 (0 : Int)) (sparseImpl 4 0) false)
    { h := NLFW.init (sparseImpl 4 (0 : Int)) (sparseImpl 4 0) false }
    [.node 5 50, .node (-3) 30, .node 2 20, .way [(2, 99), (-3, 98), (5, 0), (7, 97)], .node 1 10, .again 0,
     .way [(1, 50), (5, 50)]]).2 =
    [([(2, 20), (-3, 30), (5, 50), (7, 0)], true), ([(2, 20), (-3, 30), (5, 50), (7, 0)], true),
     ([(1, 10), (5, 50)], false)] := by
  have hok : EvsOk (0 : Int) [] [.node 5 50, .node (-3) 30, .node 2 20, .way [(2, 99), (-3, 98), (5, 0), (7, 97)],
      .node 1 10, .again 0, .way [(1, 50), (5, 50)]] := by
    simp only [EvsOk]
    refine ⟨by decide, by decide, ?_⟩
    intro p hp; simp at hp; rcases hp with rfl | rfl | rfl | rfl <;> simp [idMax]
  exact (nlfw_ways_get_locations (sparseLaws 4 0) (sparseLaws 4 0) _ false _ hok).trans (by decide)

-- the domain predicate of streams is satisfiable across a `fresh` (the same ids again, moved)
example : EvsOk (0 : Int) [] [.node 5 50, .way [(5, 1)], .ignoreErrors, .fresh, .node 5 51, .again 0] := by
  simp only [EvsOk]
  refine ⟨⟨by decide, by decide, ?_⟩, ⟨by decide, by decide, ?_⟩⟩ <;>
    (intro p hp; simp at hp; rcases hp with rfl; simp [idMax])

-- GrowOk is satisfiable: Linux hands out zero pages
example : GrowOk (fun (a : Array Int) n => a ++ Array.replicate (n - a.size) 7) :=
  fun a n hle => ⟨by simp; omega, fun i hi => by simp [Array.getElem?_append, hi]⟩

-- a dump that needs three windows of 2 slots, the last one partial
example : (sparseImpl 2 (0 : Int)).dumpAsArray #[(1, 11), (4, 44)] = some #[0, 11, 0, 0, 44] := by decide

example : NodesOk (0 : Int) [(5, 50), (-3, 30), (2, 20)] := by
  refine ⟨by decide, by decide, ?_⟩
  intro p hp; simp at hp; rcases hp with rfl | rfl | rfl <;> simp [idMax]

-- a history with three set phases (ids of the later phases below / between the earlier ones, two sort steps in
-- between) meets the hypotheses of the phase theorems …
example : DistinctIds (setsOf [MOp.set 50 (5 : Int), .set 30 3, .sort, .set 40 4, .sort, .set 10 1, .set 20 2]) ∧
    NonEmptyVals (0 : Int) (setsOf [MOp.set 50 5, .set 30 3, .sort, .set 40 4, .sort, .set 10 1, .set 20 2]) := by
  simp [DistinctIds, NonEmptyVals, setsOf]
-- … and WITHOUT the final sort the id inserted after the earlier sort is not found (the sort step matters)
example : (sparseImpl 4 (0 : Int)).get ((sparseImpl 4 0).runOps #[(30, 3), (50, 5)] [MOp.set 40 4]) 40 = none := by
  decide +kernel
-- two reload generations + later phases: the hypotheses of `reload_generations_partial` are satisfiable
example : DistinctIds (livesSets [[MOp.set 50 (5 : Int), .set 30 3], [.set 40 4, .sort]] ++ setsOf [MOp.set 10 1, .sort, .set 45 9]) ∧
    NonEmptyVals (0 : Int) (livesSets [[MOp.set 50 5, .set 30 3], [.set 40 4, .sort]] ++ setsOf [MOp.set 10 1, .sort, .set 45 9]) := by
  simp [DistinctIds, NonEmptyVals, setsOf, livesSets]
-- nodes after a way: the seed's stream (50, 30, way, 40, way) is in the domain of `nlfw_nodes_after_way`
example : NodesOk (0 : Int) ([(40, 4)].reverse ++ [(50, 5), (30, 3)].reverse) := by
  refine ⟨by decide, by decide, ?_⟩
  intro p hp; simp at hp; rcases hp with rfl | rfl | rfl <;> simp [idMax]

/-! ### source ties (tools/cxx2lean.py): the functions REGENERATED from /repo's C++ source on every run
    (Osmium/Generated/Src.lean) equal the expressions the model `Flex` uses (Model/IndexMap.lean writes
    `block(id)` as `id / 2 ^ P.bits`, `offset(id)` as `id % 2 ^ P.bits`, and the switch test of `set_sparse` as
    `s.sparse.size ≥ P.minDense` / `s.maxId < s.sparse.size * P.factor`), at the parameters of the source
    (instantiation `FlexMem<uint64_t, Location>`; `Generated.C12` are the constants the check regenerates). -/

section SrcTies
open Osmium.Generated Osmium.CxxSem

/-- `FlexMem::block(id)` = `id / 2 ^ bits`, `FlexMem::offset(id)` = `id % 2 ^ bits`; never undefined -/
theorem src_tie_flex_block_offset (id : Nat) :
    Src.FlexMem.FlexMem_u64_Location.block (id : Int) = ((id / 2 ^ Generated.C12.flexBits : Nat) : Int) ∧
    Src.FlexMem.FlexMem_u64_Location.offset (id : Int) = ((id % 2 ^ Generated.C12.flexBits : Nat) : Int) ∧
    Src.FlexMem.FlexMem_u64_Location.block_defined (id : Int) = true ∧
    Src.FlexMem.FlexMem_u64_Location.offset_defined (id : Int) = true := by
  have e : wrapS 32 Src.FlexMem.FlexMem_u64_Location.bits = ((16 : Nat) : Int) := by decide
  have e' : wrapU 64 (Src.FlexMem.FlexMem_u64_Location.block_size - 1) = ((2 ^ 16 - 1 : Nat) : Int) := by decide
  have eb : Generated.C12.flexBits = 16 := by decide
  refine ⟨?_, ?_, ?_, ?_⟩
  · simp only [Src.FlexMem.FlexMem_u64_Location.block, e, shr_nat, Nat.shiftRight_eq_div_pow, eb]
  · simp only [Src.FlexMem.FlexMem_u64_Location.offset, e', band_nat, Nat.and_two_pow_sub_one_eq_mod, eb]
  · simp only [Src.FlexMem.FlexMem_u64_Location.block_defined]; decide
  · simp only [Src.FlexMem.FlexMem_u64_Location.offset_defined]

/-- the two nested conditions of `set_sparse` (`size() >= min_dense_entries`, `m_max_id < size() * density_factor`)
    = the model's switch test, as long as `size * density_factor` does not wrap in 64 bits -/
theorem src_tie_flex_switch (s : Src.FlexMem.FlexMem_u64_Location) (ht : Src.FlexMem.FlexMem_u64_Location.typed s = true)
    (hs : s.m_sparse_entries.size * 3 < 2 ^ 64) :
    (Src.FlexMem.set_sparse_cond_min_entries s = true ↔ s.m_sparse_entries.size.toNat ≥ Generated.C12.flexMinDenseEntries) ∧
    (Src.FlexMem.set_sparse_cond_density s = true ↔
      s.m_max_id.toNat < s.m_sparse_entries.size.toNat * Generated.C12.flexDensityFactor) := by
  simp only [Src.FlexMem.FlexMem_u64_Location.typed, Bool.and_eq_true, inU_iff] at ht
  have e1 : wrapU 64 Src.FlexMem.FlexMem_u64_Location.min_dense_entries = 16777215 := by decide
  have e2 : wrapU 64 (s.m_sparse_entries.size * Src.FlexMem.FlexMem_u64_Location.density_factor) = s.m_sparse_entries.size * 3 := by
    apply wrapU_eq <;> simp only [Src.FlexMem.FlexMem_u64_Location.density_factor] <;> omega
  have c1 : Generated.C12.flexMinDenseEntries = 16777215 := by decide
  have c2 : Generated.C12.flexDensityFactor = 3 := by decide
  simp only [Src.FlexMem.set_sparse_cond_min_entries, Src.FlexMem.set_sparse_cond_density, e1, e2, c1, c2, ge_iff, lt_iff]
  constructor <;> omega

example : Src.FlexMem.FlexMem_u64_Location.typed ⟨⟨⟩, ⟨16777215⟩, ⟨0⟩, 40000000, false⟩ = true ∧
    (16777215 : Int) * 3 < 2 ^ 64 := by decide


/-! `NodeLocationsForWays` (instantiated over the abstract `Map<uint64_t, Location>`, as in harness/c12.cpp):
    `node()`, `way()` and `get_node_location()` call virtual index methods and `way()` ranges over the way's node
    refs — outside the translator's subset as whole functions.  Every CONDITION that steers them, the local `id`
    and `ignore_errors()` are translated; the ties state that the model's steps are exactly those conditions
    plugged into the statement sequence of the source. -/

/-- the handler object of the source as the model state over index states `p`, `n` -/
def absNLFW {Ip In : Impl Loc} (self : Src.NodeLocationsForWays.NodeLocationsForWays_Location_Location)
    (p : Ip.M) (n : In.M) : NLFW Ip In :=
  { pos := p, neg := n, lastId := self.m_last_id.toNat, ignoreErrors := self.m_ignore_errors,
    mustSort := self.m_must_sort }

/-- `node()`: `if (node.positive_id() < m_last_id) m_must_sort = true; m_last_id = node.positive_id();
    const auto id = node.id(); if (id >= 0) pos.set(id, loc) else neg.set(-id, loc)` — the model's `NLFW.node`
    is this sequence with the translated conditions, for every node id but INT64_MIN (`std::abs` undefined). -/
theorem src_tie_nlfw_node {Ip In : Impl Loc} (self : Src.NodeLocationsForWays.NodeLocationsForWays_Location_Location)
    (node : Src.Node.Node) (p : Ip.M) (n : In.M) (loc : Loc)
    (ht : Src.NodeLocationsForWays.nlfw_node_cond_out_of_order_typed self node = true)
    (hd : Src.NodeLocationsForWays.nlfw_node_cond_out_of_order_defined self node = true) :
    (absNLFW self p n).node (Src.NodeLocationsForWays.nlfw_node_id node) loc =
      { pos := if Src.NodeLocationsForWays.nlfw_node_cond_positive (Src.NodeLocationsForWays.nlfw_node_id node)
                 then Ip.set p (Src.NodeLocationsForWays.nlfw_node_id node).toNat loc else p,
        neg := if Src.NodeLocationsForWays.nlfw_node_cond_positive (Src.NodeLocationsForWays.nlfw_node_id node)
                 then n else In.set n (-(Src.NodeLocationsForWays.nlfw_node_id node)).toNat loc,
        lastId := (Src.Object.OSMObject.positive_id node.toBase_OSMObject).toNat,
        ignoreErrors := self.m_ignore_errors,
        mustSort := if Src.NodeLocationsForWays.nlfw_node_cond_out_of_order self node then true else self.m_must_sort } := by
  simp only [Src.NodeLocationsForWays.nlfw_node_cond_out_of_order_typed,
    Src.NodeLocationsForWays.NodeLocationsForWays_Location_Location.typed, Src.Node.Node.typed,
    Src.Object.OSMObject.typed, Bool.and_eq_true, inU_iff, inS64_iff] at ht
  simp only [Src.NodeLocationsForWays.nlfw_node_cond_out_of_order_defined, Src.Object.OSMObject.positive_id_defined,
    inS64_iff] at hd
  have hw : wrapU 64 ((Int.natAbs node.toBase_OSMObject.m_id : Nat) : Int) = ((Int.natAbs node.toBase_OSMObject.m_id : Nat) : Int) := by
    apply wrapU_eq <;> omega
  have hl : ((self.m_last_id.toNat : Nat) : Int) = self.m_last_id := by omega
  by_cases hlt : (Int.natAbs node.toBase_OSMObject.m_id) < self.m_last_id.toNat <;>
    by_cases hge : node.toBase_OSMObject.m_id ≥ 0 <;>
    simp [NLFW.node, absNLFW, Src.NodeLocationsForWays.nlfw_node_id, Src.Object.OSMObject.id,
      Src.NodeLocationsForWays.nlfw_node_cond_positive, Src.NodeLocationsForWays.nlfw_node_cond_out_of_order,
      Src.Object.OSMObject.positive_id, hw, hlt, hge] <;> omega

/-- `get_node_location(id)`: the condition that picks the positive / negative index is the model's `id ≥ 0` -/
theorem src_tie_nlfw_get_node_location {Ip In : Impl Loc} (s : NLFW Ip In) (id : Int) :
    s.getNodeLocation id =
      if Src.NodeLocationsForWays.nlfw_get_cond_positive id then Ip.getNoexcept s.pos id.toNat
      else In.getNoexcept s.neg (-id).toNat := by
  by_cases h : id ≥ 0 <;> simp [NLFW.getNodeLocation, Src.NodeLocationsForWays.nlfw_get_cond_positive, h] <;> omega

/-- `way()`: (a) the sort step runs iff the translated `m_must_sort` condition holds; (b) `Location::operator bool`,
    which the loop's `if (!node_ref.location()) error = true` applies to the ref's location after `set_location`, is the
    model's `Loc.ok` (the `if` itself sits in the range-for and goes through the non-const `NodeRef::location()`, whose
    generated name clashes with the const overload: not extracted); (c) `not_found` is thrown iff the translated `!m_ignore_errors && error`. -/
theorem src_tie_nlfw_way {Ip In : Impl Loc} (self : Src.NodeLocationsForWays.NodeLocationsForWays_Location_Location)
    (p : Ip.M) (n : In.M) (l : Src.Location.Location) (refs : List (NRef Loc)) :
    ((absNLFW self p n : NLFW Ip In).prepare =
      if Src.NodeLocationsForWays.nlfw_way_cond_must_sort self
      then { pos := Ip.sort p, neg := In.sort n, lastId := idMax, ignoreErrors := self.m_ignore_errors, mustSort := false }
      else absNLFW self p n) ∧
    Src.Location.Location.op_to_bool l = Loc.ok ⟨l.m_x, l.m_y⟩ ∧
    ((absNLFW self p n : NLFW Ip In).way Loc.ok refs).2.2 =
      Src.NodeLocationsForWays.nlfw_way_cond_throw self
        (((absNLFW self p n : NLFW Ip In).prepare.wayLoop Loc.ok refs false).2) := by
  have eu : wrapS 32 Src.Location.Location.undefined_coordinate = undefCoord := by decide
  refine ⟨?_, ?_, ?_⟩
  · cases hms : self.m_must_sort <;>
      simp [NLFW.prepare, absNLFW, Src.NodeLocationsForWays.nlfw_way_cond_must_sort, hms]
  · simp only [Src.Location.Location.op_to_bool, eu, Loc.ok]
    by_cases hx : l.m_x = undefCoord <;> by_cases hy : l.m_y = undefCoord <;> simp [CxxSem.ne, hx, hy]
  · have hi : (absNLFW self p n : NLFW Ip In).prepare.ignoreErrors = self.m_ignore_errors := by
      unfold NLFW.prepare absNLFW; split <;> rfl
    simp only [NLFW.way, Src.NodeLocationsForWays.nlfw_way_cond_throw, hi]

/-- `ignore_errors()` = the model's `setIgnoreErrors` -/
theorem src_tie_nlfw_ignore_errors {Ip In : Impl Loc}
    (self : Src.NodeLocationsForWays.NodeLocationsForWays_Location_Location) (p : Ip.M) (n : In.M) :
    ∃ self', Src.NodeLocationsForWays.NodeLocationsForWays_Location_Location.ignore_errors self = .normal self' () ∧
      (absNLFW self' p n : NLFW Ip In) = (absNLFW self p n).setIgnoreErrors :=
  ⟨{ self with m_ignore_errors := true }, by simp [Src.NodeLocationsForWays.NodeLocationsForWays_Location_Location.ignore_errors],
   by simp [absNLFW, NLFW.setIgnoreErrors]⟩

/-- `way()`, the assignment after the sort: the right-hand side of `m_last_id = …` in the source (translated:
    `std::numeric_limits<unsigned_object_id_type>::max()`) IS the model's `idMax`, and the model's sort step stores
    exactly that value; `node()`'s `m_last_id = node.positive_id()` is the model's `|id|`. -/
theorem src_tie_nlfw_last_id {Ip In : Impl Loc} (self : Src.NodeLocationsForWays.NodeLocationsForWays_Location_Location)
    (p : Ip.M) (n : In.M) (node : Src.Node.Node) (loc : Loc)
    (hd : Src.NodeLocationsForWays.nlfw_node_last_id_defined node = true) :
    Src.NodeLocationsForWays.nlfw_way_last_id_after_sort = (idMax : Int) ∧
    Src.NodeLocationsForWays.nlfw_way_last_id_after_sort_defined = true ∧
    (self.m_must_sort = true →
      (absNLFW self p n : NLFW Ip In).prepare.lastId = Src.NodeLocationsForWays.nlfw_way_last_id_after_sort.toNat) ∧
    ((absNLFW self p n : NLFW Ip In).node (Src.NodeLocationsForWays.nlfw_node_id node) loc).lastId =
      (Src.NodeLocationsForWays.nlfw_node_last_id node).toNat := by
  have e1 : Src.NodeLocationsForWays.nlfw_way_last_id_after_sort = (idMax : Int) := by decide
  refine ⟨e1, by decide, ?_, ?_⟩
  · intro hms
    simp only [NLFW.prepare, absNLFW, hms, if_true, e1, Int.toNat_natCast]
  · simp only [Src.NodeLocationsForWays.nlfw_node_last_id_defined, Src.Object.OSMObject.positive_id_defined,
      inS64_iff] at hd
    have hw : wrapU 64 ((Int.natAbs node.toBase_OSMObject.m_id : Nat) : Int) = ((Int.natAbs node.toBase_OSMObject.m_id : Nat) : Int) := by
      apply wrapU_eq <;> omega
    by_cases hge : node.toBase_OSMObject.m_id ≥ 0 <;>
      simp [NLFW.node, absNLFW, Src.NodeLocationsForWays.nlfw_node_id, Src.Object.OSMObject.id,
        Src.NodeLocationsForWays.nlfw_node_last_id, Src.Object.OSMObject.positive_id, hw, hge]

/-! Statement-shape ties (tools/props/c12_shape.py → Generated/C12Shape.lean, regenerated from the clang AST of the source
    on every run): the statement sequences Model/IndexMap.lean transcribes, pinned.  `sparseImpl` / `msparseImpl`:
    `set` = ONE unconditional `push_back`, `sort` = ONE unconditional `std::sort` over the whole vector, the only data
    member is the vector, the constructor taking an fd initialises only the vector; `MmapVec.load/resize/reserve/
    pushBack/shrink`: the statements of `mmap_vector_base`; `NLFW.node/way/…`: the statements of the handler. -/

open Osmium.Generated.C12Shape in
/-- VectorBasedSparseMap (over std::vector and over mmap_vector_file): no state besides the vector — so nothing can
    remember "already sorted" or "largest id" across `set` / `sort` / a reopen —, `set` and `sort` unconditional. -/
theorem src_shape_sparse_map_set_sort :
    sparse_vec_fields = ["m_vector"] ∧ sparse_file_fields = ["m_vector"] ∧
    sparse_vec_set = ["m_vector.push_back(element_type{id, value})"] ∧ sparse_file_set = sparse_vec_set ∧
    sparse_vec_sort = ["sort(m_vector.begin(), m_vector.end())"] ∧ sparse_file_sort = sparse_vec_sort ∧
    sparse_vec_clear = ["m_vector.clear()", "m_vector.shrink_to_fit()"] ∧ sparse_file_clear = sparse_vec_clear := by
  refine ⟨rfl, rfl, rfl, rfl, rfl, rfl, rfl, rfl⟩

open Osmium.Generated.C12Shape in
/-- … its constructors: default, and `(int fd)` = hand the fd to the vector, nothing else -/
theorem src_shape_sparse_map_ctors :
    sparse_vec_ctors = [["params ", "init base Map = Map{}", "init m_vector = vector_type{}"],
                        ["params fd", "init base Map = Map{}", "init m_vector = vector_type{fd, <default>}"]] ∧
    sparse_file_ctors = [["params ", "init base Map = Map{}", "init m_vector = vector_type{}"],
                         ["params fd", "init base Map = Map{}", "init m_vector = fd"]] := by
  refine ⟨rfl, rfl⟩

open Osmium.Generated.C12Shape in
/-- … its lookups: `lower_bound` on the ids over the WHOLE vector, then the `end() / first != id` test (`Sparse.getN`) -/
theorem src_shape_sparse_map_lookup :
    sparse_file_find_id = ["let element = element_type{id, empty_value()}",
      "return lower_bound(m_vector.begin(), m_vector.end(), element, lambda{return (a.first < b.first)})"] ∧
    sparse_vec_find_id = sparse_file_find_id ∧
    sparse_file_get_noexcept = ["let result = find_id(id)", "if ((result == m_vector.end()) || (result.first != id))",
      "return empty_value()", "endif", "return result.second"] ∧
    sparse_file_get = ["let result = find_id(id)", "if ((result == m_vector.end()) || (result.first != id))",
      "<CXXThrowExpr>", "endif", "return result.second"] ∧
    sparse_file_dump_as_list = ["reliable_write(fd, <CXXReinterpretCastExpr>, byte_size())"] ∧
    sparse_vec_dump_as_list = sparse_file_dump_as_list := by
  refine ⟨rfl, rfl, rfl, rfl, rfl, rfl⟩

open Osmium.Generated.C12Shape in
/-- mmap_vector_base / mmap_vector_file: members `m_size`, `m_mapping`; opening a file = capacity
    `max(increment, filesize)`, size `filesize`, fill `[size, capacity)` with the empty value, `shrink_to_fit`
    (`MmapVec.load`); `push_back` / `resize` / `reserve` / `shrink_to_fit` / `clear` as modelled -/
theorem src_shape_mmap_vector :
    mmap_base_fields = ["m_size", "m_mapping"] ∧ mmap_file_fields = [] ∧
    mmap_file_ctors = [["params ", "init base mmap_vector_base = mmap_vector_base{create_tmp_file(), mmap_vector_size_increment, <default>}"],
      ["params fd", "init base mmap_vector_base = mmap_vector_base{fd, max(size_t{mmap_vector_size_increment}, filesize(fd)), filesize(fd)}"]] ∧
    mmap_base_ctors = [["params capacity", "init m_size = <CXXDefaultInitExpr>", "init m_mapping = capacity",
        "fill_n(data(), capacity, empty_value())"],
      ["params fd, capacity, size", "init m_size = size", "init m_mapping = TypedMemoryMapping{capacity, write_shared, fd, <default>}",
        "fill((data() + size), (data() + capacity), empty_value())", "shrink_to_fit()"]] ∧
    mmap_base_push_back = ["resize((m_size + 1))", "operator=(data()[(m_size - 1)], value)"] ∧
    mmap_base_resize = ["if (new_size > capacity())", "reserve((new_size + mmap_vector_size_increment))", "endif",
      "(m_size = new_size)"] ∧
    mmap_base_reserve = ["if (new_capacity > capacity())", "let old_capacity = capacity()", "m_mapping.resize(new_capacity)",
      "fill((data() + old_capacity), (data() + new_capacity), empty_value())", "endif"] ∧
    mmap_base_shrink_to_fit = ["WhileStmt", "((m_size > 0) && operator==(data()[(m_size - 1)], empty_value()))", "(--m_size)",
      "endWhileStmt"] ∧
    mmap_base_clear = ["(m_size = 0)"] := by
  refine ⟨rfl, rfl, rfl, rfl, rfl, rfl, rfl, rfl, rfl⟩

open Osmium.Generated.C12Shape in
/-- NodeLocationsForWays: the five members with their initial values, and `node()` / `way()` / `get_node_location()` /
    `clear()` / `ignore_errors()` statement by statement — in `way()`: the sort step (`sort` both, `m_must_sort = false`,
    `m_last_id = max()`) under `if (m_must_sort)`, the loop that overwrites every ref's location unconditionally, the throw. -/
theorem src_shape_nlfw :
    nlfw_fields = ["m_storage_pos", "m_storage_neg", "m_last_id = 0", "m_ignore_errors = false", "m_must_sort = false"] ∧
    nlfw_ctors = [["params storage_pos, storage_neg", "init base Handler = Handler{}", "init m_storage_pos = storage_pos",
      "init m_storage_neg = storage_neg", "init m_last_id = <CXXDefaultInitExpr>", "init m_ignore_errors = <CXXDefaultInitExpr>",
      "init m_must_sort = <CXXDefaultInitExpr>"]] ∧
    nlfw_node = ["if (node.positive_id() < m_last_id)", "(m_must_sort = true)", "endif", "(m_last_id = node.positive_id())",
      "let id = node.id()", "if (id >= 0)", "m_storage_pos.set(unsigned_object_id_type{id}, node.location())", "else",
      "m_storage_neg.set(unsigned_object_id_type{(-id)}, node.location())", "endif"] ∧
    nlfw_way = ["if m_must_sort", "m_storage_pos.sort()", "m_storage_neg.sort()", "(m_must_sort = false)", "(m_last_id = max())",
      "endif", "let error = false", "for node_ref in way.nodes()", "node_ref.set_location(get_node_location(node_ref.ref()))",
      "if (!node_ref.location().operator bool())", "(error = true)", "endif", "endfor", "if ((!m_ignore_errors) && error)",
      "<CXXThrowExpr>", "endif"] ∧
    nlfw_get_node_location = ["if (id >= 0)", "return m_storage_pos.get_noexcept(unsigned_object_id_type{id})", "endif",
      "return m_storage_neg.get_noexcept(unsigned_object_id_type{(-id)})"] ∧
    nlfw_clear = ["m_storage_pos.clear()", "m_storage_neg.clear()"] ∧
    nlfw_ignore_errors = ["(m_ignore_errors = true)"] := by
  refine ⟨rfl, rfl, rfl, rfl, rfl, rfl, rfl⟩

example : Src.NodeLocationsForWays.nlfw_node_cond_out_of_order_typed ⟨⟨⟩, ⟨⟩, ⟨⟩, 7, false, false⟩
      ⟨⟨⟨⟨⟨⟩, 0, 0, 0, 0, 0⟩⟩, -5, false, 1, ⟨0⟩, 0, 0⟩, ⟨1, 2⟩⟩ = true ∧
    Src.NodeLocationsForWays.nlfw_node_cond_out_of_order_defined ⟨⟨⟩, ⟨⟩, ⟨⟩, 7, false, false⟩
      ⟨⟨⟨⟨⟨⟩, 0, 0, 0, 0, 0⟩⟩, -5, false, 1, ⟨0⟩, 0, 0⟩, ⟨1, 2⟩⟩ = true ∧
    Src.NodeLocationsForWays.nlfw_node_cond_out_of_order ⟨⟨⟩, ⟨⟩, ⟨⟩, 7, false, false⟩
      ⟨⟨⟨⟨⟨⟩, 0, 0, 0, 0, 0⟩⟩, -5, false, 1, ⟨0⟩, 0, 0⟩, ⟨1, 2⟩⟩ = true := by decide

end SrcTies

end Osmium.IndexMap.C12
