/-
C20 — Handler dispatch and diff iteration visit each object once with the right context.

Property theorems only (helper lemmas live in Osmium/Lemmas/Dispatch.lean).  The dispatch,
compatibility and wrapper tables the theorems talk about are REGENERATED from the compiled
library on every run (Osmium/Generated/C20Tables.lean); the `cases … <;> rfl` proofs below are
complete enumerations of those finite tables, everything else is for all lists.
-/
import Osmium.Lemmas.Dispatch

namespace Osmium.Dispatch.C20

open Osmium.Dispatch Osmium.Generated.C20

/-! ### what the property says about one item -/

/-- the OSM objects: the item types that get the generic `osm_object` callback -/
def isObject : ItemType → Bool
  | .node | .way | .relation | .area => true
  | _ => false

/-- the OSM entities: objects and changesets -/
def isEntity : ItemType → Bool
  | .node | .way | .relation | .area | .changeset => true
  | _ => false

/-- the one callback that matches an item type (both member-list types share one) -/
def callbackOf : ItemType → Option Callback
  | .undefined => none
  | .node => some .node
  | .way => some .way
  | .relation => some .relation
  | .area => some .area
  | .changeset => some .changeset
  | .tagList => some .tagList
  | .wayNodeList => some .wayNodeList
  | .relationMemberList => some .relationMemberList
  | .relationMemberListFull => some .relationMemberList
  | .outerRing => some .outerRing
  | .innerRing => some .innerRing
  | .changesetDiscussion => some .changesetDiscussion

/-- the callback sequence the property demands for an item of type `t` -/
def expectedCalls (t : ItemType) (k : Constness) : List (Callback × Bool) :=
  ((if isObject t then [Callback.osmObject] else []) ++ (callbackOf t).toList).map fun c => (c, isMut k)

/-- Dispatch shape: for every item type and both const-nesses the code calls first `osm_object`
    (exactly for node/way/relation/area) and then exactly the callback matching the type, and
    hands every callback a reference of the container's const-ness. -/
theorem dispatch_shape (t : ItemType) (k : Constness) : dispatch t k = expectedCalls t k := by
  cases t <;> cases k <;> rfl

/-- The typed overloads (items reached as `OSMEntity&` / `OSMObject&`) dispatch exactly like the
    generic one on the types of their class and throw `unknown_type` on every other type. -/
theorem dispatch_class (cls : ItemClass) (k : Constness) (t : ItemType) :
    dispatchOn cls k t = if compat (toFilter cls) t then some (dispatch t k) else none := by
  cases cls <;> cases k <;> cases t <;> rfl

/-- what each `ItemIterator<T>` must keep -/
def compatSpec : FilterClass → ItemType → Bool
  | .item, _ => true
  | .entity, t => isEntity t
  | .object, t => isObject t
  | .node, t => t == .node
  | .way, t => t == .way
  | .relation, t => t == .relation
  | .area, t => t == .area
  | .changeset, t => t == .changeset
  | .tagList, t => t == .tagList
  | .wayNodeList, t => t == .wayNodeList
  | .relationMemberList, t => t == .relationMemberList || t == .relationMemberListFull
  | .outerRing, t => t == .outerRing
  | .innerRing, t => t == .innerRing
  | .changesetDiscussion, t => t == .changesetDiscussion

theorem compat_table (c : FilterClass) (t : ItemType) : compat c t = compatSpec c t := by
  cases c <;> cases t <;> rfl

/-! ### function objects wrapped as handlers -/

/-- C++ class of the item type derives from (or is) the parameter class -/
def derivesFrom (t : ItemType) : Param → Bool
  | .node => t == .node
  | .way => t == .way
  | .relation => t == .relation
  | .area => t == .area
  | .changeset => t == .changeset
  | .object => isObject t
  | .entity => isEntity t
  | .item => isEntity t
  | .generic => isEntity t

/-- The function object accepts an item of type `t` coming from a container of const-ness `k`:
    the type converts to the parameter and a non-const reference parameter needs a non-const
    container (`auto&` deduces const and therefore always binds). -/
def accepts (s : Sig) (k : Constness) (t : ItemType) : Bool :=
  derivesFrom t s.param && (s.param == .generic || !s.nonConst || isMut k)

/-- Domain of the property: signatures over OSM entity/object types (and `auto`).  A parameter of
    type `memory::Item` is the wrapper's own fallback signature and is outside the domain. -/
def SigInDomain (s : Sig) : Prop := s.param ≠ .item

/-- A wrapped function object is invoked for exactly the entities whose type it accepts, and
    receives them through a non-const reference exactly when it asked for one and the container
    is non-const. -/
theorem wrapper_sees_exactly_accepted (s : Sig) (k : Constness) (t : ItemType) (hd : SigInDomain s) :
    wrapperRaw s.param s.nonConst k t =
      if accepts s k t then some (s.nonConst && isMut k) else none := by
  obtain ⟨p, m⟩ := s
  cases p <;> first | exact absurd rfl hd | (cases m <;> cases k <;> cases t <;> rfl)

example : SigInDomain ⟨.node, true⟩ ∧ SigInDomain ⟨.generic, false⟩ ∧ SigInDomain ⟨.entity, true⟩ := by
  simp [SigInDomain]

example : accepts ⟨.object, false⟩ .const .way = true ∧ accepts ⟨.node, true⟩ .const .node = false ∧
    accepts ⟨.node, true⟩ .mut .node = true := by decide

/-! ### apply: every item in order, every handler in argument order, one flush at the end -/

/-- The log of `apply_impl` over items none of which makes `apply_item_impl` throw: for every item
    in order, for every handler in argument order, the item's callbacks; then one flush per
    handler in argument order. -/
theorem apply_log (cls : ItemClass) (k : Constness) (hs : List (Nat × Handler)) (items : List PItem)
    (hok : ∀ it ∈ items, (dispatchOn cls k it.2.ty).isSome = true) :
    applyImpl cls k hs items =
      (items.flatMap (fun it => hs.flatMap fun hd =>
          ((dispatchOn cls k it.2.ty).getD []).flatMap fun c => handlerOn hd.2 hd.1 k it.2.ty c.1 c.2 it.1)
        ++ hs.flatMap (fun hd => handlerFlush hd.2 hd.1),
       false) := by
  simp [applyImpl, applyFlush, applyLoop_ok cls k hs items hok]

example : ∃ it : PItem, (dispatchOn .entity .const it.2.ty).isSome = true := ⟨(0, ⟨.node, false⟩), rfl⟩

/-- The type-filtering iterator yields exactly the items of compatible type, in buffer order
    (removed items included), for every buffer. -/
theorem filter_iterator_spec (c : FilterClass) (buf : List PItem) :
    ItemIter.run c buf = buf.filter (fun p => compat c p.2.ty) := by
  simp only [ItemIter.run, ItemIter.mk]
  exact collect_advance c buf _ (Nat.lt_succ_self _)

/-- The reader iterator yields exactly the compatible items of all buffers in order, however the
    items are split into buffers (empty buffers and buffers without a compatible item included). -/
theorem input_iterator_spec (c : FilterClass) (bufs : List (List PItem)) :
    InIter.run c bufs = bufs.flatten.filter (fun p => compat c p.2.ty) := by
  simp only [InIter.run, InIter.mk]
  exact inCollect_spec c bufs _ (Nat.lt_succ_self _)

/-- Through the library's own iterators (buffer, iterator range, reader) `apply` never throws and
    its log is: for every compatible item of the input in order, for every handler in argument
    order, `dispatch` of the item; then one flush per handler. -/
theorem apply_entry_log (src : Source) (hsrc : src ≠ .raw) (cls : ItemClass) (k : Constness)
    (hs : List Handler) (bufs : List (List Item)) :
    apply src cls k hs bufs =
      ((((number bufs).flatten.filter fun p => compat (toFilter cls) p.2.ty).flatMap fun it =>
          (indexed hs).flatMap fun hd =>
            (dispatch it.2.ty k).flatMap fun c => handlerOn hd.2 hd.1 k it.2.ty c.1 c.2 it.1)
        ++ (indexed hs).flatMap (fun hd => handlerFlush hd.2 hd.1),
       false) := by
  have hitems : itemsOf src cls (number bufs) =
      (number bufs).flatten.filter fun p => compat (toFilter cls) p.2.ty := by
    cases src with
    | filtered => exact filter_iterator_spec _ _
    | raw => exact absurd rfl hsrc
    | reader => exact input_iterator_spec _ _
  have hok : ∀ it ∈ itemsOf src cls (number bufs), (dispatchOn cls k it.2.ty).isSome = true := by
    intro it hit
    rw [hitems, List.mem_filter] at hit
    rw [dispatch_class, hit.2]; rfl
  simp only [apply]
  rw [apply_log cls k (indexed hs) _ hok, hitems]
  congr 2
  apply flatMap_congr'
  intro it hit
  rw [List.mem_filter] at hit
  rw [dispatch_class, hit.2]; rfl

example : Source.filtered ≠ Source.raw ∧ Source.reader ≠ Source.raw := by decide

/-- A static handler at argument position `h` sees, for an item of type `t` at position `p`:
    `osm_object` (objects only) and then the matching callback — nothing else. -/
theorem static_handler_sees (h : Nat) (k : Constness) (t : ItemType) (p : Nat) :
    (dispatch t k).flatMap (fun c => handlerOn (.leaf .static) h k t c.1 c.2 p) =
      (expectedCalls t k).map fun c => ⟨h, 0, c.1, c.2, some p⟩ := by
  rw [dispatch_shape]
  simp only [handlerOn, leafOn]
  generalize expectedCalls t k = l
  induction l with
  | nil => rfl
  | cons c rest ih => simp [List.flatMap_cons, ih]

/-- Every non-undefined item reaches the matching callback of a static handler exactly once. -/
theorem static_matching_once (h : Nat) (k : Constness) (t : ItemType) (p : Nat) (cb : Callback)
    (hcb : callbackOf t = some cb) :
    (((dispatch t k).flatMap fun c => handlerOn (.leaf .static) h k t c.1 c.2 p).filter
      fun e => e.cb == cb).length = 1 := by
  rw [static_handler_sees]
  cases t <;> cases k <;> simp [callbackOf] at hcb <;> subst hcb <;> rfl

example : callbackOf .relationMemberListFull = some .relationMemberList := rfl

/-- A static handler is flushed exactly once (and `apply_log` puts all flushes, in argument order,
    after the last item). -/
theorem static_flush_once (h : Nat) :
    handlerFlush (.leaf .static) h = [⟨h, 0, .flush, false, none⟩] := rfl

/-! ### the diff iterator -/

/-- For ALL lists (empty and singletons included) iterating with the real state machine
    (constructor, `operator++`, `set_diff`, `operator==`) yields exactly the specified
    (prev, curr, next, first, last) for every position, never dereferencing outside the range. -/
theorem diffiter_spec (xs : List Obj) : DiffIter.run xs = (diffs xs).map some := by
  simp only [DiffIter.run, diffIter_mk_eq, diffs]
  rw [diffCollect_spec xs xs.length 0 (xs.length + 1) (by omega) (by omega)]
  simp [List.range_eq_range', Function.comp_def]

/-- What a DiffIterator position presents is a function of the POSITION, not of how the iterator
    was driven there.  For ALL lists and ALL scripts over the public operations of two iterator
    objects `a`, `b` (dereference through `*` and `->`, pre-increment, `*a++`, `std::advance(a, 2)`,
    copy `b = a`, assign back `a = b`, the same on the copy, comparison with the end and with each
    other) run on the transcribed member state (m_prev, m_curr, m_next, m_end, mutable m_diff),
    every output equals the output of the position-only specification `specRun`: a dereference at
    position `i` presents exactly `diffAt xs i`, never reads outside the range, and the comparisons
    say exactly whether the positions are the end / equal. -/
theorem diffiter_presentation_depends_on_position_only (xs : List Obj) (ops : List DriveOp) :
    drive xs ops = specRun xs ⟨0, 0⟩ ops :=
  driveRun_spec xs ops _ _ (driveRep_init xs)

/-- ... in particular: after ANY script `pre`, dereferencing `a` presents `diffAt` of the position
    where `pre` left `a` (or is refused at the end), whatever `pre` did to get there. -/
theorem diffiter_deref_after_any_script (xs : List Obj) (pre : List DriveOp) :
    drive xs (pre ++ [.deref]) =
      drive xs pre ++ [if (specPos xs ⟨0, 0⟩ pre).a < xs.length
                       then .present (some (diffAt xs (specPos xs ⟨0, 0⟩ pre).a)) else .atEnd] := by
  rw [diffiter_presentation_depends_on_position_only, diffiter_presentation_depends_on_position_only,
    specRun_append]
  congr 1
  simp only [specRun, specStep, presentAt]
  split <;> simp

/-- non-vacuity: `while (it != end) use(*it++)` over a run of three versions of one node presents
    v1 (first), v2 (middle, prev = v1), v3 (last); skipping (`++a; ++a; *a`), a copy advanced
    separately, and looking twice give the same presentation of position 2 / 1. -/
example :
    drive [⟨1, 1, 1⟩, ⟨1, 1, 2⟩, ⟨1, 1, 3⟩] [.post, .post, .post, .cmpEnd] =
      [.present (some ⟨0, 0, 1, true, false⟩), .present (some ⟨0, 1, 2, false, false⟩),
       .present (some ⟨1, 2, 2, false, true⟩), .isEnd true] ∧
    drive [⟨1, 1, 1⟩, ⟨1, 1, 2⟩, ⟨1, 1, 3⟩] [.inc, .inc, .deref, .deref] =
      [.present (some ⟨1, 2, 2, false, true⟩), .present (some ⟨1, 2, 2, false, true⟩)] ∧
    drive [⟨1, 1, 1⟩, ⟨1, 1, 2⟩, ⟨1, 1, 3⟩] [.copy, .incB, .derefB, .deref, .cmpAB, .adv2, .inc, .deref] =
      [.present (some ⟨0, 1, 2, false, false⟩), .present (some ⟨0, 0, 1, true, false⟩), .equal false,
       .atEnd] := by decide

/-- The same for the type-filtering `ItemIterator<T>`: for ALL buffers and ALL scripts over the
    operations of two iterator objects (without `a == b`, which is covered by the correspondence
    check only), the iterator at position `i` presents the `i`-th item of a compatible type, is at
    the end exactly after the last one, and never reads past the buffer. -/
theorem itemiter_presentation_depends_on_position_only (c : FilterClass) (buf : List PItem)
    (ops : List DriveOp) (hops : DriveOp.cmpAB ∉ ops) :
    itemDrive c buf ops = fspecRun ((buf.filter fun p => compat c p.2.ty).map (·.1)) ⟨0, 0⟩ ops :=
  itemRun_spec c _ ops hops _ _ (itemRep_init c buf) (itemRep_init c buf)

example : DriveOp.cmpAB ∉ [DriveOp.post, .copy, .inc, .deref, .derefB, .postB, .cmpEnd] ∧
    itemDrive .node [(0, ⟨.node, false⟩), (1, ⟨.tagList, false⟩), (2, ⟨.node, true⟩), (3, ⟨.way, false⟩)]
      [.post, .copy, .inc, .deref, .derefB, .postB, .cmpEnd] =
      [.item (some 0), .atEnd, .item (some 2), .item (some 2), .isEnd true] := by decide

/-- every object version is presented exactly once, in order -/
theorem diff_each_version_once (xs : List Obj) :
    (diffs xs).map (·.curr) = List.range xs.length := by
  simp [diffs, diffAt, Function.comp_def]

theorem diff_presents_input (xs : List Obj) :
    (diffs xs).map (fun d => xs[d.curr]?) = xs.map some := by
  simp only [diffs, List.map_map, Function.comp_def, diffAt]
  apply List.ext_getElem
  · simp
  · intro i h1 h2
    simp at h1
    simp [List.getElem?_eq_getElem h1]

/-- prev and next always belong to the same object as curr; prev is curr itself or the element
    just before it, next is curr itself or the element just after it; the flags say which. -/
theorem diff_context (xs : List Obj) (i : Nat) (h : i < xs.length) :
    sameObj xs (diffAt xs i).prev i = true ∧ sameObj xs i (diffAt xs i).next = true ∧
    ((diffAt xs i).first = true → (diffAt xs i).prev = i) ∧
    ((diffAt xs i).first = false → (diffAt xs i).prev + 1 = i) ∧
    ((diffAt xs i).last = true → (diffAt xs i).next = i) ∧
    ((diffAt xs i).last = false → (diffAt xs i).next = i + 1) := by
  have hc : xs[i]? = some xs[i] := List.getElem?_eq_getElem h
  have hself : sameObj xs i i = true := by simp [sameObj, hc, Obj.same]
  simp only [diffAt]
  refine ⟨?_, ?_, ?_, ?_, ?_, ?_⟩
  · by_cases hf : isFirst xs i = true
    · simp [hf, hself]
    · have hf' : isFirst xs i = false := by simpa using hf
      simp only [hf', Bool.false_eq_true, if_false]
      simp [isFirst] at hf'
      exact hf'.2
  · by_cases hl : isLast xs i = true
    · simp [hl, hself]
    · have hl' : isLast xs i = false := by simpa using hl
      simp only [hl', Bool.false_eq_true, if_false]
      simp [isLast] at hl'
      exact hl'.2
  · intro hf; simp [hf]
  · intro hf
    have h0 : i ≠ 0 := by
      intro h0; subst h0; simp [isFirst] at hf
    simp [hf]; omega
  · intro hl; simp [hl]
  · intro hl; simp [hl]

/-- The flags are true exactly at the boundaries between different objects. -/
theorem diff_flags_at_boundaries (xs : List Obj) (i : Nat) (h : i < xs.length) :
    ((diffAt xs i).first = true ↔ (i = 0 ∨ ∃ h0 : i - 1 < xs.length, xs[i - 1].key ≠ xs[i].key)) ∧
    ((diffAt xs i).last = true ↔ (i + 1 = xs.length ∨ ∃ h1 : i + 1 < xs.length, xs[i].key ≠ xs[i + 1].key)) := by
  have hc : xs[i]? = some xs[i] := List.getElem?_eq_getElem h
  have hp : xs[i - 1]? = some xs[i - 1] := List.getElem?_eq_getElem (by omega)
  constructor
  · simp only [diffAt, isFirst, sameObj, hc, hp, Bool.or_eq_true, beq_iff_eq, Bool.not_eq_true',
      ← Bool.not_eq_true, same_iff_key]
    constructor
    · rintro (h0 | hk)
      · exact Or.inl h0
      · exact Or.inr ⟨by omega, hk⟩
    · rintro (h0 | ⟨_, hk⟩)
      · exact Or.inl h0
      · exact Or.inr hk
  · by_cases h1 : i + 1 = xs.length
    · simp [diffAt, isLast, h1]
    · have hn : xs[i + 1]? = some xs[i + 1] := List.getElem?_eq_getElem (by omega)
      simp only [diffAt, isLast, sameObj, hc, hn, Bool.or_eq_true, beq_iff_eq, Bool.not_eq_true',
        ← Bool.not_eq_true, same_iff_key]
      constructor
      · rintro (h0 | hk)
        · exact Or.inl h0
        · exact Or.inr ⟨by omega, hk⟩
      · rintro (h0 | ⟨_, hk⟩)
        · exact Or.inl h0
        · exact Or.inr hk

/-- Domain of the diff iterator: all versions of one object are adjacent (what sorting by
    type, id, version guarantees). -/
def Grouped (xs : List Obj) : Prop :=
  ∀ k, k < xs.length → ∀ j, j < k → ∀ i, i < j → sameObj xs i k = true → sameObj xs j k = true

instance (xs : List Obj) : Decidable (Grouped xs) := by unfold Grouped; infer_instance

/-- Data sorted by any antisymmetric order on (type, id) — in particular by libosmium's
    type/id/version order of C16 — is grouped. -/
theorem sorted_grouped (xs : List Obj) (le : Nat × Int → Nat × Int → Prop)
    (antisymm : ∀ a b, le a b → le b a → a = b)
    (hs : xs.Pairwise (fun a b => le a.key b.key)) : Grouped xs := by
  intro k hk j hj i hi hsame
  rw [List.pairwise_iff_getElem] at hs
  have hik := hs i j (by omega) (by omega) hi
  have hjk := hs j k (by omega) hk hj
  have hi' : xs[i]? = some xs[i] := List.getElem?_eq_getElem (by omega)
  have hj' : xs[j]? = some xs[j] := List.getElem?_eq_getElem (by omega)
  have hk' : xs[k]? = some xs[k] := List.getElem?_eq_getElem hk
  simp only [sameObj, hi', hj', hk', same_iff_key] at hsame ⊢
  rw [hsame] at hik
  exact antisymm _ _ hjk hik

/-- On grouped data `first` is true exactly for the first version of each object: no earlier
    element is the same object. -/
theorem first_iff_no_earlier (xs : List Obj) (hg : Grouped xs) (i : Nat) (h : i < xs.length) :
    (diffAt xs i).first = true ↔ ∀ j, j < i → sameObj xs j i = false := by
  simp only [diffAt, isFirst, Bool.or_eq_true, beq_iff_eq, Bool.not_eq_true']
  constructor
  · rintro (h0 | hk) j hj
    · omega
    · by_cases hji : j = i - 1
      · rw [hji]; exact hk
      · cases hs : sameObj xs j i with
        | false => rfl
        | true =>
          have := hg i h (i - 1) (by omega) j (by omega) hs
          rw [hk] at this; exact absurd this (by decide)
  · intro hall
    by_cases h0 : i = 0
    · exact Or.inl h0
    · exact Or.inr (hall (i - 1) (by omega))

/-- … and `last` exactly for the last version: no later element is the same object. -/
theorem last_iff_no_later (xs : List Obj) (hg : Grouped xs) (i : Nat) (h : i < xs.length) :
    (diffAt xs i).last = true ↔ ∀ j, i < j → j < xs.length → sameObj xs i j = false := by
  simp only [diffAt, isLast, Bool.or_eq_true, beq_iff_eq, Bool.not_eq_true']
  constructor
  · rintro (h0 | hk) j hj hjn
    · omega
    · by_cases hji : j = i + 1
      · rw [hji]; exact hk
      · cases hs : sameObj xs i j with
        | false => rfl
        | true =>
          have h2 := hg j hjn (i + 1) (by omega) i (by omega) hs
          -- sameObj (i+1) j and sameObj i j give sameObj i (i+1)
          have hi : xs[i]? = some xs[i] := List.getElem?_eq_getElem h
          have hj' : xs[j]? = some xs[j] := List.getElem?_eq_getElem hjn
          have hn : xs[i + 1]? = some xs[i + 1] := List.getElem?_eq_getElem (by omega)
          simp only [sameObj, hi, hj', hn, same_iff_key] at hs h2 hk ⊢
          have : xs[i].key = xs[i + 1].key := by rw [hs, h2]
          have hk' : ¬ (xs[i].same xs[i + 1] = true) := by simp [hk]
          exact absurd ((same_iff_key _ _).2 this) hk'
  · intro hall
    by_cases h1 : i + 1 = xs.length
    · exact Or.inl h1
    · exact Or.inr (hall (i + 1) (by omega) (by omega))

example : Grouped [⟨1, 1, 1⟩, ⟨1, 1, 2⟩, ⟨1, 2, 1⟩, ⟨2, 1, 1⟩, ⟨2, 1, 2⟩, ⟨2, 1, 3⟩] := by decide
example : ¬ Grouped [⟨1, 1, 1⟩, ⟨1, 2, 1⟩, ⟨1, 1, 2⟩] := by decide
example : diffs [⟨1, 1, 1⟩, ⟨1, 1, 2⟩, ⟨1, 2, 1⟩] =
    [⟨0, 0, 1, true, false⟩, ⟨0, 1, 1, false, true⟩, ⟨2, 2, 2, true, true⟩] := by decide
example : DiffIter.run [] = [] ∧ DiffIter.run [⟨3, -7, 1⟩] = [some ⟨0, 0, 0, true, true⟩] := by decide

/-! ### apply_diff / DiffHandler -/

def diffCbOfObj (o : Obj) : DiffCb := if o.ty = 1 then .node else if o.ty = 2 then .way else .relation

/-- nodes, ways and relations: the types `apply_diff` dispatches -/
def IsNWR (o : Obj) : Prop := o.ty = 1 ∨ o.ty = 2 ∨ o.ty = 3

/-- `apply_diff` over nodes, ways and relations never throws and calls, for every version in order
    and for every handler in argument order, the callback of the object's type with the diff of
    that position. -/
theorem apply_diff_log (xs : List Obj) (n : Nat) (hty : ∀ o ∈ xs, IsNWR o) :
    applyDiff xs n =
      ((diffs xs).flatMap (fun d => (List.range n).map fun h =>
          ⟨h, diffCbOfObj (xs[d.curr]?.getD default), d⟩), false) := by
  simp only [applyDiff, diffiter_spec]
  exact applyDiffLoop_ok xs (List.range n) (diffs xs) diffCbOfObj
    (by
      intro d hd
      simp only [diffs, List.mem_map, List.mem_range] at hd
      obtain ⟨i, hi, rfl⟩ := hd
      simp only [diffAt, List.getElem?_eq_getElem hi, Option.map_some, Option.getD_some]
      rcases hty xs[i] (List.getElem_mem hi) with h | h | h <;> simp [diffCbOf, diffCbOfObj, h])

example : IsNWR ⟨2, 5, 1⟩ := by simp [IsNWR]

/-- an area in the range makes `apply_diff` throw `unknown_type` (it has no area callback) -/
theorem apply_diff_area_throws : (applyDiff [⟨4, 1, 1⟩] 1).2 = true := by decide

end Osmium.Dispatch.C20
