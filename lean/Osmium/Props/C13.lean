/-
C13 — Coordinate, timestamp and number text conversions are exact and strict.

Property theorems only (helper lemmas live in Osmium/Lemmas/Conv*.lean).  The model
(Osmium/Model/Conv.lean) is a statement-by-statement transcription of the C++ functions; the
quantifiers range over ALL int32 coordinates, ALL uint32 timestamps, ALL strings of the
coordinate grammar (digit lists of any length), ALL digit strings for the integer parsers.

The tree contains the fixes for the four findings of this property (5d92c23 F1 exponent
overflow, b0f4fdb F14 dropped fraction digits, b3b4a84 timestamp range, 2814835 Feb 29): the
theorems without suffix are about the code as it is now (`Variant.now` = `Variant.fixed`,
`parseTimestampNow`, `timestampNow`) and hold at FULL strength.  The `_old` theorems document
what was false before the fixes (refutations on the witness strings, and what did hold under
extra hypotheses); the check keeps the witness strings as regression probes.
-/
import Osmium.Lemmas.ConvTsFix
import Osmium.Lemmas.ConvInt
import Osmium.Lemmas.ConvCoordRt
import Osmium.Lemmas.ConvCoordFixed
import Osmium.Generated.Src
import Osmium.Lemmas.CxxSem
import Osmium.Lemmas.SrcTieCoord2
import Osmium.Lemmas.SrcTieOpl
import Osmium.Lemmas.SrcTieTs
import Osmium.Lemmas.SrcTieTs2

namespace Osmium.Conv.C13

open Osmium.Conv
open Osmium.Conv.IntLemmas (digitsStr valMS AllDigits NoDigitHead signStr signed)

/-! ## coordinates: format → parse round trip (all 2^32 values, every parser variant) -/

/-- the character after the number cannot continue it: no digit, '.', 'e', 'E' (e.g. end of
    string, ',', ' ') -/
structure Terminates (rest : List UInt8) : Prop where
  no_digit : NoDigitHead rest
  no_dot : peek rest ≠ cDot
  no_e : peek rest ≠ ce
  no_E : peek rest ≠ cE

/-- `parse(format(x)) == x` for every int32 `x`, whatever follows the number, with no
    overflow on the way — a proof over digit lists, not an enumeration. -/
theorem coord_roundtrip (v : Variant) (x : Int) (h1 : int32Min ≤ x) (h2 : x ≤ int32Max)
    (rest : List UInt8) (ht : Terminates rest) :
    parseCoord v (formatCoord x ++ rest) = .ok ⟨x, rest, false⟩ := by
  obtain ⟨hf, hd, he, hE⟩ := ht
  simp only [int32Min, int32Max] at h1 h2
  unfold formatCoord
  by_cases hmin : x = int32Min
  · subst hmin
    have hs : ([cMinus, 50, 49, 52, cDot, 55, 52, 56, 51, 54, 52, 56] : List UInt8)
        = (if true then [cMinus] else []) ++ (digitsStr [2, 1, 4] ++
            (if ([7, 4, 8, 3, 6, 4, 8] : List Nat) = [] then [] else cDot :: digitsStr [7, 4, 8, 3, 6, 4, 8])) := by
      decide
    have := parseCoord_plain v true [2, 1, 4] [7, 4, 8, 3, 6, 4, 8] (allDigits_of_all _ (by decide)) (allDigits_of_all _ (by decide)) (by decide)
      (by decide) (by decide) 2147483648 (by decide) (by decide) (by decide) rest hf hd he hE
    have hb : (int32Min == int32Min) = true := by decide
    simp only [hb, ↓reduceIte]
    rw [hs, this]; rfl
  · have hne : (x == int32Min) = false := by simpa using hmin
    simp only [int32Min] at hmin
    rw [hne]
    simp only [Bool.false_eq_true, if_false]
    by_cases hneg : x < 0
    · obtain ⟨hi, kept, hhi, hk, hn, hl, hkl, hfmt, hval⟩ := formatCoordAbs_spec (-x).toNat (by omega)
      have := parseCoord_plain v true hi kept hhi hk hn (by omega) hkl (-x).toNat hval (by omega)
        (by intro h; cases h) rest hf hd he hE
      rw [if_pos hneg, hfmt]
      simp only [if_true] at this
      rw [List.cons_append]
      rw [show cMinus :: ((digitsStr hi ++ if kept = [] then [] else cDot :: digitsStr kept) ++ rest)
        = [cMinus] ++ (digitsStr hi ++ if kept = [] then [] else cDot :: digitsStr kept) ++ rest from rfl, this]
      congr 2
      omega
    · obtain ⟨hi, kept, hhi, hk, hn, hl, hkl, hfmt, hval⟩ := formatCoordAbs_spec x.toNat (by omega)
      have := parseCoord_plain v false hi kept hhi hk hn (by omega) hkl x.toNat hval (by omega)
        (by intro _; omega) rest hf hd he hE
      rw [if_neg hneg, hfmt]
      simp only [Bool.false_eq_true, if_false, List.nil_append] at this
      rw [this]
      congr 2
      omega

/-- `Location::set_lon(as_string(x)) == x`: the strict entry point consumes the whole string -/
theorem coord_roundtrip_full (v : Variant) (x : Int) (h1 : int32Min ≤ x) (h2 : x ≤ int32Max) :
    parseCoordFull v (formatCoord x) = .ok x := by
  have := coord_roundtrip v x h1 h2 [] ⟨rfl, by decide, by decide, by decide⟩
  rw [List.append_nil] at this
  simp only [parseCoordFull, this]
  rfl

/-- set_lon rejects anything that set_lon_partial leaves unconsumed ("characters after
    coordinate") and otherwise returns the same value. -/
theorem coord_rejects_trailing (v : Variant) (s : List UInt8) (out : CoordOut)
    (h : parseCoord v s = .ok out) :
    parseCoordFull v s = if peek out.rest = 0 then .ok out.value else .error .invalidLocation := by
  simp only [parseCoordFull, h]
  by_cases h0 : peek out.rest = 0 <;> simp [h0]

/-! ## coordinates: parse is exact decimal arithmetic -/

/-- THE property for the parser, at full strength: on every string of the grammar
    (`-? (D+ (. D*)? | . D+) ([eE] -? D+)?`, any digit counts, anything non-continuing behind
    it) the result is the exact decimal value rounded half away from zero to 7 decimals if the
    digit counts are within the documented limits (10 / 27 / 5) and that value fits an int32,
    and `invalid_location` otherwise. -/
def CoordParseExact (v : Variant) : Prop :=
  ∀ (g : CoordStr) (rest : List UInt8), g.WellFormed → g.Follow rest →
    observe (parseCoord v (g.render ++ rest)) =
      if g.ip.length ≤ 10 ∧ fracLen g ≤ 27 ∧ expLen g ≤ 5 then specParse g rest
      else .error .invalidLocation

/-- "1e56" -/
def witnessF1 : CoordStr := ⟨false, [1], none, some (false, false, [5, 6])⟩
/-- "0.000000001e9" -/
def witnessF14 : CoordStr := ⟨false, [0], some [0, 0, 0, 0, 0, 0, 0, 0, 1], some (false, false, [9])⟩

theorem witnessF1_wf : witnessF1.WellFormed ∧ witnessF1.Follow [] := by
  refine ⟨⟨allDigits_of_all _ (by decide), ?_, ?_, Or.inl (by decide)⟩, ⟨rfl, ?_, ?_⟩⟩
  · intro f h; cases h
  · intro up n e h; cases h; exact ⟨allDigits_of_all _ (by decide), by decide⟩
  · intro h; cases h
  · intro h; cases h

theorem witnessF14_wf : witnessF14.WellFormed ∧ witnessF14.Follow [] := by
  refine ⟨⟨allDigits_of_all _ (by decide), ?_, ?_, Or.inl (by decide)⟩, ⟨rfl, ?_, ?_⟩⟩
  · intro f h; cases h; exact allDigits_of_all _ (by decide)
  · intro up n e h; cases h; exact ⟨allDigits_of_all _ (by decide), by decide⟩
  · intro h; cases h
  · intro h; cases h

/-- F1: the old code parsed "1e56" to 0 with an int64 overflow on the way; decimal
    arithmetic demands rejection (10^56 degrees). -/
theorem coord_F1_witness_old :
    parseCoord Variant.old (witnessF1.render ++ []) = .ok ⟨0, [], true⟩ ∧
    specParse witnessF1 [] = .error .invalidLocation := by
  constructor <;> decide +kernel

theorem coord_parse_exact_old_false : ¬ CoordParseExact Variant.old := by
  intro h
  have := h witnessF1 [] witnessF1_wf.1 witnessF1_wf.2
  rw [coord_F1_witness_old.1] at this
  revert this
  decide +kernel

/-- F14: "0.000000001e9" is exactly 1 degree; the old code (and the code with only F1
    repaired) returned 0 without any overflow. -/
theorem coord_F14_witness_old :
    parseCoord Variant.old (witnessF14.render ++ []) = .ok ⟨0, [], false⟩ ∧
    parseCoord Variant.fixedOvf (witnessF14.render ++ []) = .ok ⟨0, [], false⟩ ∧
    specParse witnessF14 [] = .ok (10000000, []) := by
  refine ⟨?_, ?_, ?_⟩ <;> decide +kernel

theorem coord_parse_exact_fixedOvf_false : ¬ CoordParseExact Variant.fixedOvf := by
  intro h
  have := h witnessF14 [] witnessF14_wf.1 witnessF14_wf.2
  rw [coord_F14_witness_old.2.1] at this
  revert this
  decide +kernel

/-- What held for the code BEFORE the fixes: exact decimal arithmetic on every grammar string within
    the digit limits, provided no fraction digit beyond the 8th is shifted up by a positive
    exponent (excludes F14) and the value scaled to 10^-8 fits an int64 (excludes F1); the
    parse then also runs without any overflow. -/
theorem coord_parse_exact_old_partial (g : CoordStr) (rest : List UInt8) (hw : g.WellFormed)
    (hf : g.Follow rest) (hl : g.ip.length ≤ 10 ∧ fracLen g ≤ 27 ∧ expLen g ≤ 5)
    (hA : NoDroppedDigits g) (hB : NoOverflow g) :
    parseCoord Variant.old (g.render ++ rest) =
      (if int32Min ≤ specRounded g ∧ specRounded g ≤ int32Max then .ok ⟨specRounded g, rest, false⟩
       else .error .invalidLocation) := by
  rw [parseCoord_grammar _ g hw rest hf, if_pos hl, coordCore_current g hw hl.1 hA hB rest,
    finishCoord_exact _ (floor8_le g hw hl.1 hA hB), floor8_round]
  rfl

/-- ... in particular the observable result is the specified one -/
theorem coord_parse_exact_old_partial_observe (g : CoordStr) (rest : List UInt8) (hw : g.WellFormed)
    (hf : g.Follow rest) (hl : g.ip.length ≤ 10 ∧ fracLen g ≤ 27 ∧ expLen g ≤ 5)
    (hA : NoDroppedDigits g) (hB : NoOverflow g) :
    observe (parseCoord Variant.old (g.render ++ rest)) = specParse g rest := by
  rw [coord_parse_exact_old_partial g rest hw hf hl hA hB]
  unfold specParse
  split <;> rfl

/-- Too many digits (more than 10 before the point, 27 after it, 5 in the exponent) are
    rejected, by every variant. -/
theorem coord_rejects_too_many_digits (v : Variant) (g : CoordStr) (rest : List UInt8)
    (hw : g.WellFormed) (hf : g.Follow rest)
    (hl : ¬ (g.ip.length ≤ 10 ∧ fracLen g ≤ 27 ∧ expLen g ≤ 5)) :
    parseCoord v (g.render ++ rest) = .error .invalidLocation := by
  rw [parseCoord_grammar v g hw rest hf, if_neg hl]

/-- The full statement holds for the parser in the tree. -/
theorem coord_parse_exact : CoordParseExact Variant.now :=
  fun g rest hw hf => coord_parse_exact_fixed' g hw rest hf

/-- ... on the witnesses of the former findings: "1e56" is rejected, "0.000000001e9" is 1 degree -/
theorem coord_witnesses_now :
    stringToLocationCoordinate (witnessF1.render ++ []) = .error .invalidLocation ∧
    stringToLocationCoordinate (witnessF14.render ++ []) = .ok ⟨10000000, [], false⟩ := by
  constructor <;> decide +kernel

/-- `specRounded` really is "round half away from zero to 7 decimals": its magnitude `r` is
    the integer with `r ≤ |value|·10^7 + 1/2 < r + 1`. -/
theorem spec_is_round_half_away (g : CoordStr) :
    let r := roundHalfUp (specNum g) (specDen g)
    specRounded g = (if g.neg then -1 else 1) * (r : Int) ∧
    2 * specDen g * r ≤ 2 * specNum g + specDen g ∧ 2 * specNum g + specDen g < 2 * specDen g * (r + 1) :=
  ⟨rfl, roundHalfUp_spec _ _ (Nat.pow_pos (by decide))⟩

/-- The accumulation phases cannot overflow: the mantissa read is below 10^18 < 2^63 (this is
    why only the scaling loop needs wrap-around in the model). -/
theorem coord_accumulate_no_overflow (g : CoordStr) (hw : g.WellFormed) (hl : g.ip.length ≤ 10) :
    valMS (g.ip ++ (fracDigits g).take 8) < 10 ^ 18 := m8_lt g hw hl

/-- The `result == 0` shortcut of the executable model is sound: it computes exactly the loop
    as written in the C++ source. -/
theorem model_shortcut_sound (v : Variant) (k : Nat) (r : Int) (ex : List UInt8) (o : Bool) :
    mulLoop v k r ex o = mulLoopNaive v k r ex o := mulLoop_eq_naive v k r ex o

/-- What the compiled current code computes in general: the product modulo 2^64. -/
theorem coord_scaling_wraps (k : Nat) (r : Int) (o : Bool) (ex : List UInt8) (hk : 0 < k) :
    ∃ o', mulLoop Variant.old k r ex o = some (wrap64 (r * 10 ^ k), o') :=
  mulLoop_current_wrap_pos k r o ex hk

/-! ## timestamps -/

/-- `Timestamp(t.to_iso_all()) == t` for all 2^32 timestamps, whatever follows the 'Z'
    (via `daysFromCivil (civilFromDays z) = z` for ALL day numbers) — the code in the tree. -/
theorem ts_roundtrip (t : Nat) (ht : t < 4294967296) (rest : List UInt8) :
    parseTimestampNow (toIsoAll t ++ rest) = .ok ((t : Int), rest) ∧
    timestampNow (toIsoAll t ++ rest) = .ok t :=
  Osmium.Conv.ts_roundtrip_fixed true true t ht rest

/-- the same for every combination of the two timestamp fixes, in particular the old code -/
theorem ts_roundtrip_all_variants (leapFix rangeFix : Bool) (t : Nat) (ht : t < 4294967296) (rest : List UInt8) :
    parseTimestampV leapFix (toIsoAll t ++ rest) = .ok ((t : Int), rest) ∧
    timestampOfStringV leapFix rangeFix (toIsoAll t ++ rest) = .ok t :=
  Osmium.Conv.ts_roundtrip_fixed leapFix rangeFix t ht rest

theorem ts_days_roundtrip (z : Nat) :
    let (y, m, d) := civilFromDays z
    daysFromCivil y m d = (z : Int) := daysFromCivil_civilFromDays z

/-- `gmtime_r` contract yields a real calendar date for every day number. -/
theorem ts_civil_is_real_date (z : Nat) :
    let (y, m, d) := civilFromDays z
    1 ≤ m ∧ m ≤ 12 ∧ 1 ≤ d ∧ d ≤ daysInMonth y m := civilFromDays_real z

/-- (old code) On a syntactically well-formed timestamp the parser accepted the field ranges
    year ≥ 1900, month 1..12, day 1..mon_lengths[month] (29 for every February), hour ≤ 23,
    minute ≤ 59, second ≤ 60. -/
theorem ts_parse_valid_fields_old (y mo d h mi s : Nat) (hy : y ≤ 9999) (hmo : mo ≤ 99) (hd : d ≤ 99)
    (hh : h ≤ 99) (hmi : mi ≤ 99) (hs : s ≤ 99) (rest : List UInt8) :
    parseTimestamp (fmt4 y ++ [cMinus] ++ fmt2 mo ++ [cMinus] ++ fmt2 d ++ [cT] ++ fmt2 h ++
        [cColon] ++ fmt2 mi ++ [cColon] ++ fmt2 s ++ [cZ] ++ rest)
      = if 1900 ≤ y ∧ 1 ≤ mo ∧ mo ≤ 12 ∧ 1 ≤ d ∧ d ≤ monLengths.getD (mo - 1) 0 ∧ h ≤ 23 ∧
            mi ≤ 59 ∧ s ≤ 60 then .ok (timegm y mo d h mi s, rest) else .error .invalidArgument :=
  Osmium.Conv.ts_parse_valid_fields y mo d h mi s hy hmo hd hh hmi hs rest

/-- The leniency of the old code made explicit: February 29 of a non-leap year passes the
    field check and denotes March 1. -/
theorem ts_feb29_nonleap_is_mar1 (y : Nat) (hy : 1 ≤ y) (hl : isLeap y = false) :
    daysFromCivil y 2 29 = daysFromCivil y 3 1 := daysFromCivil_feb29_nonleap y hy hl

/-- Both timestamp findings, as theorems about the OLD code (`parseTimestamp`,
    `timestampOfString`): "2001-02-29T00:00:00Z" was accepted (and meant March 1), and
    "2106-02-07T06:28:16Z" (= 2^32 s) was accepted and truncated to 0, the invalid timestamp. -/
theorem ts_findings_old :
    timestampOfString [50,48,48,49,45,48,50,45,50,57,84,48,48,58,48,48,58,48,48,90] = .ok 983404800 ∧
    timestampOfString [50,48,48,49,45,48,51,45,48,49,84,48,48,58,48,48,58,48,48,90] = .ok 983404800 ∧
    parseTimestamp [50,49,48,54,45,48,50,45,48,55,84,48,54,58,50,56,58,49,54,90] = .ok (4294967296, []) ∧
    timestampOfString [50,49,48,54,45,48,50,45,48,55,84,48,54,58,50,56,58,49,54,90] = .ok 0 := by
  refine ⟨?_, ?_, ?_, ?_⟩ <;> decide +kernel

/-- ... and what the code in the tree does with them: both rejected. -/
theorem ts_witnesses_now :
    timestampNow [50,48,48,49,45,48,50,45,50,57,84,48,48,58,48,48,58,48,48,90] = .error .invalidArgument ∧
    timestampNow [50,49,48,54,45,48,50,45,48,55,84,48,54,58,50,56,58,49,54,90] = .error .invalidArgument ∧
    timestampNow [50,49,48,54,45,48,50,45,48,55,84,48,54,58,50,56,58,49,53,90] = .ok 4294967295 := by
  refine ⟨?_, ?_, ?_⟩ <;> decide +kernel

/-- On a syntactically well-formed timestamp the parser in the tree accepts exactly the real
    calendar dates from 1900 on (month 1..12, day 1..daysInMonth, Gregorian leap rule), hour ≤ 23,
    minute ≤ 59, second ≤ 60 (leap second), and returns `timegm` of the fields. -/
theorem ts_parse_valid_fields (y mo d h mi s : Nat) (hy : y ≤ 9999) (hmo : mo ≤ 99) (hd : d ≤ 99)
    (hh : h ≤ 99) (hmi : mi ≤ 99) (hs : s ≤ 99) (rest : List UInt8) :
    parseTimestampNow (fmt4 y ++ [cMinus] ++ fmt2 mo ++ [cMinus] ++ fmt2 d ++ [cT] ++ fmt2 h ++
        [cColon] ++ fmt2 mi ++ [cColon] ++ fmt2 s ++ [cZ] ++ rest)
      = if 1900 ≤ y ∧ 1 ≤ mo ∧ mo ≤ 12 ∧ 1 ≤ d ∧ d ≤ daysInMonth y mo ∧ h ≤ 23 ∧ mi ≤ 59 ∧ s ≤ 60
        then .ok (timegm y mo d h mi s, rest) else .error .invalidArgument :=
  Osmium.Conv.ts_parse_fixed_valid_fields y mo d h mi s hy hmo hd hh hmi hs rest

/-- `Timestamp(const char*)` never truncates: accepted ⇒ the stored uint32 IS the parsed time;
    a time outside the 32-bit range is rejected with invalid_argument. -/
theorem ts_string_range (s : List UInt8) (t : Int) (r : List UInt8)
    (h : parseTimestampNow s = .ok (t, r)) :
    timestampNow s = if 0 ≤ t ∧ t ≤ 4294967295 then .ok t.toNat else .error .invalidArgument :=
  Osmium.Conv.ts_string_fixed_range true s t r h

/-- the variants with both flags off are the old code -/
theorem ts_variant_false_is_old (s : List UInt8) :
    parseTimestampV false s = parseTimestamp s ∧ timestampOfStringV false false s = timestampOfString s :=
  ⟨parseTimestampV_false s, timestampOfStringV_false s⟩

/-! ## integers -/

/-- `opl_parse_int<T>` accepts `-?digits+` (any length) exactly when the value is in
    `[min(T), max(T)]`, returns that value and stops behind the digits. -/
theorem opl_int_strict (tmin tmax : Int) (h1 : int64Min ≤ tmin) (h2 : tmin ≤ 0) (h3 : 0 ≤ tmax)
    (h4 : tmax ≤ int64Max) (neg : Bool) (ds : List Nat) (hne : ds ≠ []) (hd : AllDigits ds)
    (rest : List UInt8) (hr : NoDigitHead rest) :
    oplParseInt tmin tmax ((if neg then [cMinus] else []) ++ digitsStr ds ++ rest) =
      (let v : Int := if neg then -(valMS ds : Int) else (valMS ds : Int)
       if tmin ≤ v ∧ v ≤ tmax then .ok (v, rest) else .error .oplError) :=
  IntLemmas.opl_int_strict tmin tmax h1 h2 h3 h4 neg ds hne hd rest hr

theorem opl_int_needs_digit (tmin tmax : Int) (s : List UInt8)
    (h : isDigit (peek (if peek s == cMinus then s.tail else s)) = false) :
    oplParseInt tmin tmax s = .error .oplError := IntLemmas.opl_int_needs_digit tmin tmax s h

/-- the int64 accumulator of `opl_parse_int` never overflows (on any byte string) -/
theorem opl_int_no_overflow (s : List UInt8) (value : Int) (h1 : int64Min ≤ value) (h2 : value ≤ 0) :
    IntLemmas.oplDigitsW value s = oplDigits value s := IntLemmas.oplDigits_eq_wrapped s value h1 h2

/-- `opl_parse_int(output_int(v)) == v` for every int64 except INT64_MIN (whose negation in
    `output_int` is undefined behaviour), and for every uint32 attribute. -/
theorem output_int_roundtrip (v : Int) (hv0 : int64Min < v) (hv1 : v ≤ int64Max)
    (rest : List UInt8) (hr : NoDigitHead rest) :
    ∃ out, outputInt v = some out ∧ oplParseInt int64Min int64Max (out ++ rest) = .ok (v, rest) :=
  IntLemmas.output_int_roundtrip v hv0 hv1 rest hr

theorem output_int_roundtrip_u32 (v : Int) (hv0 : 0 ≤ v) (hv1 : v ≤ 4294967295)
    (rest : List UInt8) (hr : NoDigitHead rest) :
    ∃ out, outputInt v = some out ∧ oplParseInt 0 4294967295 (out ++ rest) = .ok (v, rest) :=
  IntLemmas.output_int_roundtrip_u32 v hv0 hv1 rest hr

/-- `string_to_object_id` on `[+-]?digits+ rest`: accepted iff nothing follows and the value is
    in (INT64_MIN, INT64_MAX] (code as of the upstream fix e1fc4ce: overflow via errno). -/
theorem object_id_strict (sg : Option Bool) (ds : List Nat) (hne : ds ≠ []) (hd : AllDigits ds)
    (rest : List UInt8) (hr : NoDigitHead rest) :
    stringToObjectId (signStr sg ++ digitsStr ds ++ rest) =
      (let v := signed sg (valMS ds)
       if int64Min < v ∧ v ≤ int64Max ∧ peek rest = 0 then .ok v else .error .rangeError) :=
  IntLemmas.object_id_spec sg ds hne hd rest hr

/-- `string_to_ulong` (version, changeset, uid, num_changes, num_comments) on `+?digits+ rest`:
    accepted iff nothing follows and the value is below 2^32 - 1. -/
theorem ulong_strict (sg : Option Bool) (hsg : sg ≠ some true) (ds : List Nat) (hne : ds ≠ [])
    (hd : AllDigits ds) (rest : List UInt8) (hr : NoDigitHead rest) :
    stringToUlong (signStr sg ++ digitsStr ds ++ rest) =
      if valMS ds < 4294967295 ∧ peek rest = 0 then .ok (valMS ds) else .error .rangeError :=
  IntLemmas.ulong_spec sg hsg ds hne hd rest hr

theorem ulong_minus_one : stringToUlong [cMinus, 49] = .ok 0 := IntLemmas.ulong_minus_one

theorem ulong_rejects_minus (s : List UInt8) (h : peek s = cMinus) (h1 : IntLemmas.isMinusOne s = false) :
    stringToUlong s = .error .rangeError := IntLemmas.ulong_minus s h h1

/-- `str_to_int<T>`: the value if it is a clean non-negative number below max(T), else 0. -/
theorem str_to_int_spec (tmax : Int) (sg : Option Bool) (ds : List Nat) (hne : ds ≠ [])
    (hd : AllDigits ds) (rest : List UInt8) (hr : NoDigitHead rest) :
    strToInt tmax (signStr sg ++ digitsStr ds ++ rest) =
      (let v := signed sg (valMS ds)
       if 0 ≤ v ∧ v < tmax ∧ v < int64Max ∧ peek rest = 0 then v else 0) :=
  IntLemmas.str_to_int_gen tmax sg ds hne hd rest hr

/-! ## non-vacuity: the hypotheses are met by concrete, non-trivial inputs -/

-- "12.5" followed by ",": hypotheses of coord_parse_exact_old_partial hold, result 125000000 (old and new code)
example : let g : CoordStr := ⟨false, [1, 2], some [5], none⟩
    g.ip.length ≤ 10 ∧ fracLen g ≤ 27 ∧ expLen g ≤ 5 ∧ (fracLen g ≤ 8 ∨ expVal g ≤ 0) ∧
    specRounded g = 125000000 ∧
    observe (parseCoord Variant.old (g.render ++ [44])) = .ok (125000000, [44]) ∧
    observe (stringToLocationCoordinate (g.render ++ [44])) = .ok (125000000, [44]) := by
  decide +kernel
-- "-1.23456785" rounds half away from zero
example : specRounded ⟨true, [1], some [2, 3, 4, 5, 6, 7, 8, 5], none⟩ = -12345679 := by
  decide +kernel
example : Terminates [] ∧ Terminates [44] ∧ Terminates [32] := by
  refine ⟨⟨rfl, ?_, ?_, ?_⟩, ⟨rfl, ?_, ?_, ?_⟩, ⟨rfl, ?_, ?_, ?_⟩⟩ <;> decide
example : formatCoord (-1800000000) = [45, 49, 56, 48] ∧ formatCoord 1 = [48, 46, 48, 48, 48, 48, 48, 48, 49] := by
  decide +kernel
example : toIsoAll 4294967295 = [50, 49, 48, 54, 45, 48, 50, 45, 48, 55, 84, 48, 54, 58, 50, 56, 58, 49, 53, 90] := by
  decide +kernel
example : oplParseInt 0 4294967295 [52, 50, 57, 52, 57, 54, 55, 50, 57, 54] = .error .oplError := by
  decide +kernel
example : outputInt (-9223372036854775807) = some [45, 57, 50, 50, 51, 51, 55, 50, 48, 51, 54, 56, 53, 52, 55, 55, 53, 56, 48, 55] := by
  decide +kernel

/-! ### source ties (tools/cxx2lean.py): the expression REGENERATED from /repo's C++ source on every run
    (Osmium/Generated/Src.lean) equals the hand-written model function. -/

section SrcTies
open Osmium.Generated Osmium.CxxSem

/-- the initialiser of `leap_year` in `detail::parse_timestamp` (osm/timestamp.hpp) = `isLeapYear`, for every
    year ≥ 0 (the four digits give 0..9999; C++ `%` truncates, which is `Nat` `%` there); never undefined -/
theorem src_tie_leap_year (y : Nat) :
    Src.Timestamp.parse_timestamp_leap_year (y : Int) = isLeapYear y ∧
    Src.Timestamp.parse_timestamp_leap_year_defined (y : Int) = true := by
  constructor
  · dsimp only [isLeapYear, Src.Timestamp.parse_timestamp_leap_year]
    rw [Bool.eq_iff_iff]
    simp [Int.tmod]
    omega
  · simp [Src.Timestamp.parse_timestamp_leap_year_defined, sdivOk]

/-! #### `detail::string_to_location_coordinate(const char**)` (osm/location.hpp), TRANSLATED from the source on every
     run (character-cursor subset of tools/cxx2lean.py: the byte array `buf`, the cursor cell `*data` as the state of the
     `Outcome`), against the model `parseCoord Variant.now` that every coordinate theorem above is about.  The proof
     goes through the translator's loops and join points (Lemmas/SrcTieCoord.lean, SrcTieCoord2.lean: `src_tie_coord_*`). -/

/-- For EVERY byte string `s` — no assumption on its content; it is NUL-terminated inside the array `s ++ 0 :: t` —,
    every start position `i` in it and any fuel ≥ 100010 (the scaling loop runs at most 8 + 99999 times): the translated
    function returns exactly what the model returns on the suffix `s.drop i`: the same value and the same end position
    (`*data` afterwards = the index of the model's `rest`), or `osmium::invalid_location` with `*data` left alone. -/
theorem src_tie_string_to_location_coordinate (s t : List UInt8) (i fuel : Nat) (hi : i ≤ s.length) (hfuel : 100010 ≤ fuel) :
    Src.Location.string_to_location_coordinate fuel (s ++ 0 :: t) (i : Int) =
      (match parseCoord Variant.now (s.drop i) with
       | .ok out => .normal ((s.length - out.rest.length : Nat) : Int) out.value
       | .error _ => .thrown "osmium::invalid_location" (i : Int)) ∧
    (∀ out, parseCoord Variant.now (s.drop i) = .ok out → ∃ j, j ≤ s.length ∧ out.rest = s.drop j) := by
  obtain ⟨h1, -, h3⟩ := SrcTie.Coord.src_tie_coord_main s t i fuel hi hfuel
  refine ⟨?_, fun out h => (h3 out h).2⟩
  rw [h1]
  cases parseCoord Variant.now (s.drop i) <;> rfl

/-- C03 clause "the coordinate parser never reads past the NUL", now about the TRANSLATED code: on every NUL-terminated
    input the execution has no undefined behaviour — every `*str` / `*(str + 1)` / `*extra++` reads inside the array,
    every pointer that is formed stays within it (one past the end included), the string handed to the exception
    message is NUL-terminated, and no signed arithmetic overflows (`result * 10 + digit`, `scale += eresult * esign`,
    `(result + 5) / 10 * sign`); correspondingly the model never records an overflow (`ovf = false`). -/
theorem src_tie_coord_reads_in_bounds (s t : List UInt8) (i fuel : Nat) (hi : i ≤ s.length) (hfuel : 100010 ≤ fuel) :
    Src.Location.string_to_location_coordinate_defined fuel (s ++ 0 :: t) (i : Int) = true ∧
    (∀ out, parseCoord Variant.now (s.drop i) = .ok out → out.ovf = false) := by
  obtain ⟨-, h2, h3⟩ := SrcTie.Coord.src_tie_coord_main s t i fuel hi hfuel
  exact ⟨h2, fun out h => (h3 out h).1⟩

-- the translated function runs: "-1.5e1," from index 0 is -15.0000000 and stops at the comma; "1e" is rejected
example : Src.Location.string_to_location_coordinate 100010 ([45, 49, 46, 53, 101, 49, 44] ++ 0 :: []) 0 = .normal 6 (-150000000) := by
  decide +kernel
example : Src.Location.string_to_location_coordinate 100010 ([49, 101] ++ 0 :: []) 0 = .thrown "osmium::invalid_location" 0 := by
  decide +kernel

/-! #### `io::detail::opl_parse_int<T>(const char**)` (io/detail/opl_parser_functions.hpp), both instantiations the OPL
     reader uses (`int64_t`: object ids; `uint32_t`: versions, changeset ids, uids), TRANSLATED from the source on every
     run, against the model `oplParseInt tmin tmax` of `opl_int_strict` / `opl_int_needs_digit` / `opl_int_no_overflow`
     (Lemmas/SrcTieOpl.lean: `src_tie_opl_parse_int_ppc_*`). -/

/-- the outcome of the translated `opl_parse_int<T>` that corresponds to a model result: same value, `*s` afterwards =
    the index of the model's rest; where the model fails, `osmium::opl_error` is thrown with `*s` somewhere in the string -/
def OplIntTie (s : List UInt8) (i : Nat) (m : Except Err (Int × List UInt8)) (o : CxxSem.Outcome Int Int) : Prop :=
  match m with
  | .ok (v, rest) => ∃ j, i ≤ j ∧ j ≤ s.length ∧ rest = s.drop j ∧ o = .normal (j : Int) v
  | .error _ => ∃ j, i ≤ j ∧ j ≤ s.length ∧ o = .thrown "osmium::opl_error" (j : Int)

/-- `opl_parse_int<int64_t>` = `oplParseInt INT64_MIN INT64_MAX`, for EVERY byte string (NUL-terminated in the array
    `s ++ 0 :: t`), every start position and any fuel > the number of characters left + 1 (the digit loop consumes one
    character per iteration: "000…0" of any length is accepted) -/
theorem src_tie_opl_parse_int_i64 (s t : List UInt8) (i fuel : Nat) (hi : i ≤ s.length) (hf : s.length - i + 2 ≤ fuel) :
    OplIntTie s i (oplParseInt int64Min int64Max (s.drop i)) (Src.OplParserFunctions.opl_parse_int_ppc_ri64 fuel (s ++ 0 :: t) i) :=
  (SrcTie.Opl.src_tie_opl_parse_int_ppc_ri64_main s t i fuel hi hf).1

/-- `opl_parse_int<uint32_t>` = `oplParseInt 0 UINT32_MAX` (a negative number other than "-0" is "integer too long") -/
theorem src_tie_opl_parse_int_u32 (s t : List UInt8) (i fuel : Nat) (hi : i ≤ s.length) (hf : s.length - i + 2 ≤ fuel) :
    OplIntTie s i (oplParseInt 0 4294967295 (s.drop i)) (Src.OplParserFunctions.opl_parse_int_ppc_ru32 fuel (s ++ 0 :: t) i) :=
  (SrcTie.Opl.src_tie_opl_parse_int_ppc_ru32_main s t i fuel hi hf).1

/-- C03 clause for the integer parser, about the TRANSLATED code: no read outside the NUL-terminated array, no pointer
    outside it, and the negatively accumulated `int64_t value` never overflows (`value *= 10; value -= digit;` run only
    behind the `-922337203685477580` guard; `value = -value` only for `value ≠ INT64_MIN`) -/
theorem src_tie_opl_parse_int_reads_in_bounds (s t : List UInt8) (i fuel : Nat) (hi : i ≤ s.length) (hf : s.length - i + 2 ≤ fuel) :
    Src.OplParserFunctions.opl_parse_int_ppc_ri64_defined fuel (s ++ 0 :: t) i = true ∧
    Src.OplParserFunctions.opl_parse_int_ppc_ru32_defined fuel (s ++ 0 :: t) i = true :=
  ⟨(SrcTie.Opl.src_tie_opl_parse_int_ppc_ri64_main s t i fuel hi hf).2,
   (SrcTie.Opl.src_tie_opl_parse_int_ppc_ru32_main s t i fuel hi hf).2⟩

-- the translated parser runs: "-42," → -42, stops at the comma; "4294967296" does not fit a uint32_t
example : Src.OplParserFunctions.opl_parse_int_ppc_ri64 10 ([45, 52, 50, 44] ++ 0 :: []) 0 = .normal 3 (-42) := by decide +kernel
example : Src.OplParserFunctions.opl_parse_int_ppc_ru32 20 ([52, 50, 57, 52, 57, 54, 55, 50, 57, 54] ++ 0 :: []) 0 =
    .thrown "osmium::opl_error" 10 := by decide +kernel

/-! #### the timestamp parser (osm/timestamp.hpp): `detail::fractional_seconds(const char**)` as a whole, and the digit
     arithmetic of `detail::parse_timestamp` (the right-hand sides of the assignments to the six `std::tm` fields;
     `std::tm` / `timegm` and the big `&&` condition with its effectful call are outside the translated subset) -/

/-- `fractional_seconds` (noexcept) = `fractionalSeconds`: same flag, `*s` left at the model's rest (i.e. unchanged
    when there are no fractional seconds), for EVERY NUL-terminated byte string and start position; no undefined
    behaviour (the `do { ++str; } while (digit)` loop stops at the NUL) -/
theorem src_tie_fractional_seconds (s t : List UInt8) (i fuel : Nat) (hi : i ≤ s.length) (hf : s.length - i + 2 ≤ fuel) :
    ∃ j, i ≤ j ∧ j ≤ s.length ∧ (fractionalSeconds (s.drop i)).2 = s.drop j ∧
      Src.Timestamp.fractional_seconds fuel (s ++ 0 :: t) i = .normal (j : Int) (fractionalSeconds (s.drop i)).1 ∧
      Src.Timestamp.fractional_seconds_defined fuel (s ++ 0 :: t) i = true :=
  SrcTie.Ts.src_tie_fractional_seconds_main s t i fuel hi hf

/-- the field formulas of `parse_timestamp` on a cursor in front of "yyyy-mm-ddThh:mm:ss" (any separators: the
    formulas do not look at them) = the model's `year - 1900`, `mon - 1`, `mday`, `hour`, `min`, `sec`
    (`parseTimestamp`, Model/Conv.lean); none of the `int` computations overflows, every read is in bounds -/
theorem src_tie_parse_timestamp_fields (s t : List UInt8) (i : Nat)
    (y0 y1 y2 y3 c4 m0 m1 c7 d0 d1 c10 h0 h1 c13 i0 i1 c16 s0 s1 : UInt8) (rest : List UInt8)
    (hdrop : s.drop i = y0 :: y1 :: y2 :: y3 :: c4 :: m0 :: m1 :: c7 :: d0 :: d1 :: c10 :: h0 :: h1 :: c13 :: i0 :: i1 :: c16 :: s0 :: s1 :: rest)
    (hd : isDigit y0 ∧ isDigit y1 ∧ isDigit y2 ∧ isDigit y3 ∧ isDigit m0 ∧ isDigit m1 ∧ isDigit d0 ∧ isDigit d1 ∧
          isDigit h0 ∧ isDigit h1 ∧ isDigit i0 ∧ isDigit i1 ∧ isDigit s0 ∧ isDigit s1) :
    Src.Timestamp.parse_timestamp_year (s ++ 0 :: t) i = ((digitVal y0 * 1000 + digitVal y1 * 100 + digitVal y2 * 10 + digitVal y3 : Nat) : Int) - 1900 ∧
    Src.Timestamp.parse_timestamp_mon (s ++ 0 :: t) i = ((digitVal m0 * 10 + digitVal m1 : Nat) : Int) - 1 ∧
    Src.Timestamp.parse_timestamp_mday (s ++ 0 :: t) i = ((digitVal d0 * 10 + digitVal d1 : Nat) : Int) ∧
    Src.Timestamp.parse_timestamp_hour (s ++ 0 :: t) i = ((digitVal h0 * 10 + digitVal h1 : Nat) : Int) ∧
    Src.Timestamp.parse_timestamp_min (s ++ 0 :: t) i = ((digitVal i0 * 10 + digitVal i1 : Nat) : Int) ∧
    Src.Timestamp.parse_timestamp_sec (s ++ 0 :: t) i = ((digitVal s0 * 10 + digitVal s1 : Nat) : Int) ∧
    (Src.Timestamp.parse_timestamp_year_defined (s ++ 0 :: t) i && Src.Timestamp.parse_timestamp_mon_defined (s ++ 0 :: t) i &&
     Src.Timestamp.parse_timestamp_mday_defined (s ++ 0 :: t) i && Src.Timestamp.parse_timestamp_hour_defined (s ++ 0 :: t) i &&
     Src.Timestamp.parse_timestamp_min_defined (s ++ 0 :: t) i && Src.Timestamp.parse_timestamp_sec_defined (s ++ 0 :: t) i) = true := by
  have hlen : i + 19 ≤ s.length := by
    have := congrArg List.length hdrop
    simp only [List.length_drop, List.length_cons] at this
    omega
  have hc : ∀ k, SrcTie.Ts.chr s i k = peek ((s.drop i).drop k) := by
    intro k; unfold SrcTie.Ts.chr; rw [List.drop_drop]
  obtain ⟨a0, a1, a2, a3, a5, a6, a8, a9, a11, a12, a14, a15, a17, a18⟩ := hd
  have h := SrcTie.Ts.src_tie_parse_timestamp_fields s t i hlen (by
    intro k hk
    rw [hc k, hdrop]
    simp only [List.mem_cons, List.not_mem_nil, or_false] at hk
    rcases hk with rfl | rfl | rfl | rfl | rfl | rfl | rfl | rfl | rfl | rfl | rfl | rfl | rfl | rfl <;> simpa [peek])
  simp only [hc, hdrop] at h
  simp only [List.drop_succ_cons, List.drop_zero, peek] at h
  obtain ⟨e1, e2, e3, e4, e5, e6, f1, f2, f3, f4, f5, f6⟩ := h
  refine ⟨by rw [e1]; push_cast; rfl, by rw [e2]; push_cast; rfl, by rw [e3]; push_cast; rfl, by rw [e4]; push_cast; rfl,
    by rw [e5]; push_cast; rfl, by rw [e6]; push_cast; rfl, by simp [f1, f2, f3, f4, f5, f6]⟩

/-- The 37 leading conjuncts of the big condition of `parse_timestamp` (everything before
    `str[19] == 'Z' || fractional_seconds(s)`), for EVERY NUL-terminated byte string and start position: their value is
    the model's 19-character test (`tsPattern` = the pattern + `isDigit` chain of `parseTimestamp`: when it fails,
    `parseTimestamp` is `invalid_argument`), and the left-to-right `&&` chain reads nothing behind the NUL — a string
    shorter than 19 characters fails AT its NUL. -/
theorem src_tie_parse_timestamp_pattern (s t : List UInt8) (i : Nat) (hi : i ≤ s.length) :
    Src.Timestamp.parse_timestamp_cond_pattern (s ++ 0 :: t) i = SrcTie.Ts.tsPattern (s.drop i) ∧
    Src.Timestamp.parse_timestamp_cond_pattern_defined (s ++ 0 :: t) i = true ∧
    (SrcTie.Ts.tsPattern (s.drop i) = false → parseTimestamp (s.drop i) = .error .invalidArgument) :=
  ⟨(SrcTie.Ts.src_tie_parse_timestamp_pattern_main s t i hi).1, (SrcTie.Ts.src_tie_parse_timestamp_pattern_main s t i hi).2,
   SrcTie.Ts.parseTimestamp_of_not_pattern _⟩

/-! #### the integer attribute parsers (osm/types_from_string.hpp): `detail::string_to_ulong` and `string_to_object_id` call
     `strtoul` / `strtoll` / `isspace` and read `errno` / `char* end` (external: outside the translated subset, modelled by the
     libc contracts `strtoul`, `strtoll`, `strtollErange` of Model/Conv.lean and checked against the real libc by the
     correspondence streams).  What IS translated: every conjunct in front of the last one of their conditions.  The model
     functions `stringToUlong` / `stringToObjectId` take the string and NOTHING else — no errno, no earlier call —: "the result
     is determined by the string" holds for the model by construction, for the implementation it is checked along call
     sequences with a preset errno (stream `call-sequences` of tools/props/c13.py), and a new conjunct in front of the
     acceptance test of `string_to_ulong` (such as `errno != ERANGE &&` without a preceding `errno = 0`, seed C13-8) changes the
     generated `string_to_ulong_cond_range` (or is refused by the translator) and breaks the ties below. -/

/-- the range conjunct of the acceptance test of `string_to_ulong` (`value < std::numeric_limits<uint32_t>::max()`, everything
    in front of `*end == '\0'`) = the model's `value < 4294967295`, for every `unsigned long` value: it depends on the
    value `strtoul` returned and on nothing else -/
theorem src_tie_string_to_ulong_cond_range (value : Nat) :
    Src.TypesFromString.string_to_ulong_cond_range (value : Int) = decide (value < 4294967295) ∧
    Src.TypesFromString.string_to_ulong_cond_range_defined (value : Int) = true := by
  constructor
  · unfold Src.TypesFromString.string_to_ulong_cond_range
    rw [Bool.eq_iff_iff]
    simp only [CxxSem.lt_iff, decide_eq_true_eq]
    omega
  · rfl

/-- the first test of `string_to_ulong` without its `isspace` conjunct (`*input != '\0' && *input != '-'`) = the model's test,
    for every NUL-terminated string; no read outside the array -/
theorem src_tie_string_to_ulong_cond_start (s t : List UInt8) (i : Nat) (hi : i ≤ s.length) :
    Src.TypesFromString.string_to_ulong_cond_start (s ++ 0 :: t) (i : Int) = (peek (s.drop i) != 0 && peek (s.drop i) != cMinus) ∧
    Src.TypesFromString.string_to_ulong_cond_start_defined (s ++ 0 :: t) (i : Int) = true := by
  have hrd := Cursor.rdS_cbuf s t i hi
  have hin := Cursor.inB_cbuf s t i hi
  have hsc := Cursor.sc_cases (peek (s.drop i))
  have e45 : cMinus.toNat = 45 := rfl
  constructor
  · unfold Src.TypesFromString.string_to_ulong_cond_start
    simp only [hrd]
    rw [Bool.eq_iff_iff]
    simp only [Bool.and_eq_true, CxxSem.ne_iff, bne, Cursor.beq_char, Bool.not_eq_true', decide_eq_false_iff_not, Cursor.zero_toNat, e45]
    omega
  · unfold Src.TypesFromString.string_to_ulong_cond_start_defined
    simp only [hrd, hin, Bool.or_true, Bool.and_true]

/-- the first test of `string_to_object_id` without its `isspace` conjunct (`*input != '\0'`) = the model's test -/
theorem src_tie_string_to_object_id_cond_start (s t : List UInt8) (i : Nat) (hi : i ≤ s.length) :
    Src.TypesFromString.string_to_object_id_cond_start (s ++ 0 :: t) (i : Int) = (peek (s.drop i) != 0) ∧
    Src.TypesFromString.string_to_object_id_cond_start_defined (s ++ 0 :: t) (i : Int) = true := by
  have hrd := Cursor.rdS_cbuf s t i hi
  have hin := Cursor.inB_cbuf s t i hi
  have hsc := Cursor.sc_cases (peek (s.drop i))
  constructor
  · unfold Src.TypesFromString.string_to_object_id_cond_start
    simp only [hrd]
    rw [Bool.eq_iff_iff]
    simp only [CxxSem.ne_iff, bne, Cursor.beq_char, Bool.not_eq_true', decide_eq_false_iff_not, Cursor.zero_toNat]
    omega
  · unfold Src.TypesFromString.string_to_object_id_cond_start_defined
    exact hin

/-- `string_to_ulong` (the model) is the composition of the TRANSLATED conditions, the `isspace` test, the "-1" special case and
    the contract of `strtoul` — a function of the string alone: the acceptance decision is `cond_range (strtoul s).value &&
    *end == '\0'` with nothing in front of it -/
theorem src_tie_string_to_ulong_accept (s t : List UInt8) :
    stringToUlong s =
      if (match s with | a :: b :: r => a == cMinus && b == 49 && peek r == 0 | _ => false) then .ok 0
      else if Src.TypesFromString.string_to_ulong_cond_start (s ++ 0 :: t) 0 && !isSpace (peek s) then
        if Src.TypesFromString.string_to_ulong_cond_range ((strtoul s).1 : Int) && peek (strtoul s).2 == 0 then .ok (strtoul s).1
        else .error .rangeError
      else .error .rangeError := by
  have h1 := (src_tie_string_to_ulong_cond_start s t 0 (Nat.zero_le _)).1
  have h2 := (src_tie_string_to_ulong_cond_range (strtoul s).1).1
  have e0 : ((0 : Nat) : Int) = 0 := rfl
  simp only [List.drop_zero, e0] at h1
  rw [h1, h2]
  unfold stringToUlong
  rfl

end SrcTies

end Osmium.Conv.C13
