/-
C01, PBF part: write → read round trip of libosmium's PBF writer and decoder (models in
Osmium/Model/Pbf.lean, Delta.lean, StringTable.lean; tie to the code: tools/props/c01_pbf.py).

Domain (property text): ids in (−2^63, 2^63), version and uid < 2^31, any uint32 timestamp, changeset
< 2^32 − 1 (the value 2^32 − 1 is refused by the reader: `pbf_changeset_uint32_max_rejected`), strings
without NUL.

What is proved here is the layer the block/file round trip is built from: delta coding, string-table
resolution, packed arrays, the Info message for every option vector, plus the refutation of the
size-accounting lemma the 32 MiB limit would need (DESIGN.md F12).  The per-kind (node/way/relation/dense),
block and file compositions are NOT proved in Lean (see the comment at the end); they are covered by the
byte-exact and cross correspondence of tools/props/c01_pbf.py only.
-/
import Osmium.Lemmas.Pbf

namespace Osmium.Pbf

open Osmium.Wire Osmium.PbfMsg Osmium.Osm
open Osmium.StringTable (Table lookup)

/-! ## delta coding -/

/-- `DeltaDecode<int64>` undoes `DeltaEncode<int64,int64>` (ids, refs, member ids, coordinates) on every
    list of int64 values, wrap-around included -/
theorem delta_roundtrip (xs : List Int) (h : ∀ x ∈ xs, -(2:Int)^63 ≤ x ∧ x < (2:Int)^63) :
    Delta.dec (Delta.enc 64 xs) = xs := Delta.dec_enc64 xs h

example : Delta.dec (Delta.enc 64 [9223372036854775807, -9223372036854775807, 0, 5]) = [9223372036854775807, -9223372036854775807, 0, 5] := by
  decide

/-- the 32-bit instances of DenseNodes (`uid`: `<uint32,int32>`, `user_sid`: `<int32,int32>`) decoded by
    the reader's `DeltaDecode<int64>`: exact for values below 2^31 (uid domain; string ids) -/
theorem delta_roundtrip_32 (xs : List Int) (h : ∀ x ∈ xs, (0:Int) ≤ x ∧ x < (2:Int)^31) :
    Delta.dec (Delta.enc 32 xs) = xs := Delta.dec_enc32 xs h

example : Delta.dec (Delta.enc 32 [2147483647, 0, 2147483647, 1]) = [2147483647, 0, 2147483647, 1] := by decide

/-- timestamps / changesets of DenseNodes: uint32 values through the `<uint32,int64>` encoder -/
theorem delta_roundtrip_uint32 (xs : List Nat) (h : ∀ x ∈ xs, x < 2 ^ 32) :
    Delta.dec (Delta.enc 64 (xs.map Int.ofNat)) = xs.map Int.ofNat := by
  apply Delta.dec_enc64
  intro x hx
  obtain ⟨n, hn, rfl⟩ := List.mem_map.mp hx
  have := h n hn
  simp only [Nat.reducePow, Int.reducePow, Int.ofNat_eq_natCast] at *
  omega

/-! ## string table -/

/-- the index returned by `StringTable::add` resolves (`m_stringtable.at(idx)`) to the added string -/
theorem stringtable_resolve (t : Table) (s : StringTable.Bytes) :
    lookup (t.add s).2.strings ((t.add s).1 : Nat) = some s := by
  unfold lookup
  have : ¬ (((t.add s).1 : Nat) : Int) < 0 := by omega
  simp only [this, ↓reduceIte, Int.toNat_natCast]
  exact StringTable.add_lookup t s

/-- … and keeps resolving to it whatever is added to the block afterwards -/
theorem stringtable_resolve_stable (t : Table) (s : StringTable.Bytes) (later : List StringTable.Bytes) :
    ((t.add s).2.addAll later).2.strings[(t.add s).1]? = some s :=
  StringTable.addAll_mono later _ _ _ (StringTable.add_lookup t s)

/-- all indices of one `for (tag : tags) add(...)` loop -/
theorem stringtable_resolve_all (t : Table) (ss : List StringTable.Bytes) :
    (t.addAll ss).1.map (fun i => (t.addAll ss).2.strings[i]?) = ss.map some :=
  StringTable.addAll_lookup ss t

/-- the empty string is NOT index 0 for the writer: the first `add("")` creates entry 1 -/
example : (({} : Table).add []).1 = 1 ∧ (({} : Table).add []).2.strings = [[], []] := by decide

/-! ## packed arrays -/

theorem packed_roundtrip (vs : List Nat) (h : ∀ v ∈ vs, v < 2 ^ 64) : unpack (pack vs) = some vs :=
  unpack_pack vs h

/-! ## the Info message, every option vector -/

/-- value domain of the property for the metadata of one object (PBF) -/
def MetaInDomain (m : Meta) : Prop :=
  m.version < 2 ^ 31 ∧ m.uid < 2 ^ 31 ∧ m.timestamp < 2 ^ 32 ∧ m.changeset < 2 ^ 32 - 1

instance (m : Meta) : Decidable (MetaInDomain m) := by unfold MetaInDomain; infer_instance

example : MetaInDomain { id := 1, version := 2147483647, uid := 2147483647, timestamp := 4294967295, changeset := 4294967294 } := by
  decide

/-- what `decode_info` leaves in the object for what `add_meta` wrote -/
def projectInfo (o : Opts) (m : Meta) : InfoAcc :=
  { version := if o.mdVersion then m.version else 0,
    timestamp := if o.mdTimestamp then m.timestamp else 0,
    changeset := if o.mdChangeset then m.changeset else 0,
    uid := if o.mdUid then m.uid else 0,
    visible := if o.history then m.visible else true }

/-- `decode_info` over the fields `add_meta` emits gives back exactly the selected metadata, for ALL
    option vectors and all in-domain metadata (seconds resolution = default date_granularity) -/
theorem pbf_info_fields_roundtrip (o : Opts) (p : Params) (m : Meta) (u : Nat)
    (hd : MetaInDomain m) (hp : p.dateFactor = 1000)
    (hu : o.mdUser = true → u < 2 ^ 32 ∧ lookup p.strings (u : Nat) = some m.user) :
    decodeMsg (infoStep p) ({}, []) (encInfo o m u) =
      some (projectInfo o m, if o.mdUser then m.user else []) := by
  obtain ⟨hv, hui, hts, hcs⟩ := hd
  have e1 := int32_field m.version hv
  have e2 := int32_field m.uid hui
  have e3 := int64_field m.timestamp hts
  have e4 := int64_field m.changeset (by simp only [Nat.reducePow] at *; omega)
  have e5 := convTimestamp_default m.timestamp hts
  have e6 := changesetOf_nat m.changeset hcs
  have e7 := versionOf_nat m.version
  have e8 := uidOf_nat m.uid
  obtain ⟨d, mv, mt, mc, mu, mus, hist, low⟩ := o
  simp only at hu
  cases mus with
  | false =>
    cases mv <;> cases mt <;> cases mc <;> cases mu <;> cases hist <;> cases hvis : m.visible <;>
      simp [encInfo, decodeMsg, infoStep, fVarint, projectInfo, e1, e2, e3, e4, e5, e6, e7, e8, hp, hvis]
  | true =>
    obtain ⟨hu1, hu2⟩ := hu rfl
    have hm : u % 4294967296 = u := Nat.mod_eq_of_lt (by simpa using hu1)
    cases mv <;> cases mt <;> cases mc <;> cases mu <;> cases hist <;> cases hvis : m.visible <;>
      simp [encInfo, decodeMsg, infoStep, fVarint, projectInfo, e1, e2, e3, e4, e5, e6, e7, e8, hp, hvis, hm, hu2]

/-- non-vacuity: an option vector with everything on, metadata at the upper boundaries -/
example : decodeMsg (infoStep { strings := [[], [0x61]] }) ({}, [])
    (encInfo { history := true } { id := 1, version := 2147483647, uid := 2147483647, timestamp := 4294967295,
                                   changeset := 4294967294, user := [0x61], visible := false } 1)
    = some ({ version := 2147483647, timestamp := 4294967295, changeset := 4294967294, uid := 2147483647, visible := false }, [0x61]) := by
  decide

/-- every field `add_meta` puts into Info is a well-formed protobuf field … -/
theorem encInfo_wf (o : Opts) (m : Meta) (u : Nat) : ∀ f ∈ encInfo o m u, f.WF := by
  intro f hf
  have h64 := u64_lt
  have hu : u % 2 ^ 32 < 2 ^ 64 := by
    have : u % 2 ^ 32 < 2 ^ 32 := Nat.mod_lt _ (by decide)
    simp only [Nat.reducePow] at *; omega
  obtain ⟨d, mv, mt, mc, mu, mus, hist, low⟩ := o
  simp only [encInfo, List.mem_append] at hf
  rcases hf with ((((hf | hf) | hf) | hf) | hf) | hf <;>
    (split at hf <;> simp at hf <;> subst hf <;> simp [Field.WF, fVarint, h64] <;> first | exact hu | (split <;> decide) | skip)

/-- … so the bytes of the Info submessage decode (`decode_info(data, object)`) to the same result -/
theorem pbf_info_roundtrip (o : Opts) (p : Params) (m : Meta) (u : Nat)
    (hd : MetaInDomain m) (hp : p.dateFactor = 1000)
    (hu : o.mdUser = true → u < 2 ^ 32 ∧ lookup p.strings (u : Nat) = some m.user) :
    decodeInfo p {} (encodeFields (encInfo o m u)) = some (projectInfo o m, if o.mdUser then m.user else []) := by
  unfold decodeInfo
  rw [readFields_encodeFields _ (encInfo_wf o m u)]
  exact pbf_info_fields_roundtrip o p m u hd hp hu

/-! ## a value of the stated domain that does NOT round-trip -/

/-- changeset id 2^32 − 1 ("any uint32 changeset"): the writer emits it (`add_int64`), `decode_info`
    throws "object changeset_id must be between 0 and 2^32-1" (`>=` instead of `>` in pbf_decoder.hpp:279;
    the dense branch :699 has the same test).  Reproduced on the real code by the monitor
    `pbf-changeset-uint32max` of tools/props/c01_pbf.py. -/
theorem pbf_changeset_uint32_max_rejected (p : Params) (s : InfoAcc × Bytes) :
    infoStep p s (fVarint 3 (u64 (4294967295 : Int))) = none := by
  have : changesetOf (toInt64 (u64 (4294967295 : Int))) = none := by decide
  simp [infoStep, fVarint, this]

/-! ## block limits (DESIGN.md F12) -/

/-- The clause of the property: every block the writer closes is within the format limits. -/
def pbf_block_within_limits : Prop :=
  ∀ (o : Opts) (objs : List Object) (b : Block),
    (objs.foldl (WState.write o) {}).cur = some b →
      b.count ≤ maxEntitiesPerBlock ∧ (b.message o).length ≤ PbfFraming.maxUncompressedBlobSize

/-- The only thing that could guarantee the size limit is `can_add`, which compares `size()` with 95 % of
    32 MiB; a proof needs `size()` to bound the serialized block up to the 5 % reserve: -/
def pbf_size_estimate_sound : Prop :=
  ∀ (o : Opts) (b : Block),
    (b.message o).length ≤ b.size + (PbfFraming.maxUncompressedBlobSize - maxUsedBlobSize)

theorem encodeFields_length_ge (f : Field) (fs : List Field) (h : f ∈ fs) (hw : f.wt = .lengthDelimited) :
    f.payload.length ≤ (encodeFields fs).length := by
  induction fs with
  | nil => simp at h
  | cons g gs ih =>
    simp only [encodeFields, List.flatMap_cons, List.length_append]
    rcases List.mem_cons.mp h with rfl | h'
    · have : f.payload.length ≤ (encodeField f).length := by
        unfold encodeField; simp [hw]; omega
      omega
    · have := ih h'
      simp only [encodeFields] at this
      omega

theorem stringtable_bytes_le (ss : List Bytes) :
    (ss.map List.length).sum ≤ (encodeFields (ss.map (fBytes 1))).length := by
  induction ss with
  | nil => simp
  | cons s ss ih =>
    simp only [List.map_cons, List.sum_cons, encodeFields, List.flatMap_cons, List.length_append] at *
    have : s.length ≤ (encodeField (fBytes 1 s)).length := by
      unfold encodeField fBytes; simp; omega
    omega

theorem message_ge_strings (o : Opts) (b : Block) :
    (b.table.added.map List.length).sum ≤ (b.message o).length := by
  have h1 := stringtable_bytes_le b.table.strings
  have h2 := encodeFields_length_ge (fBytes 1 (encodeFields (b.table.strings.map (fBytes 1))))
      [fBytes 1 (encodeFields (b.table.strings.map (fBytes 1))), fBytes 2 (b.groupData o)] (by simp) rfl
  have h3 : (b.table.strings.map List.length).sum = (b.table.added.map List.length).sum := by
    simp [StringTable.Table.strings]
  simp only [fBytes] at h2
  unfold Block.message
  simp only [fBytes] at *
  omega

theorem sum_len_replicate (n L : Nat) (c : UInt8) :
    ((List.replicate n (List.replicate L c)).map List.length).sum = n * L := by
  induction n with
  | zero => simp
  | succ n ih => simp only [List.replicate_succ, List.map_cons, List.sum_cons, ih, List.length_replicate, Nat.succ_mul]; omega

/-- `size()` counts string-table ENTRIES (string_table.hpp:264), the serialized block contains their
    BYTES: a ways/relations block holding 2000 distinct strings of 1024 bytes (all within the domain:
    ≤ 1024 bytes each, e.g. 400 ways with 5 such tag values; the witness below uses equal strings only to
    keep the term small — `size()` and the byte count depend on the NUMBER and LENGTH of entries) has
    `size()` = group data + 2001 but more than 2 MB of string table — beyond the 5 % reserve.  So the
    accounting lemma is false; with 8000 × 5 such values the block is 40 MB: concrete input
    `big w 8000 5 1000 D1M31H0L0` of harness/pbf.cpp, on which the real Writer reports success and the real
    Reader answers "invalid blob size". -/
theorem not_pbf_size_estimate_sound : ¬ pbf_size_estimate_sound := by
  intro h
  have hb := h {} { kind := 3, table := { added := List.replicate 2000 (List.replicate 1024 0x78) } }
  have h1 := message_ge_strings {} { kind := 3, table := { added := List.replicate 2000 (List.replicate 1024 0x78) } }
  simp only [sum_len_replicate] at h1
  have h4 : Block.size { kind := 3, table := { added := List.replicate 2000 (List.replicate 1024 0x78) } } = 2001 := by
    simp only [Block.size, StringTable.Table.size, List.length_replicate]
    rfl
  have h5 : PbfFraming.maxUncompressedBlobSize - maxUsedBlobSize = 1677722 := by decide
  rw [h4, h5] at hb
  omega

/-- what the accounting does guarantee: the entity count -/
theorem canAdd_count (b : Block) (k : Nat) (h : b.canAdd k = true) : b.count < maxEntitiesPerBlock := by
  unfold Block.canAdd at h
  split at h
  · simp at h
  · split at h
    · simp at h
    · omega

/-- `_partial`: of `pbf_block_within_limits` only the entity-count half holds for the current code, and
    it is proved here for one write step from a state that satisfies it (the induction over the whole
    object sequence is not carried out in Lean — missing: the invariant lemma over `List.foldl`).
    The size half is refuted above (`not_pbf_size_estimate_sound`, F12). -/
theorem pbf_block_within_limits_partial (o : Opts) (s : WState) (obj : Object)
    (hs : ∀ b, s.cur = some b → b.count ≤ maxEntitiesPerBlock) :
    ∀ b, (s.write o obj).cur = some b → b.count ≤ maxEntitiesPerBlock := by
  have key : ∀ k b', (s.switchTo o k).2 = b' → b'.count < maxEntitiesPerBlock := by
    intro k b' hb
    unfold WState.switchTo at hb
    split at hb
    · rename_i b0 _
      split at hb
      · rename_i hc
        simp at hb; subst hb; exact canAdd_count _ _ hc
      · simp at hb; subst hb; simp [maxEntitiesPerBlock]
    · simp at hb; subst hb; simp [maxEntitiesPerBlock]
  intro b hb
  cases obj with
  | node m l =>
    simp only [WState.write] at hb
    split at hb
    · simp at hb; subst hb
      have := key 2 _ rfl
      simp only; omega
    · simp at hb; subst hb
      have := key 1 _ rfl
      simp only [Block.addItem]; omega
  | way m ns =>
    simp only [WState.write] at hb
    simp at hb; subst hb
    have := key 3 _ rfl
    simp only [Block.addItem]; omega
  | relation m ms =>
    simp only [WState.write] at hb
    simp at hb; subst hb
    have := key 4 _ rfl
    simp only [Block.addItem]; omega
  | changeset =>
    simp only [WState.write] at hb
    exact hs b hb

/-! ## header -/

/-- generator and history flag come back (header without bounding boxes; the box clause is NOT a
    theorem: `write_header` converts the corners with double arithmetic and truncates, and the real
    code loses 1e-7° on ≈ 2.4 % of the coordinates — monitor `pbf-header-bbox-rounding`) -/
theorem header_roundtrip_partial (cv : Int → Int) (o : Opts) (h : Header) (hb : h.boxes = []) :
    decodeMsg headerStep {} (encHeader cv o h) = some (projectHeader cv o h) := by
  obtain ⟨d, mv, mt, mc, mu, mus, hist, low⟩ := o
  have f1 : featureOk "OsmSchema-V0.6".toByteArray.toList = some false := by decide +kernel
  have f2 : featureOk "DenseNodes".toByteArray.toList = some false := by decide +kernel
  have f3 : featureOk "HistoricalInformation".toByteArray.toList = some true := by decide +kernel
  cases d <;> cases hist <;> cases low <;>
    simp [encHeader, projectHeader, hb, decodeMsg, headerStep, fBytes, f1, f2, f3]

/-
NOT proved in Lean (covered only by the correspondence of tools/props/c01_pbf.py: byte-exact writer model,
model decoder = real Reader on every produced file, real write → real read = project computed in Python):
  pbf_fields_roundtrip for node / way / relation / dense  (decodeNode p r (encNode o t m l).1 = project …):
      needs `buildTags`/`buildMembers`/`denseLoop` inductions over the index lists returned by `addAll`
      (stringtable_resolve_all + packed_roundtrip + delta_roundtrip + pbf_info_roundtrip are the ingredients);
  pbf_block_roundtrip, pbf_file_roundtrip: need the per-kind lemmas plus the `WState.write` invariant
      "finished blobs ++ current block decode to the projected prefix" and the framing lemma
      (C02Pbf.pbf_framing_any_header_size gives the framing step).
-/

end Osmium.Pbf
