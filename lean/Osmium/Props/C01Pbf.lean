/-
C01, PBF part: write → read round trip of libosmium's PBF writer and decoder (models in
Osmium/Model/Pbf.lean, Delta.lean, StringTable.lean; tie to the code: tools/props/c01_pbf.py).
State of the code: after the fixes 04636d9 (changeset 2^32−1 accepted), 4309424 (exact header bbox),
9b8b2e0 (byte-size estimates, pbf_error above 32 MiB), 77d5451 (the writer also refuses a Blob above 32 MiB).

Domain (property text): ids in (−2^63, 2^63) — here even the whole int64 range —, version and uid < 2^31,
any uint32 timestamp / changeset, locations any int32 pair, member types node/way/relation, strings
without NUL; string tables of at most 2^31 entries (the code throws above 2^25).

Proved: delta coding, string-table resolution, packed arrays, the Info message for every option vector,
the FIELD-LIST round trip of plain nodes, ways and relations for every option vector under every string
table that extends the writer's (`pbf_fields_roundtrip_*`), the header round trip with bounding boxes, the
block-limit clause (`pbf_block_within_limits`: every emitted data blob has ≤ 8000 entities and ≤ 32 MiB, by
induction over the object sequence), the soundness of the size estimate for ALL blocks (dense included), the
DenseNodes round trip (`pbf_fields_roundtrip_dense`: the `while (!ids.empty())` loop over all rows, every
option vector), the bytes level of node / way / relation messages, and the two decoder passes over one
PrimitiveBlock given what its items decode to (`pbf_block_decode_items`), the writer invariant that links
the items / dense rows of the block under construction to the object sequence (Lemmas/PbfFileInv, PbfFileW), hence
the UNCONDITIONAL block round trip (`pbf_block_roundtrip`) and the file round trip (`pbf_file_roundtrip`:
`decodeFile (encodeFile o h objs) = (projectHeader o h, objs.filterMap (project o))` for every option vector and
every object sequence of the domain whenever the Writer reported no error).
-/
import Osmium.Lemmas.PbfObj
import Osmium.Lemmas.PbfBytes
import Osmium.Lemmas.PbfHeader
import Osmium.Lemmas.PbfSize2
import Osmium.Lemmas.PbfDense3
import Osmium.Lemmas.PbfBlock
import Osmium.Lemmas.PbfFile
import Osmium.Generated.Consts
import Osmium.Lemmas.SrcTie

namespace Osmium.Pbf

open Osmium.Wire Osmium.PbfMsg Osmium.Osm
open Osmium.StringTable (Table lookup)

/-! ## delta coding -/

/-- `DeltaDecode<int64>` undoes `DeltaEncode<int64,int64>` (ids, refs, member ids, coordinates) on every
    list of int64 values, wrap-around included -/
theorem delta_roundtrip (xs : List Int) (h : ∀ x ∈ xs, -(2:Int)^63 ≤ x ∧ x < (2:Int)^63) :
    Delta.dec (Delta.enc 64 xs) = xs := Delta.dec_enc64 xs h

example : Delta.dec (Delta.enc 64 [9223372036854775807, -9223372036854775807, 0, 5]) = [9223372036854775807, -9223372036854775807, 0, 5] := by
  decide

/-- the 32-bit instances of DenseNodes (`uid`: `<uint32,int32>`, `user_sid`: `<int32,int32>`) decoded by
    the reader's `DeltaDecode<int64>`: exact for values below 2^31 (uid domain; string ids) -/
theorem delta_roundtrip_32 (xs : List Int) (h : ∀ x ∈ xs, (0:Int) ≤ x ∧ x < (2:Int)^31) :
    Delta.dec (Delta.enc 32 xs) = xs := Delta.dec_enc32 xs h

example : Delta.dec (Delta.enc 32 [2147483647, 0, 2147483647, 1]) = [2147483647, 0, 2147483647, 1] := by decide

/-- timestamps / changesets of DenseNodes: uint32 values through the `<uint32,int64>` encoder -/
theorem delta_roundtrip_uint32 (xs : List Nat) (h : ∀ x ∈ xs, x < 2 ^ 32) :
    Delta.dec (Delta.enc 64 (xs.map Int.ofNat)) = xs.map Int.ofNat := by
  apply Delta.dec_enc64
  intro x hx
  obtain ⟨n, hn, rfl⟩ := List.mem_map.mp hx
  have := h n hn
  simp only [Nat.reducePow, Int.reducePow, Int.ofNat_eq_natCast] at *
  omega

/-! ## string table -/

/-- the index returned by `StringTable::add` resolves (`m_stringtable.at(idx)`) to the added string -/
theorem stringtable_resolve (t : Table) (s : StringTable.Bytes) :
    lookup (t.add s).2.strings ((t.add s).1 : Nat) = some s := by
  unfold lookup
  have : ¬ (((t.add s).1 : Nat) : Int) < 0 := by omega
  simp only [this, ↓reduceIte, Int.toNat_natCast]
  exact StringTable.add_lookup t s

/-- … and keeps resolving to it whatever is added to the block afterwards -/
theorem stringtable_resolve_stable (t : Table) (s : StringTable.Bytes) (later : List StringTable.Bytes) :
    ((t.add s).2.addAll later).2.strings[(t.add s).1]? = some s :=
  StringTable.addAll_mono later _ _ _ (StringTable.add_lookup t s)

/-- all indices of one `for (tag : tags) add(...)` loop -/
theorem stringtable_resolve_all (t : Table) (ss : List StringTable.Bytes) :
    (t.addAll ss).1.map (fun i => (t.addAll ss).2.strings[i]?) = ss.map some :=
  StringTable.addAll_lookup ss t

/-- the empty string is NOT index 0 for the writer: the first `add("")` creates entry 1 -/
example : (({} : Table).add []).1 = 1 ∧ (({} : Table).add []).2.strings = [[], []] := by decide

/-! ## packed arrays -/

theorem packed_roundtrip (vs : List Nat) (h : ∀ v ∈ vs, v < 2 ^ 64) : unpack (pack vs) = some vs :=
  unpack_pack vs h

/-! ## the Info message, every option vector -/

/-- non-vacuity of the metadata domain: the upper boundaries -/
example : MetaInDomain { id := 1, version := 2147483647, uid := 2147483647, timestamp := 4294967295, changeset := 4294967295 } := by
  decide

/-- `decode_info` over the fields `add_meta` emits gives back exactly the selected metadata, for ALL
    option vectors and all in-domain metadata (seconds resolution = default date_granularity) -/
theorem pbf_info_fields_roundtrip (o : Opts) (p : Params) (m : Meta) (u : Nat)
    (hd : MetaInDomain m) (hp : p.dateFactor = 1000)
    (hu : o.mdUser = true → u < 2 ^ 32 ∧ lookup p.strings (u : Nat) = some m.user) :
    decodeMsg (infoStep p) ({}, []) (encInfo o m u) =
      some (projectInfo o m, if o.mdUser then m.user else []) :=
  info_fields_roundtrip o p m u hd hp hu

example : decodeMsg (infoStep { strings := [[], [0x61]] }) ({}, [])
    (encInfo { history := true } { id := 1, version := 2147483647, uid := 2147483647, timestamp := 4294967295,
                                   changeset := 4294967295, user := [0x61], visible := false } 1)
    = some ({ version := 2147483647, timestamp := 4294967295, changeset := 4294967295, uid := 2147483647, visible := false }, [0x61]) := by
  decide

/-- bytes level: `decode_info(data, object)` on the serialized Info submessage -/
theorem pbf_info_roundtrip (o : Opts) (p : Params) (m : Meta) (u : Nat)
    (hd : MetaInDomain m) (hp : p.dateFactor = 1000)
    (hu : o.mdUser = true → u < 2 ^ 32 ∧ lookup p.strings (u : Nat) = some m.user) :
    decodeInfo p {} (encodeFields (encInfo o m u)) = some (projectInfo o m, if o.mdUser then m.user else []) :=
  info_roundtrip o p m u hd hp hu

/-- changeset id 2^32 − 1 ("any uint32 changeset") is accepted since fix 04636d9 (it was rejected before:
    `>=` instead of `>`; regression probe `pbf-changeset-uint32max` in tools/props/c01_pbf.py) -/
theorem pbf_changeset_uint32_max_accepted (p : Params) (s : InfoAcc × Bytes) :
    infoStep p s (fVarint 3 (u64 (4294967295 : Int))) = some ({ s.1 with changeset := 4294967295 }, s.2) := by
  have := changesetOf_uint32_max
  simp [infoStep, fVarint, this]

/-! ## objects: decode (encode opts o) = project opts o, every option vector -/

/-- plain nodes (`pbf_dense_nodes=false`): `decode_node` on the fields of `PBFOutputFormat::node`, under any
    string table `T` that extends the block's table at the time the node was added (the final table does:
    `stringtable_resolve_stable`).  Deleted nodes of a history file come back without location. -/
theorem pbf_fields_roundtrip_node (o : Opts) (t : Table) (m : Meta) (l : Location) (T : List Bytes)
    (hd : MetaInDomain m) (hid : IdOk m.id) (hl : LocOk l)
    (hT : Ext (encNode o t m l).2.strings T) (hsz : (encNode o t m l).2.size ≤ 2 ^ 31) :
    decodeNode { strings := T } {} (encNode o t m l).1 = project o (.node m l) :=
  node_fields_roundtrip o t m l T hd hid hl hT hsz

/-- bytes level for plain nodes: the serialized Node submessage parsed again (`withFields` = protozero over
    the data_view) — messages below 4 GiB, which the 32 MiB block guard implies -/
theorem pbf_bytes_roundtrip_node (o : Opts) (t : Table) (m : Meta) (l : Location) (T : List Bytes)
    (hd : MetaInDomain m) (hid : IdOk m.id) (hl : LocOk l)
    (hT : Ext (encNode o t m l).2.strings T) (hsz : (encNode o t m l).2.size ≤ 2 ^ 31)
    (hlen : (encodeFields (encNode o t m l).1).length < 2 ^ 32) :
    withFields (encodeFields (encNode o t m l).1) (decodeNode { strings := T } {}) = project o (.node m l) :=
  node_bytes_roundtrip o t m l T hd hid hl hT hsz hlen

/-- ways, with and without `locations_on_ways` (undefined locations included) -/
theorem pbf_fields_roundtrip_way (o : Opts) (t : Table) (m : Meta) (ns : List NodeRef) (T : List Bytes)
    (hd : MetaInDomain m) (hid : IdOk m.id) (hn : WayInDomain ns)
    (hT : Ext (encWay o t m ns).2.strings T) (hsz : (encWay o t m ns).2.size ≤ 2 ^ 31) :
    decodeWay { strings := T } {} (encWay o t m ns).1 = project o (.way m ns) :=
  way_fields_roundtrip o t m ns T hd hid hn hT hsz

/-- relations (member types node/way/relation, roles through the string table, delta-coded member ids) -/
theorem pbf_fields_roundtrip_relation (o : Opts) (t : Table) (m : Meta) (ms : List Member) (T : List Bytes)
    (hd : MetaInDomain m) (hid : IdOk m.id) (hm : RelInDomain ms)
    (hT : Ext (encRelation o t m ms).2.strings T) (hsz : (encRelation o t m ms).2.size ≤ 2 ^ 31) :
    decodeRelation { strings := T } {} (encRelation o t m ms).1 = project o (.relation m ms) :=
  relation_fields_roundtrip o t m ms T hd hid hm hT hsz

/-- non-vacuity: a deleted node with two tags in a history file with all metadata, and a way with
    locations, at the id / coordinate boundaries, evaluated through the models -/
example : decodeNode { strings := (encNode { dense := false, history := true } {} { id := -9223372036854775808, version := 1, visible := false, user := [0x75], tags := [⟨[0x6b], []⟩, ⟨[0x6b], [0x76]⟩] } ⟨-2147483648, 2147483647⟩).2.strings } {}
      (encNode { dense := false, history := true } {} { id := -9223372036854775808, version := 1, visible := false, user := [0x75], tags := [⟨[0x6b], []⟩, ⟨[0x6b], [0x76]⟩] } ⟨-2147483648, 2147483647⟩).1
    = project { dense := false, history := true } (.node { id := -9223372036854775808, version := 1, visible := false, user := [0x75], tags := [⟨[0x6b], []⟩, ⟨[0x6b], [0x76]⟩] } ⟨-2147483648, 2147483647⟩) := by
  decide +kernel

example : decodeWay { strings := (encWay { locationsOnWays := true } {} { id := 9223372036854775807, uid := 2147483647 } [⟨1, ⟨1, 2⟩⟩, ⟨-9223372036854775807, Location.undefined⟩]).2.strings } {}
      (encWay { locationsOnWays := true } {} { id := 9223372036854775807, uid := 2147483647 } [⟨1, ⟨1, 2⟩⟩, ⟨-9223372036854775807, Location.undefined⟩]).1
    = project { locationsOnWays := true } (.way { id := 9223372036854775807, uid := 2147483647 } [⟨1, ⟨1, 2⟩⟩, ⟨-9223372036854775807, Location.undefined⟩]) := by
  decide +kernel

/-- bytes level for ways and relations -/
theorem pbf_bytes_roundtrip_way (o : Opts) (t : Table) (m : Meta) (ns : List NodeRef) (T : List Bytes)
    (hd : MetaInDomain m) (hid : IdOk m.id) (hn : WayInDomain ns)
    (hT : Ext (encWay o t m ns).2.strings T) (hsz : (encWay o t m ns).2.size ≤ 2 ^ 31)
    (hlen : (encodeFields (encWay o t m ns).1).length < 2 ^ 32) :
    withFields (encodeFields (encWay o t m ns).1) (decodeWay { strings := T } {}) = project o (.way m ns) :=
  way_bytes_roundtrip o t m ns T hd hid hn hT hsz hlen

theorem pbf_bytes_roundtrip_relation (o : Opts) (t : Table) (m : Meta) (ms : List Member) (T : List Bytes)
    (hd : MetaInDomain m) (hid : IdOk m.id) (hm : RelInDomain ms)
    (hT : Ext (encRelation o t m ms).2.strings T) (hsz : (encRelation o t m ms).2.size ≤ 2 ^ 31)
    (hlen : (encodeFields (encRelation o t m ms).1).length < 2 ^ 32) :
    withFields (encodeFields (encRelation o t m ms).1) (decodeRelation { strings := T } {}) = project o (.relation m ms) :=
  relation_bytes_roundtrip o t m ms T hd hid hm hT hsz hlen

/-! ## DenseNodes -/

/-- `DenseNodes::add_node` produces a row that represents the node for every reader table extending the
    block's table after the add (at most 2^31 entries) … -/
theorem pbf_dense_row_rep (o : Opts) (t : Table) (m : Meta) (l : Location) (T : List Bytes)
    (hT : Ext (denseAdd o t m l).2.strings T) (hsz : (denseAdd o t m l).2.size ≤ 2 ^ 31) :
    RowRep o T (denseAdd o t m l).1 m l :=
  denseAdd_rep o t m l T hT hsz

/-- … and `decode_dense_nodes` on `DenseNodes::serialize()` of rows that represent in-domain nodes returns
    exactly the projected nodes, in order, for EVERY option vector: the loop `while (!ids.empty())` with its
    seven delta decoders, the optional DenseInfo arrays, the visible flag deciding about the location, and
    the 0-terminated keys_vals groups (`RowsRep` = row-wise `RowRep` + value domain). -/
theorem pbf_fields_roundtrip_dense (o : Opts) (T : List Bytes) (r : DenseRow) (rs : List DenseRow)
    (nodes : List (Meta × Location)) (hrep : RowsRep o T (r :: rs) nodes)
    (hlen : (encodeFields (infoF o (r :: rs))).length < 2 ^ 32) :
    decodeDense { strings := T } {} (encDense o (r :: rs)) = some (nodes.map fun n => projNode o n.1 n.2) :=
  dense_fields_roundtrip o T r rs nodes hrep hlen

/-- bytes level of the DenseNodes message (below 4 GiB, implied by the 32 MiB block guard) -/
theorem pbf_bytes_roundtrip_dense (o : Opts) (T : List Bytes) (r : DenseRow) (rs : List DenseRow)
    (nodes : List (Meta × Location)) (hrep : RowsRep o T (r :: rs) nodes)
    (hlen : (encodeFields (encDense o (r :: rs))).length < 2 ^ 32) :
    withFields (encodeFields (encDense o (r :: rs))) (decodeDense { strings := T } {}) =
      some (nodes.map fun n => projNode o n.1 n.2) :=
  dense_bytes_roundtrip o T r rs nodes hrep hlen

/-- non-vacuity: two nodes (one deleted) through `add_node` → `serialize` → `decode_dense_nodes`, history file -/
example :
    let o : Opts := { history := true }
    let a := denseAdd o {} { id := 5, version := 1, user := [0x75], tags := [⟨[0x6b], [0x76]⟩] } ⟨10, 20⟩
    let b := denseAdd o a.2 { id := -9223372036854775807, version := 2, visible := false, uid := 7 } ⟨-30, 40⟩
    decodeDense { strings := b.2.strings } {} (encDense o [a.1, b.1]) =
      some [projNode o { id := 5, version := 1, user := [0x75], tags := [⟨[0x6b], [0x76]⟩] } ⟨10, 20⟩,
            projNode o { id := -9223372036854775807, version := 2, visible := false, uid := 7 } ⟨-30, 40⟩] := by
  decide +kernel

/-! ## one PrimitiveBlock -/

/-- both passes of `PBFPrimitiveBlockDecoder` over the block message "string table, one group of node / way /
    relation items" return the objects the items decode to (`ItemsDec`: item i, parsed with the block's string
    table, gives object i — supplied per item by `pbf_bytes_roundtrip_node/way/relation`).  Ingredient of the
    unconditional `pbf_block_roundtrip` below (the writer invariant provides `ItemsDec`). -/
theorem pbf_block_decode_items (k : Nat) (hk : k = 1 ∨ k = 3 ∨ k = 4) (strs : List Bytes) (pls : List Bytes)
    (obs : List Object) (hs : ∀ s ∈ strs, StrOk s) (hitems : ItemsDec k { strings := strs } pls obs)
    (hpl : ∀ pl ∈ pls, pl.length < 2 ^ 32) :
    decodeBlock {} [fBytes 1 (encodeFields (strs.map (fBytes 1))), fBytes 2 (encodeFields (pls.map (fBytes k)))] = some obs :=
  block_decode k hk strs pls obs hs hitems hpl

/-! ## block limits (DESIGN.md F12, fixed in 9b8b2e0) -/

/-- The clause of the property: every data blob of a file the Writer produced without reporting an error
    stems from a block with at most 8000 entities whose serialized PrimitiveBlock is at most 32 MiB.
    (`encodeFile … = some _` = no error; the blobs of the file are `s.out`.) -/
theorem pbf_block_within_limits (o : Opts) (objs : List Object) :
    ∀ f ∈ ((objs.foldl (WState.write o) {}).store o).out, ∃ b : Block,
      frameBlob PbfFraming.osmData (b.message o) = some f ∧
      b.count ≤ maxEntitiesPerBlock ∧ (b.message o).length ≤ PbfFraming.maxUncompressedBlobSize :=
  (store_inv o _ (foldl_write_inv o objs {} (init_inv o))).2

/-- … and the block under construction never holds more than 8000 entities either -/
theorem pbf_block_count_le (o : Opts) (objs : List Object) (b : Block)
    (h : (objs.foldl (WState.write o) {}).cur = some b) : b.count ≤ maxEntitiesPerBlock :=
  (foldl_write_inv o objs {} (init_inv o)).1 b h

/-- Since fix 9b8b2e0 `size()` — which `can_add` compares with 95 % of 32 MiB — is an upper bound of the
    serialized block up to 180 bytes of field headers, for EVERY block kind (dense included), for strings below
    2 MiB and rows inside the value domain (version < 2^31, uint32 timestamps/changesets, int32 coordinates,
    string ids < 2^31).  With the old entry-counting estimate this was false (2000 strings of 1024 bytes:
    `size()` = 2001, > 2 MB serialized).  The model's `Block.size` is tied to the real `size()` byte-exactly by
    the `est` correspondence stream. -/
theorem pbf_size_estimate_sound (o : Opts) (b : Block) (hc : b.Consistent)
    (hs : ∀ s ∈ b.table.added, s.length < 2 ^ 21) (hd : ∀ r ∈ b.rows, RowDom r) :
    (b.message o).length ≤ b.size o + 180 :=
  size_estimate_all o b hc hs hd

example : (({ kind := 3, table := { added := [[1, 2, 3]] } } : Block).message {}).length ≤
    ({ kind := 3, table := { added := [[1, 2, 3]] } } : Block).size {} + 180 := by decide

/-! ## header -/

/-- generator, history flag and the joined bounding box come back exactly (since fix 4309424 the corners
    are written in exact integer arithmetic; before, ≈ 2.4 % of all coordinates lost 1e-7° — regression probe
    `pbf-header-bbox-rounding`).  `encHeader = none` is the invalid_location error of an invalid joined box. -/
theorem header_roundtrip (o : Opts) (h : Header) (fs : List Field) (he : encHeader o h = some fs) :
    decodeMsg headerStep {} fs = some (projectHeader o h) := by
  obtain ⟨d, mv, mt, mc, mu, mus, hist, low⟩ := o
  have f1 : featureOk "OsmSchema-V0.6".toByteArray.toList = some false := by decide +kernel
  have f2 : featureOk "DenseNodes".toByteArray.toList = some false := by decide +kernel
  have f3 : featureOk "HistoricalInformation".toByteArray.toList = some true := by decide +kernel
  unfold encHeader at he
  by_cases hb : h.boxes.isEmpty = true
  · simp only [hb, ↓reduceIte, Option.some.injEq] at he
    subst he
    cases d <;> cases hist <;> cases low <;>
      simp [projectHeader, hb, decodeMsg, headerStep, fBytes, f1, f2, f3]
  · simp only [hb, Bool.false_eq_true, ↓reduceIte] at he
    split at he
    · simp at he
    · rename_i hv
      simp only [Bool.or_eq_true, Bool.not_eq_true', not_or, Bool.not_eq_false] at hv
      simp only [Option.some.injEq] at he
      subst he
      have hok := joinedBoxes_ok h.boxes
      have hbox : decodeBBox (encodeFields [fVarint 1 (zigzag64 ((joinedBoxes h.boxes).1.x * 100)),
          fVarint 2 (zigzag64 ((joinedBoxes h.boxes).2.x * 100)), fVarint 3 (zigzag64 ((joinedBoxes h.boxes).2.y * 100)),
          fVarint 4 (zigzag64 ((joinedBoxes h.boxes).1.y * 100))]) = some (joinedBoxes h.boxes) := by
        rcases hok with hu | ⟨_, _, hx, hy⟩
        · rw [hu] at hv; exact absurd hv.1 (by decide)
        · exact decodeBBox_enc _ _ hv.1 hv.2 hx hy
      cases d <;> cases hist <;> cases low <;>
        simp [projectHeader, hb, decodeMsg, headerStep, fBytes, f1, f2, f3, hbox]

/-- non-vacuity: two boxes are joined and come back as one -/
example : (encHeader {} { generator := [0x67], boxes := [(⟨-1301, -5⟩, ⟨7, 9⟩), (⟨0, -50⟩, ⟨1, 1⟩)] }).isSome = true := by
  decide

/-! ## blocks and files, unconditional -/

/-- The blocks the Writer emits, for EVERY object sequence of the domain (`ObjInDomain`: int64 ids, version / uid
    < 2^31, uint32 timestamp / changeset, int32 coordinates, member types node / way / relation, strings of at
    most 1024 bytes without NUL byte (`StrOk`: C strings; `decode_stringtable` rejects both, the NUL since repair da64936); changesets are skipped by the PBF output) and EVERY option vector, provided no `SerializeBlob`
    reported an error (the 32 MiB guards): there is a split of the projected sequence into consecutive runs
    `blocks` — one per data blob, in order (`All2`) — such that each blob is the framing of a PrimitiveBlock message
    whose decoding by `PBFPrimitiveBlockDecoder` (string table pass + data pass; plain and dense groups) gives exactly
    that run.  Block boundaries are whatever `can_add` chose (type switch, 8000 entities, size estimate): the
    invariant `WInv` of Lemmas/PbfFileW holds for all of them.
    `BlobDec f d` = `∃ msg, frameBlob osmData msg = some f ∧ withFields msg (decodeBlock {}) = some d`. -/
theorem pbf_block_roundtrip (o : Opts) (objs : List Object) (hd : ∀ ob ∈ objs, ObjInDomain ob)
    (hok : ((objs.foldl (WState.write o) {}).store o).failed = false) :
    ∃ blocks : List (List Object), objs.filterMap (project o) = blocks.flatten ∧
      All2 BlobDec ((objs.foldl (WState.write o) {}).store o).out.reverse blocks :=
  writer_blobs_decode o objs hd hok

/-- … and at any moment the block under construction decodes to the objects it holds, as soon as it is non-empty
    and its message passes the 32 MiB guard (`BlockInv` is what `WState.write` maintains for it) -/
theorem pbf_block_roundtrip_current (o : Opts) (b : Block) (dec : List Object) (hb : BlockInv o b dec)
    (hc : b.count ≠ 0) (hlen : (b.message o).length ≤ PbfFraming.maxUncompressedBlobSize) :
    withFields (b.message o) (decodeBlock {}) = some dec :=
  blockInv_message_decode o b dec hb hc hlen

/-- The file: whenever the Writer reports no error (`encodeFile … = some bs`: valid header box, every message and
    every Blob within 32 MiB — fixes 9b8b2e0, 77d5451), the Reader (`PBFParser::run`: header blob, then all data
    blobs; any `inflate`, it is not used for uncompressed blobs) returns the projected header and the projected
    objects in order — for ALL option vectors, headers and object sequences of the domain.
    Before fix 77d5451 this was false (messages of 32 MiB − 4 … 32 MiB bytes were written and then refused with
    "invalid blob size"; regression probe `pbf-blob-size-gap`). -/
theorem pbf_file_roundtrip (inflate : Nat → Bytes → Nat → Option Bytes) (o : Opts) (h : Header) (objs : List Object)
    (bs : Bytes) (hd : ∀ ob ∈ objs, ObjInDomain ob) (henc : encodeFile o h objs = some bs) :
    decodeFile inflate {} bs = some (projectHeader o h, objs.filterMap (project o)) := by
  cases he : encHeader o h with
  | none => simp [encodeFile, he] at henc
  | some hf => exact file_roundtrip inflate o h objs bs hf _ he (header_roundtrip o h hf he) henc hd

/-- non-vacuity: a history file with a header box, dense nodes (one deleted), a way, a relation and again a node
    (three type switches, four blobs), through the models -/
example :
    let o : Opts := { history := true }
    let h : Header := { generator := [0x67], boxes := [(⟨-1301, -5⟩, ⟨7, 9⟩)] }
    let objs : List Object :=
      [.node { id := 1, version := 1, user := [0x75], tags := [⟨[0x6b], [0x76]⟩] } ⟨10, 20⟩,
       .node { id := -5, version := 2, visible := false, uid := 7 } ⟨-30, 40⟩,
       .way { id := 9223372036854775807, uid := 2147483647 } [⟨1, ⟨1, 2⟩⟩, ⟨-9223372036854775807, Location.undefined⟩],
       .relation { id := 3, changeset := 4294967295, timestamp := 4294967295 } [⟨1, 5, [0x72]⟩, ⟨3, -5, []⟩],
       .node { id := 7 } ⟨0, 0⟩]
    (∀ ob ∈ objs, ObjInDomain ob) ∧
    (encodeFile o h objs).bind (decodeFile noInflate {}) = some (projectHeader o h, objs.filterMap (project o)) := by
  refine ⟨?_, by decide +kernel⟩
  intro ob hob
  simp only [List.mem_cons, List.not_mem_nil, or_false] at hob
  rcases hob with rfl | rfl | rfl | rfl | rfl <;>
    simp [ObjInDomain, MetaInDomain, IdOk, LocOk, MetaStrOk, WayInDomain, RelInDomain, Location.undefined] <;>
    decide

/-- Tie of the model's constants to the CURRENT source: `Generated/Consts.lean` is regenerated from
    /repo/include on every run (tools/consts.py); the kernel decides the equations. -/
theorem consts_tie_pbf_writer :
    maxEntitiesPerBlock = Osmium.Generated.Consts.pbfMaxEntitiesPerBlock ∧
    Osmium.PbfFraming.maxBlobHeaderSize = Osmium.Generated.Consts.pbfMaxBlobHeaderSize ∧
    Osmium.PbfFraming.maxUncompressedBlobSize = Osmium.Generated.Consts.pbfMaxUncompressedBlobSize ∧
    maxOsmStringLength = Osmium.Generated.Consts.maxOsmStringLength ∧
    Osmium.Generated.Consts.pbfResolutionConvert = 100 ∧ Osmium.Generated.Consts.coordinatePrecision = 10000000 := by decide

/-! ## source ties: `util/delta.hpp` translated (tools/cxx2lean.py, state transformers over `m_value`)

Each `update` of the instantiations the PBF writer / decoder use (pbf_output_format.hpp `DenseNodes`, the way
and relation encoders; pbf_decoder.hpp) is regenerated from the source as
`Src.Delta.<Class>_<TValue>_<TDelta>.update : State → Int → Outcome State Int`.  The ties say: on typed
arguments on which the translated code has no undefined behaviour (signed overflow of the subtraction /
addition in `TDelta`), the call returns normally, the new state holds the new value, and the returned delta is
the head of the model's `encGo` / `decGo` — for every tail of the sequence. -/
section SrcTies
open Osmium.Generated Osmium.CxxSem

theorem wrapS32_eq_swrap (x : Int) : wrapS 32 x = Delta.swrap 32 x := by
  simp only [wrapS, Delta.swrap, Int.reducePow, Nat.reduceSub]
  split <;> omega

/-- `DeltaEncode<int64_t, int64_t>::update` (ids, refs, member ids, coordinates) -/
theorem src_tie_delta_encode_i64 (s : Src.Delta.DeltaEncode_i64_i64) (x : Int) (xs : List Int)
    (ht : Src.Delta.DeltaEncode_i64_i64.update_typed s x = true)
    (hd : Src.Delta.DeltaEncode_i64_i64.update_defined s x = true) :
    ∃ d, Src.Delta.DeltaEncode_i64_i64.update s x = .normal ⟨x⟩ d ∧
      Delta.encGo 64 s.m_value (x :: xs) = d :: Delta.encGo 64 x xs := by
  simp only [Src.Delta.DeltaEncode_i64_i64.update_typed, Src.Delta.DeltaEncode_i64_i64.typed,
    Src.Delta.DeltaEncode_i64_i64.update_defined, Bool.and_eq_true, inS_iff, Nat.reduceSub, Int.reducePow] at ht hd
  refine ⟨x - s.m_value, by first | rfl | (dsimp only [Src.Delta.DeltaEncode_i64_i64.update]; outcome_eq), ?_⟩
  simp only [Delta.encGo]
  rw [Delta.swrap64_id x (by omega) (by omega), Delta.swrap64_id s.m_value (by omega) (by omega),
    Delta.swrap64_id _ (by omega) (by omega)]

/-- the no-UB condition of that instantiation: the difference fits into `int64_t` -/
theorem src_defined_delta_encode_i64 (s : Src.Delta.DeltaEncode_i64_i64) (x : Int) :
    Src.Delta.DeltaEncode_i64_i64.update_defined s x = true ↔
      -(2:Int)^63 ≤ x - s.m_value ∧ x - s.m_value < (2:Int)^63 := by
  simp only [Src.Delta.DeltaEncode_i64_i64.update_defined, inS_iff, Nat.reduceSub]

/-- `DeltaEncode<uint32_t, int64_t>::update` (dense timestamp, changeset): never undefined -/
theorem src_tie_delta_encode_u32_i64 (s : Src.Delta.DeltaEncode_u32_i64) (x : Int) (xs : List Int)
    (ht : Src.Delta.DeltaEncode_u32_i64.update_typed s x = true) :
    Src.Delta.DeltaEncode_u32_i64.update_defined s x = true ∧
    ∃ d, Src.Delta.DeltaEncode_u32_i64.update s x = .normal ⟨x⟩ d ∧
      Delta.encGo 64 s.m_value (x :: xs) = d :: Delta.encGo 64 x xs := by
  simp only [Src.Delta.DeltaEncode_u32_i64.update_typed, Src.Delta.DeltaEncode_u32_i64.typed,
    Bool.and_eq_true, inU_iff, Int.reducePow] at ht
  refine ⟨?_, x - s.m_value, by first | rfl | (dsimp only [Src.Delta.DeltaEncode_u32_i64.update]; outcome_eq), ?_⟩
  · simp only [Src.Delta.DeltaEncode_u32_i64.update_defined, inS_iff, Nat.reduceSub, Int.reducePow]; omega
  · simp only [Delta.encGo]
    rw [Delta.swrap64_id x (by omega) (by omega), Delta.swrap64_id s.m_value (by omega) (by omega),
      Delta.swrap64_id _ (by omega) (by omega)]

/-- `DeltaEncode<user_id_type = uint32_t, int32_t>::update` (dense uid) -/
theorem src_tie_delta_encode_u32_i32 (s : Src.Delta.DeltaEncode_u32_i32) (x : Int) (xs : List Int)
    (hd : Src.Delta.DeltaEncode_u32_i32.update_defined s x = true) :
    ∃ d, Src.Delta.DeltaEncode_u32_i32.update s x = .normal ⟨x⟩ d ∧
      Delta.encGo 32 s.m_value (x :: xs) = d :: Delta.encGo 32 x xs := by
  simp only [Src.Delta.DeltaEncode_u32_i32.update_defined, inS_iff, Nat.reduceSub, Int.reducePow] at hd
  simp only [Delta.encGo, wrapS32_eq_swrap] at hd ⊢
  refine ⟨Delta.swrap 32 x - Delta.swrap 32 s.m_value,
    by first | (simp only [Src.Delta.DeltaEncode_u32_i32.update, wrapS32_eq_swrap]; done)
             | (simp only [Src.Delta.DeltaEncode_u32_i32.update, wrapS32_eq_swrap]; outcome_eq), ?_⟩
  rw [Delta.swrap32_id _ (by omega) (by omega)]

/-- on the property's domain (uids below 2^31) that instantiation is never undefined -/
theorem src_defined_delta_encode_u32_i32 (s : Src.Delta.DeltaEncode_u32_i32) (x : Int)
    (h0 : 0 ≤ s.m_value ∧ s.m_value < (2:Int)^31) (hx : 0 ≤ x ∧ x < (2:Int)^31) :
    Src.Delta.DeltaEncode_u32_i32.update_defined s x = true := by
  simp only [Src.Delta.DeltaEncode_u32_i32.update_defined, inS_iff, Nat.reduceSub, Int.reducePow, wrapS32_eq_swrap] at *
  rw [Delta.swrap32_id _ (by omega) (by omega), Delta.swrap32_id _ (by omega) (by omega)]
  omega

/-- `DeltaEncode<int32_t, int32_t>::update` (dense user_sid) -/
theorem src_tie_delta_encode_i32 (s : Src.Delta.DeltaEncode_i32_i32) (x : Int) (xs : List Int)
    (ht : Src.Delta.DeltaEncode_i32_i32.update_typed s x = true)
    (hd : Src.Delta.DeltaEncode_i32_i32.update_defined s x = true) :
    ∃ d, Src.Delta.DeltaEncode_i32_i32.update s x = .normal ⟨x⟩ d ∧
      Delta.encGo 32 s.m_value (x :: xs) = d :: Delta.encGo 32 x xs := by
  simp only [Src.Delta.DeltaEncode_i32_i32.update_typed, Src.Delta.DeltaEncode_i32_i32.typed,
    Src.Delta.DeltaEncode_i32_i32.update_defined, Bool.and_eq_true, inS_iff, Nat.reduceSub, Int.reducePow] at ht hd
  refine ⟨x - s.m_value, by first | rfl | (dsimp only [Src.Delta.DeltaEncode_i32_i32.update]; outcome_eq), ?_⟩
  simp only [Delta.encGo]
  rw [Delta.swrap32_id x (by omega) (by omega), Delta.swrap32_id s.m_value (by omega) (by omega),
    Delta.swrap32_id _ (by omega) (by omega)]

/-- `DeltaDecode<int64_t, int64_t>::update` — the only instantiation the PBF decoder uses -/
theorem src_tie_delta_decode_i64 (s : Src.Delta.DeltaDecode_i64_i64) (d : Int) (ds : List Int)
    (hd : Src.Delta.DeltaDecode_i64_i64.update_defined s d = true) :
    ∃ v, Src.Delta.DeltaDecode_i64_i64.update s d = .normal ⟨v⟩ v ∧
      Delta.decGo s.m_value (d :: ds) = v :: Delta.decGo v ds := by
  simp only [Src.Delta.DeltaDecode_i64_i64.update_defined, inS_iff, Nat.reduceSub, Int.reducePow] at hd
  have hv : Delta.swrap 64 (s.m_value + d) = s.m_value + d := Delta.swrap64_id _ (by omega) (by omega)
  refine ⟨Delta.swrap 64 (s.m_value + d), ?_, rfl⟩
  rw [hv]
  first | rfl | (dsimp only [Src.Delta.DeltaDecode_i64_i64.update]; outcome_eq)

/-- which instantiation each delta coder of `DenseNodes` IS (the member types of the regenerated record): the
    widths `Delta.encId/encTimestamp/encChangeset/encUid/encUserSid/encCoord` hard-code (64, 64, 64, 32, 32, 64).
    A change of a template argument in pbf_output_format.hpp changes a member type and this stops type-checking. -/
theorem src_tie_dense_delta_instances (d : Src.PbfOutputFormat.DenseNodes) :
    (d.m_delta_id : Src.Delta.DeltaEncode_i64_i64) = d.m_delta_id ∧
    (d.m_delta_timestamp : Src.Delta.DeltaEncode_u32_i64) = d.m_delta_timestamp ∧
    (d.m_delta_changeset : Src.Delta.DeltaEncode_u32_i64) = d.m_delta_changeset ∧
    (d.m_delta_uid : Src.Delta.DeltaEncode_u32_i32) = d.m_delta_uid ∧
    (d.m_delta_user_sid : Src.Delta.DeltaEncode_i32_i32) = d.m_delta_user_sid ∧
    (d.m_delta_lat : Src.Delta.DeltaEncode_i64_i64) = d.m_delta_lat ∧
    (d.m_delta_lon : Src.Delta.DeltaEncode_i64_i64) = d.m_delta_lon ∧
    Delta.encId = Delta.enc 64 ∧ Delta.encTimestamp = Delta.enc 64 ∧ Delta.encChangeset = Delta.enc 64 ∧
    Delta.encUid = Delta.enc 32 ∧ Delta.encUserSid = Delta.enc 32 ∧ Delta.encCoord = Delta.enc 64 :=
  ⟨rfl, rfl, rfl, rfl, rfl, rfl, rfl, rfl, rfl, rfl, rfl, rfl, rfl⟩

/-- `clear()` puts both classes back into the state every model run starts from (`enc`/`dec` start at 0) -/
theorem src_tie_delta_clear (e : Src.Delta.DeltaEncode_i64_i64) (d : Src.Delta.DeltaDecode_i64_i64) :
    Src.Delta.DeltaEncode_i64_i64.clear e = .normal ⟨0⟩ () ∧ Src.Delta.DeltaDecode_i64_i64.clear d = .normal ⟨0⟩ () :=
  ⟨rfl, rfl⟩

-- the hypotheses are satisfiable (extreme values included)
example : Src.Delta.DeltaEncode_i64_i64.update_typed ⟨-9223372036854775808⟩ (-1) = true ∧
    Src.Delta.DeltaEncode_i64_i64.update_defined ⟨-9223372036854775808⟩ (-1) = true := by decide
example : Src.Delta.DeltaEncode_u32_i64.update_typed ⟨4294967295⟩ 0 = true := by decide
example : Src.Delta.DeltaEncode_u32_i32.update_defined ⟨2147483647⟩ 0 = true := by decide
example : Src.Delta.DeltaEncode_i32_i32.update_typed ⟨-5⟩ 7 = true ∧ Src.Delta.DeltaEncode_i32_i32.update_defined ⟨-5⟩ 7 = true := by decide
example : Src.Delta.DeltaDecode_i64_i64.update_defined ⟨9223372036854775806⟩ 1 = true := by decide
-- and outside the defined domain the translated code reports the overflow (the compiled code wraps; the model wraps)
example : Src.Delta.DeltaEncode_i64_i64.update_defined ⟨-9223372036854775808⟩ 1 = false := by decide

/-! ### block accounting of the PBF writer (`DenseNodes::size()`, `PrimitiveBlock::can_add`) -/

/-- `DenseNodes::size()` is the weighted sum of the nine vector lengths whenever that sum fits `size_t`
    (every intermediate unsigned result is then exact) -/
theorem src_tie_dense_size_sum (d : Src.PbfOutputFormat.DenseNodes)
    (ht : 0 ≤ d.m_ids.size ∧ 0 ≤ d.m_versions.size ∧ 0 ≤ d.m_timestamps.size ∧ 0 ≤ d.m_changesets.size ∧
      0 ≤ d.m_uids.size ∧ 0 ≤ d.m_user_sids.size ∧ 0 ≤ d.m_visibles.size ∧ 0 ≤ d.m_tags.size)
    (hb : d.m_ids.size * 24 + d.m_versions.size * 5 + d.m_timestamps.size * 10 + d.m_changesets.size * 10 +
      d.m_uids.size * 5 + d.m_user_sids.size * 5 + d.m_visibles.size + d.m_tags.size * 5 < 2 ^ 64) :
    Src.PbfOutputFormat.DenseNodes.size d =
      d.m_ids.size * 24 + d.m_versions.size * 5 + d.m_timestamps.size * 10 + d.m_changesets.size * 10 +
      d.m_uids.size * 5 + d.m_user_sids.size * 5 + d.m_visibles.size + d.m_tags.size * 5 := by
  simp only [Src.PbfOutputFormat.DenseNodes.size, wrapU]
  omega

/-- `DenseNodes::size()` = `denseSize`: when the nine vectors have the lengths the options give them
    (`m_ids` one entry per row, the metadata vectors one entry per row iff the option is on, `m_tags` the
    key/value ids with terminators) and the estimate does not wrap in `size_t` -/
theorem src_tie_dense_size (o : Opts) (rows : List DenseRow) (d : Src.PbfOutputFormat.DenseNodes)
    (h1 : d.m_ids.size = rows.length)
    (h2 : d.m_versions.size = if o.mdVersion then rows.length else 0)
    (h3 : d.m_timestamps.size = if o.mdTimestamp then rows.length else 0)
    (h4 : d.m_changesets.size = if o.mdChangeset then rows.length else 0)
    (h5 : d.m_uids.size = if o.mdUid then rows.length else 0)
    (h6 : d.m_user_sids.size = if o.mdUser then rows.length else 0)
    (h7 : d.m_visibles.size = if o.history then rows.length else 0)
    (h8 : d.m_tags.size = ((rows.map fun r => r.tags.length).sum : Nat))
    (hb : denseSize o rows < 2 ^ 64) :
    Src.PbfOutputFormat.DenseNodes.size d = (denseSize o rows : Nat) := by
  rcases o with ⟨dn, v1, v2, v3, v4, v5, hs, lw⟩
  dsimp only at h2 h3 h4 h5 h6 h7
  simp only [denseSize] at hb ⊢
  generalize rows.length = n at *
  generalize (rows.map fun r => r.tags.length).sum = T at *
  have key : (0 ≤ d.m_ids.size ∧ 0 ≤ d.m_versions.size ∧ 0 ≤ d.m_timestamps.size ∧ 0 ≤ d.m_changesets.size ∧
      0 ≤ d.m_uids.size ∧ 0 ≤ d.m_user_sids.size ∧ 0 ≤ d.m_visibles.size ∧ 0 ≤ d.m_tags.size) ∧
      d.m_ids.size * 24 + d.m_versions.size * 5 + d.m_timestamps.size * 10 + d.m_changesets.size * 10 +
        d.m_uids.size * 5 + d.m_user_sids.size * 5 + d.m_visibles.size + d.m_tags.size * 5 =
      ((n * 3 * 8 + (if v1 then n * 5 else 0) + (if v2 then n * 10 else 0) + (if v3 then n * 10 else 0) +
        (if v4 then n * 5 else 0) + (if v5 then n * 5 else 0) + (if hs then n else 0) + T * 5 : Nat) : Int) := by
    simp only [h1, h2, h3, h4, h5, h6, h7, h8]
    cases v1 <;> cases v2 <;> cases v3 <;> cases v4 <;> cases v5 <;> cases hs <;>
      simp only [↓reduceIte, Bool.false_eq_true] at hb ⊢ <;> omega
  rw [src_tie_dense_size_sum d key.1 (by rw [key.2]; exact_mod_cast hb), key.2]

/-- `PrimitiveBlock::can_add(type)` = `Block.canAdd`, with the value of `size()` left opaque in the translation
    and instantiated with the model's `Block.size` -/
theorem src_tie_primitive_block_can_add (o : Opts) (b : Block) (pb : Src.PbfOutputFormat.PrimitiveBlock) (kind : Nat)
    (h1 : pb.m_type = (b.kind : Int)) (h2 : pb.m_count = (b.count : Int)) :
    Src.PbfOutputFormat.PrimitiveBlock.can_add pb kind (b.size o : Nat) = b.canAdd o kind := by
  have e1 : wrapS 32 Src.PbfOutputFormat.max_entities_per_block = 8000 := by decide
  have e2 : Src.PbfOutputFormat.PrimitiveBlock.max_used_blob_size = (maxUsedBlobSize : Int) := by decide
  have e3 : Src.PbfOutputFormat.max_entities_per_block = 8000 := by decide
  have e4 : wrapS 32 (8000 : Int) = 8000 := by decide
  -- the model side as a proposition
  have hm : b.canAdd o kind = true ↔ (kind = b.kind ∧ b.count < 8000 ∧ b.size o < maxUsedBlobSize) := by
    unfold Block.canAdd maxEntitiesPerBlock
    by_cases k : kind = b.kind <;> by_cases c : b.count ≥ 8000 <;> simp [k, c] <;> omega
  rw [Bool.eq_iff_iff, hm]
  -- the source side, whatever the shape of its control flow: decide the three atomic tests
  by_cases k : kind = b.kind <;> by_cases c : b.count < 8000 <;> by_cases z : b.size o < maxUsedBlobSize <;>
    (have k1 : ((kind : Int) = (b.kind : Int)) ↔ kind = b.kind := by omega) <;>
    (have k2 : ((b.kind : Int) = (kind : Int)) ↔ kind = b.kind := by omega) <;>
    (have c1 : ((b.count : Int) < 8000) ↔ b.count < 8000 := by omega) <;>
    (have c2 : ((8000 : Int) ≤ (b.count : Int)) ↔ ¬ b.count < 8000 := by omega) <;>
    (have z1 : ((b.size o : Int) < (maxUsedBlobSize : Int)) ↔ b.size o < maxUsedBlobSize := by omega) <;>
    (have z2 : ((maxUsedBlobSize : Int) ≤ (b.size o : Int)) ↔ ¬ b.size o < maxUsedBlobSize := by omega) <;>
    simp [Src.PbfOutputFormat.PrimitiveBlock.can_add, Src.PbfOutputFormat.PrimitiveBlock.count, h1, h2, e1, e2, e3,
      e4, k1, k2, c1, c2, z1, z2, k, c, z]

example : ∃ (o : Opts) (rows : List DenseRow), denseSize o rows < 2 ^ 64 := ⟨{}, [], by decide⟩

end SrcTies

end Osmium.Pbf
