/-
C08 — Writer produces the complete file or throws; OS write errors are never lost.

Model: Osmium/Model/WriterSM.lean (OS oracle, reliable_write, NoCompressor / GzipCompressor /
Bzip2Compressor over library parameters, Writer + write thread + pool as a small-step
machine).  All theorems quantify over every OS schedule (short writes, EINTR, errors at any
offset or call, fsync/close failures), every script of user calls, every queue bound and —
for the machine theorems — every interleaving of producer, pool workers and write thread
(`Reachable` = any enabled thread may move).

Library contracts (parameters, written down in Lemmas/WriterSM.lean): `GzSpec` (zlib gz
layer), `BzSpec` (libbz2 on stdio); `refGzSpec` / `refBzSpec` show they are satisfiable.
-/
import Osmium.Lemmas.WriterSMLive
import Osmium.Lemmas.WriterSMQueue
import Osmium.Lemmas.WriterSMEnd
import Osmium.Lemmas.WriterSMRank
import Osmium.Lemmas.WriterSMQ
import Osmium.Generated.Consts
import Osmium.Generated.C08Guards

namespace Osmium.C08

open Osmium.WriterSM Osmium.Mon

/-! ## reliable_write -/

/-- For every schedule of short writes, EINTRs and errors: the bytes that reached the fd are a
    prefix of the buffer, in order; if `reliable_write` returns, they are exactly the buffer
    and no error response was delivered; if it throws, exactly one error response was
    delivered — it is never swallowed. -/
theorem reliable_write_all_or_throw (os : OS) (buf : Bytes) (r : RW) (os' : OS)
    (h : reliableWrite os buf = (r, os')) :
    ∃ pre, pre <+: buf ∧ os'.file = os.file ++ pre ∧
      (r = .done → pre = buf ∧ os'.faults = os.faults) ∧
      (∀ e, r = .error e → os'.faults = os.faults + 1) :=
  let ⟨pre, a, b, c, d, _⟩ := rwLoop_spec _ _ _ _ _ _ h
  ⟨pre, a, b, c, d⟩

/-- Termination needs: "a write of n > 0 bytes never returns 0" (`Resp.wf`).  Then the loop
    ends for every schedule (the fuel of the model is never exhausted). -/
theorem reliable_write_terminates (os : OS) (buf : Bytes) (hwf : ∀ r ∈ os.sched, r.wf = true) :
    (reliableWrite os buf).1 ≠ .outOfFuel :=
  rwLoop_terminates maxWrite (by decide) _ os buf hwf (Nat.le_refl _)

/-- … and the hypothesis is necessary: against a kernel that keeps answering 0 the C++ loop
    makes as many calls as one lets it run and never returns. -/
theorem reliable_write_spins_on_zero (n : Nat) (b : UInt8) (bs : Bytes) (os : OS)
    (hl : os.limit = none) (hs : os.sched = List.replicate n (.ok 0)) :
    (rwLoop maxWrite n os (b :: bs)).1 = .outOfFuel := by
  induction n generalizing os with
  | zero => rfl
  | succ k ih =>
    unfold rwLoop
    have hw : os.write ((b :: bs).take maxWrite) =
        (.wrote 0, { os with sched := List.replicate k (.ok 0), wcalls := os.wcalls + 1 }) := by
      simp [OS.write, OS.respond, OS.nextResp, OS.accept, hs, hl, List.replicate_succ]
    rw [hw]
    simp only [List.drop_zero, List.isEmpty_cons, Bool.false_eq_true, if_false]
    exact ih _ hl rfl

/-- The driver runs `reliable_write` on sizes only (a 100 MiB buffer is not materialised): that
    loop issues the same requests, gets the same answers and ends in the same outcome and OS
    state (up to the file content) as the byte-level `rwLoop` the theorems above are about. -/
theorem driver_rw_is_reliable_write (maxw fuel : Nat) (os : OS) (buf : Bytes) :
    (rwLoopN maxw fuel os.forget buf.length []).1 = (rwLoop maxw fuel os buf).1 ∧
    (rwLoopN maxw fuel os.forget buf.length []).2.1 = (rwLoop maxw fuel os buf).2.forget :=
  rwLoopN_rwLoop maxw fuel os buf []

/-! ## close() returned normally ⇒ complete file, right size; any fault ⇒ an exception -/

/-- the first finished call that is not a quietly successful operator()/flush() -/
abbrev firstLoud := WriterSM.firstLoud

section generic
variable {κ : Type} {cfg : Cfg κ} {enc : List Bytes → Bytes} (S : CompSpec cfg.comp enc)
  {k0 : κ} {os0 : OS} {script : List Api}

/-- **close_ok_implies_complete** (any compressor satisfying its contract, all interleavings):
    if the first call that did anything but quietly succeed is a `close()` that RETURNED n,
    then no error response was ever delivered by the OS, the file is the encoding of the
    blocks the write thread took — which are exactly the blocks handed over before the first
    end-of-data marker, none of them an encoder failure — and n is the file's size. -/
theorem close_ok_implies_complete (h0 : S.Inv k0 os0 []) {s : St κ}
    (hr : (machine cfg k0 os0 script).Reachable s) {ib : Option Enc} {eEnd : Enc} {n : Nat}
    (hfl : firstLoud s.results = some (.close ib eEnd, .ok n)) :
    s.os.faults = 0 ∧ s.os.file = enc s.written ∧ n = s.os.file.length ∧
    ∃ tail, s.pushed = s.written.map Res.data ++ Res.data [] :: tail := by
  have hi := inv1_reachable S h0 hr
  have hp := hi.closeRet _ _ hfl rfl
  obtain ⟨a, b, c, _⟩ := hi.wt.okv n hp
  refine ⟨a, b, c, ?_⟩
  have hq := qInv_reachable hr
  obtain ⟨t, ht⟩ := hq.prefix_
  exact ⟨t, by rw [← ht, hq.atOk n hp]; simp⟩

/-- **any_fault_reported** (all interleavings): once the OS has delivered an error response
    — a failing write at any offset, a failing fsync or close — no `close()` returns normally
    unless an exception has already been thrown to the caller; i.e. the first loud event is
    never a successful close. -/
theorem any_fault_reported (h0 : S.Inv k0 os0 []) {s : St κ}
    (hr : (machine cfg k0 os0 script).Reachable s) (hf : s.os.faults > 0)
    {ib : Option Enc} {eEnd : Enc} {n : Nat} :
    firstLoud s.results ≠ some (.close ib eEnd, .ok n) := by
  intro hfl
  have := (close_ok_implies_complete S h0 hr hfl).1
  omega

/-- … and whenever a `close()` has finished, a loud event exists: either an exception reached
    the caller (from operator(), flush() or close()), or close() returned the promise's value
    of a fault-free run. -/
theorem close_finished_is_loud {s : St κ} {ib : Option Enc} {eEnd : Enc} {o : Outcome}
    (hm : (Api.close ib eEnd, o) ∈ s.results) : ∃ y, firstLoud s.results = some y := by
  rcases h : firstLoud s.results with _ | y
  · exact absurd ⟨_, hm, by cases o <;> rfl⟩ (firstLoud_none h)
  · exact ⟨y, rfl⟩

/-- Encoder failures are reported too: if a future carrying an exception was taken by the
    write thread, the promise is never fulfilled with a value, so `close()` cannot be the
    first loud event with a normal return. -/
theorem encoder_failure_reported (h0 : S.Inv k0 os0 []) {s : St κ}
    (hr : (machine cfg k0 os0 script).Reachable s) {e : Err} (he : Res.exc e ∈ s.taken)
    {ib : Option Enc} {eEnd : Enc} {n : Nat} :
    firstLoud s.results ≠ some (.close ib eEnd, .ok n) := by
  intro hfl
  have hi := inv1_reachable S h0 hr
  have hp := hi.closeRet _ _ hfl rfl
  have := (qInv_reachable hr).atOk n hp
  rw [this] at he
  simp at he

/-- **error_state_refuses_data**, step form: in status error/closed the `ensure_cleanup`
    test of operator()/flush() throws io_error before anything is encoded or queued. -/
theorem error_state_refuses_data (s : St κ) (a : Api) (rest : List Instr)
    (hc : s.cur = some a) (hcode : s.code = .chk :: rest) (hst : s.status ≠ .okay) :
    stepProd cfg s = some (finish s a (.raised .refused)) ∧
    (finish s a (.raised .refused)).q = s.q ∧ (finish s a (.raised .refused)).pushed = s.pushed := by
  refine ⟨?_, rfl, rfl⟩
  simp [stepProd, hc, hcode, hst]

/-- … and every exception that reached the caller leaves the Writer in status error/closed
    (for good: no step sets the status back to okay), in every interleaving. -/
theorem raised_means_error_state (h0 : S.Inv k0 os0 []) (hd : ∃ ib e, Api.dtor ib e ∈ script)
    {s : St κ} (hr : (machine cfg k0 os0 script).Reachable s) {a : Api} {e : Err}
    (hm : (a, Outcome.raised e) ∈ s.results) : s.status ≠ .okay :=
  (inv2_reachable S h0 hd hr).term.raisedErr ⟨_, hm, e, rfl⟩

/-- **threads_finish**: no reachable state is stuck — as long as the Writer has not been
    destroyed, some thread (producer, a pool worker or the write thread) has an enabled
    step; in particular neither `close()` (future.get) nor `~Writer` (join) nor a push on a
    full queue can wait forever.  (Progress under a fair scheduler follows because every
    step decreases the finite remaining work: script, code, queue, write-thread pc.) -/
theorem threads_finish (h0 : S.Inv k0 os0 []) (hd : ∃ ib e, Api.dtor ib e ∈ script)
    {s : St κ} (hr : (machine cfg k0 os0 script).Reachable s) (hnd : s.destroyed = false) :
    (machine cfg k0 os0 script).Enabled s := by
  obtain ⟨e, s', h⟩ := inv2_enabled S (inv2_reachable S h0 hd hr) hnd
  exact ⟨e, s', h⟩

/-- **Progress (ranking function).**  Every step of every thread, from every reachable state,
    strictly decreases the natural-number measure `rank` (remaining script and code of the
    producer, queue length, unfinished pool tasks, write-thread pc).  There is no busy
    waiting in the model — a blocked thread has no step — so no fairness assumption is needed. -/
theorem every_step_decreases_rank (h0 : S.Inv k0 os0 []) {s s' : St κ} {e : Ev}
    (hr : (machine cfg k0 os0 script).Reachable s) (hs : (machine cfg k0 os0 script).Step s e s') :
    rank cfg s' < rank cfg s :=
  rank_step (inv1_reachable S h0 hr).prod.idle hs

/-- hence every run is finite: a run of k steps from a reachable state needs k ≤ rank -/
theorem runs_are_bounded (h0 : S.Inv k0 os0 []) : ∀ (tr : List Ev) (s s' : St κ) (i : Nat),
    (machine cfg k0 os0 script).Reachable s → (machine cfg k0 os0 script).run? s tr i = .ok s' →
    tr.length + rank cfg s' ≤ rank cfg s := by
  intro tr
  induction tr with
  | nil => intro s s' i _ h; simp [Machine.run?] at h; subst h; simp
  | cons e rest ih =>
    intro s s' i hr h
    unfold Machine.run? at h
    split at h
    · next s1 h1 =>
      have hd := every_step_decreases_rank S h0 hr h1
      have := ih s1 s' (i + 1) (.step hr h1) h
      simp only [List.length_cons]
      omega
    · cases h

/-- **threads_finish, with progress**: whatever the scheduler does, after at most `rank s` steps
    the run cannot be continued, and a run that cannot be continued has destroyed the Writer:
    close() has returned or thrown, ~Writer has joined the write thread, all threads are done. -/
theorem threads_finish_progress (h0 : S.Inv k0 os0 []) (hd : ∃ ib e, Api.dtor ib e ∈ script)
    {s s' : St κ} {tr : List Ev} (hr : (machine cfg k0 os0 script).Reachable s)
    (hrun : (machine cfg k0 os0 script).run? s tr = .ok s')
    (hmax : ¬ (machine cfg k0 os0 script).Enabled s') :
    s'.destroyed = true ∧ tr.length ≤ rank cfg s := by
  have hr' := Machine.run?_reachable _ s s' tr 0 hr hrun
  refine ⟨?_, by have := runs_are_bounded S h0 tr s s' 0 hr hrun; omega⟩
  cases hdes : s'.destroyed with
  | true => rfl
  | false => exact absurd (threads_finish S h0 hd hr' hdes) hmax

/-- `Inv1` and the end-marker invariant together, for a writer whose encoders never yield the
    empty string -/
theorem endInv_reachable (h0 : S.Inv k0 os0 []) (hg : cfg.hdrEnc.good = true)
    (hsg : ∀ a ∈ script, a.good = true) {s : St κ}
    (hr : (machine cfg k0 os0 script).Reachable s) : EndInv s :=
  (Machine.invariant (machine cfg k0 os0 script) (fun s => Inv1 S s ∧ EndInv s)
    ⟨inv1_init S script h0, endInv_init hsg⟩
    (fun _ _ _ _ hi hs => by
      refine ⟨inv1_step S hi.1 hs, ?_⟩
      rcases step_cases hs with h | h | h
      · exact endInv_prod hg hi.1.prod hi.2 h
      · exact endInv_wt hi.2 h
      · exact endInv_worker hi.2 h) s hr).2

end generic

/-! ## The repaired writer (fix fb588a3): everything handed over is in the file -/

section repaired
variable {κ : Type} {cfg : Cfg κ} {enc : List Bytes → Bytes} (S : CompSpec cfg.comp enc)
  {k0 : κ} {os0 : OS} {script : List Api}

/-- **close_ok_all_handed_over** — the FULL clause, for the writer of the current tree
    (`repairedMachine`: any script, any header, through output formats that skip blocks
    without writable objects), any compressor meeting its contract, all OS schedules, all
    interleavings: if `close()` returns n as the first loud event then EVERY push ever
    attempted by the caller's calls (ghost `pushed`: header, all blocks of all calls, nothing
    dropped by a shut-down queue, no encoder failure) is a block the write thread wrote,
    followed by exactly one end-of-data marker; the file is the encoding of precisely these
    blocks, n is its size and the OS never delivered an error response. -/
theorem close_ok_all_handed_over (h0 : S.Inv k0 os0 []) {s : St κ}
    (hr : (repairedMachine cfg k0 os0 script).Reachable s) {ib : Option Enc} {eEnd : Enc} {n : Nat}
    (hfl : firstLoud s.results = some (.close ib eEnd, .ok n)) :
    s.pushed = s.written.map Res.data ++ [Res.data []] ∧
    s.os.file = enc s.written ∧ n = s.os.file.length ∧ s.os.faults = 0 := by
  have hr' : (machine cfg.repair k0 os0 (script.map Api.repair)).Reachable s := hr
  obtain ⟨hfa, hfile, hn, tail, ht⟩ := close_ok_implies_complete (cfg := cfg.repair) S h0 hr' hfl
  refine ⟨?_, hfile, hn, hfa⟩
  have he := endInv_reachable (cfg := cfg.repair) S h0 (good_repair_enc cfg.hdrEnc)
    (fun a ha => by obtain ⟨b, _, rfl⟩ := List.mem_map.mp ha; exact good_repair_api b) hr'
  have hwc : clean (s.written.map Res.data) := by
    intro hm
    obtain ⟨b, hb, hb0⟩ := List.mem_map.mp hm
    simp at hb0
    exact (qInv_reachable hr').writtenNe b hb hb0
  have hin : Res.data [] ∈ s.pushed := by rw [ht]; simp
  rcases hst : s.status with _ | _ | _
  · exact absurd hin (he.okay hst).1
  · obtain ⟨hea, _⟩ := he.error hst
    obtain ⟨e, hex⟩ := hea _ _ ht
    obtain ⟨b, _, hb⟩ := List.mem_map.mp hex
    cases hb
  · rcases he.closed hst with ⟨hc, _⟩ | ⟨⟨pre, hpre, hcp⟩, _⟩
    · exact absurd hin hc
    · rw [hpre] at ht
      obtain ⟨h1, h2⟩ := first_end_unique pre _ tail hcp hwc ht
      rw [hpre, h1]

/-- NoCompressor instance: the file is, byte for byte, the concatenation of every data block
    the caller's calls handed over. -/
theorem close_ok_all_handed_over_none {sync : Bool} {hdr : Enc} {qmax : Nat} {script : List Api}
    {s : St NoState}
    (hr : (repairedMachine ⟨noComp, hdr, qmax⟩ { sync := sync } {} script).Reachable s)
    {ib : Option Enc} {eEnd : Enc} {n : Nat}
    (hfl : firstLoud s.results = some (.close ib eEnd, .ok n)) :
    s.os.file = (s.pushed.filterMap fun r => match r with | .data b => some b | .exc _ => none).flatten ∧
    n = s.os.file.length := by
  obtain ⟨hp, hfile, hn, _⟩ := close_ok_all_handed_over (cfg := ⟨noComp, hdr, qmax⟩) noSpec
    ⟨rfl, rfl, rfl, rfl⟩ hr hfl
  refine ⟨?_, hn⟩
  rw [hfile, hp]
  have hid : ((fun r => match r with | Res.data b => some b | Res.exc _ => none) ∘ Res.data) =
      (some : Bytes → Option Bytes) := by funext b; rfl
  simp [List.filterMap_append, List.filterMap_map, hid]

/-- … and the other clauses carry over unchanged, e.g. no stuck state -/
theorem threads_finish_repaired (h0 : S.Inv k0 os0 []) (hd : ∃ ib e, Api.dtor ib e ∈ script)
    {s : St κ} (hr : (repairedMachine cfg k0 os0 script).Reachable s) (hnd : s.destroyed = false) :
    (repairedMachine cfg k0 os0 script).Enabled s :=
  threads_finish (cfg := cfg.repair) S h0 (dtor_mem_repair hd) hr hnd

end repaired

/-! ## Per output format: the clause holds exactly where a guard keeps empty blocks out -/

section formats
variable {κ : Type} {cfg : Cfg κ} {enc : List Bytes → Bytes} (S : CompSpec cfg.comp enc)
  {k0 : κ} {os0 : OS} {script : List Api}

/-- **close_ok_all_handed_over_fmt** — the full clause for every output format `f` of a tree
    (described by its guard table `T`) in which a block without writable objects is kept out
    of the queue on BOTH paths (`do_write` and `do_flush`), by the format's `write_buffer` or
    by the Writer: any compressor meeting its contract, all scripts, OS schedules, interleavings. -/
theorem close_ok_all_handed_over_fmt (T : GuardTable) (f : Fmt) (hg : T.guards f = ⟨true, true⟩)
    (h0 : S.Inv k0 os0 []) {s : St κ}
    (hr : (fmtMachine T f cfg k0 os0 script).Reachable s) {ib : Option Enc} {eEnd : Enc} {n : Nat}
    (hfl : firstLoud s.results = some (.close ib eEnd, .ok n)) :
    s.pushed = s.written.map Res.data ++ [Res.data []] ∧
    s.os.file = enc s.written ∧ n = s.os.file.length ∧ s.os.faults = 0 := by
  unfold fmtMachine at hr
  rw [hg, guardedMachine_tt] at hr
  exact close_ok_all_handed_over S h0 hr hfl

/-- the other clauses do not depend on the guards (any format, guarded or not): no stuck state -/
theorem threads_finish_fmt (T : GuardTable) (f : Fmt) (h0 : S.Inv k0 os0 [])
    (hd : ∃ ib e, Api.dtor ib e ∈ script) {s : St κ}
    (hr : (fmtMachine T f cfg k0 os0 script).Reachable s) (hnd : s.destroyed = false) :
    (fmtMachine T f cfg k0 os0 script).Enabled s :=
  threads_finish (cfg := cfg.repair) S h0 (dtor_mem_guard hd) hr hnd

/-- … and a fault is reported whatever the format does with empty blocks -/
theorem any_fault_reported_fmt (T : GuardTable) (f : Fmt) (h0 : S.Inv k0 os0 []) {s : St κ}
    (hr : (fmtMachine T f cfg k0 os0 script).Reachable s) (hf : s.os.faults > 0)
    {ib : Option Enc} {eEnd : Enc} {n : Nat} :
    firstLoud s.results ≠ some (.close ib eEnd, .ok n) :=
  any_fault_reported (cfg := cfg.repair) S h0 hr hf

end formats

/-- the guard table of the CURRENT source (regenerated from /repo/include on every run) -/
def currentTable : GuardTable :=
  { writerDoWrite := Osmium.Generated.C08Guards.writerDoWrite
    writerDoFlush := Osmium.Generated.C08Guards.writerDoFlush
    fmt := fun
      | .opl => Osmium.Generated.C08Guards.opl
      | .xml => Osmium.Generated.C08Guards.xml
      | .pbf => Osmium.Generated.C08Guards.pbf
      | .debug => Osmium.Generated.C08Guards.debug
      | .ids => Osmium.Generated.C08Guards.ids
      | .blackhole => Osmium.Generated.C08Guards.blackhole }

/-- Tie to the current source: OPL, XML, PBF and blackhole are guarded on both paths (the proof
    no longer checks as soon as a guard disappears from one of the two paths, e.g. when the
    test is moved into `Writer::do_write` only). -/
theorem current_tree_guards :
    ∀ f ∈ [Fmt.opl, Fmt.xml, Fmt.pbf, Fmt.blackhole], currentTable.guards f = ⟨true, true⟩ := by
  decide

/-- hence the full clause for these formats in the current tree -/
theorem close_ok_all_handed_over_current {κ : Type} {cfg : Cfg κ} {enc : List Bytes → Bytes}
    (S : CompSpec cfg.comp enc) {k0 : κ} {os0 : OS} {script : List Api}
    (f : Fmt) (hf : f ∈ [Fmt.opl, Fmt.xml, Fmt.pbf, Fmt.blackhole])
    (h0 : S.Inv k0 os0 []) {s : St κ}
    (hr : (fmtMachine currentTable f cfg k0 os0 script).Reachable s)
    {ib : Option Enc} {eEnd : Enc} {n : Nat}
    (hfl : firstLoud s.results = some (.close ib eEnd, .ok n)) :
    s.pushed = s.written.map Res.data ++ [Res.data []] ∧
    s.os.file = enc s.written ∧ n = s.os.file.length ∧ s.os.faults = 0 :=
  close_ok_all_handed_over_fmt S currentTable f (current_tree_guards f hf) h0 hr hfl

/-! ## The three compressors -/

/-- NoCompressor: a successful close() means the file is byte for byte the concatenation of
    the blocks written, and the returned size is its length. -/
theorem close_ok_implies_complete_none {sync : Bool} {hdr : Enc} {qmax : Nat} {script : List Api}
    {s : St NoState}
    (hr : (machine ⟨noComp, hdr, qmax⟩ { sync := sync } {} script).Reachable s)
    {ib : Option Enc} {eEnd : Enc} {n : Nat}
    (hfl : firstLoud s.results = some (.close ib eEnd, .ok n)) :
    s.os.faults = 0 ∧ s.os.file = s.written.flatten ∧ n = s.os.file.length :=
  let ⟨a, b, c, _⟩ := close_ok_implies_complete (cfg := ⟨noComp, hdr, qmax⟩) noSpec
    ⟨rfl, rfl, rfl, rfl⟩ hr hfl
  ⟨a, b, c⟩

/-- GzipCompressor over ANY zlib satisfying `GzSpec`: n is what `osmium::file_size(fd)`
    reports after gzclose_w, i.e. the length of the compressed file. -/
theorem close_ok_implies_complete_gzip {γ : Type} {L : GzLib γ} {enc : List Bytes → Bytes}
    (G : GzSpec L enc) {g0 : γ} {os0 : OS} (h0 : G.Inv g0 os0 []) {sync : Bool} {hdr : Enc}
    {qmax : Nat} {script : List Api} {s : St (GzState γ)}
    (hr : (machine ⟨gzipComp L, hdr, qmax⟩ { gz := some g0, sync := sync } os0 script).Reachable s)
    {ib : Option Enc} {eEnd : Enc} {n : Nat}
    (hfl : firstLoud s.results = some (.close ib eEnd, .ok n)) :
    s.os.faults = 0 ∧ s.os.file = enc s.written ∧ n = s.os.file.length :=
  let ⟨a, b, c, _⟩ := close_ok_implies_complete (cfg := ⟨gzipComp L, hdr, qmax⟩) (gzipSpec G)
    ⟨g0, rfl, h0⟩ hr hfl
  ⟨a, b, c⟩

/-- Bzip2Compressor over ANY libbz2+stdio satisfying `BzSpec`: n is the library's 64-bit
    `nbytes_out` counter, which the contract ties to the file length. -/
theorem close_ok_implies_complete_bzip2 {β : Type} {L : BzLib β} {enc : List Bytes → Bytes}
    (B : BzSpec L enc) {b0 : β} {os0 : OS} (h0 : B.Inv b0 os0 []) {sync : Bool} {hdr : Enc}
    {qmax : Nat} {script : List Api} {s : St (BzState β)}
    (hr : (machine ⟨bzip2Comp L, hdr, qmax⟩ { bz := some b0, sync := sync } os0 script).Reachable s)
    {ib : Option Enc} {eEnd : Enc} {n : Nat}
    (hfl : firstLoud s.results = some (.close ib eEnd, .ok n)) :
    s.os.faults = 0 ∧ s.os.file = enc s.written ∧ n = s.os.file.length :=
  let ⟨a, b, c, _⟩ := close_ok_implies_complete (cfg := ⟨bzip2Comp L, hdr, qmax⟩) (bzip2Spec B)
    ⟨b0, rfl, h0⟩ hr hfl
  ⟨a, b, c⟩

/-- the contracts are satisfiable: the reference libraries meet them -/
example : GzSpec refGz refEnc := refGzSpec
example : BzSpec refBz refEnc := refBzSpec

/-! ## Concrete runs: non-vacuity, and the clause the current code refutes -/

/-- a block encoded by a pool task -/
def blk (bytes : Bytes) : Item := { res := .data bytes, ready := false }

def demoCfg : Cfg NoState := ⟨noComp, {}, 0⟩

/-- the full statement of "the file contains exactly what was handed over": all data ever
    pushed by the caller's calls (ghost `pushed`) is in the file -/
def CompleteAll (s : St NoState) : Prop :=
  s.os.file = (s.pushed.filterMap fun r => match r with | .data b => some b | .exc _ => none).flatten

instance (s : St NoState) : Decidable (CompleteAll s) := by unfold CompleteAll; infer_instance

def okScript : List Api :=
  [.put none { items := [blk [1, 2]] }, .put none { items := [blk [3]] }, .close none {}, .dtor none {}]

def okRun : St NoState := (runSched demoCfg false 200 (initSt { sync := true } {} okScript)).2

theorem okRun_reachable : (machine demoCfg { sync := true } {} okScript).Reachable okRun :=
  runSched_reachable false 200 _ .init

/-- non-vacuity of `close_ok_implies_complete`: a fault-free run ends destroyed, close()
    returned 3 = the file size, the file is complete -/
example : okRun.destroyed = true ∧ okRun.os.file = [1, 2, 3] ∧ CompleteAll okRun ∧
    firstLoud okRun.results = some (.close none {}, .ok 3) := by decide +kernel

/-- the OS refuses every byte from offset 1 on (ENOSPC = 28), cutting the crossing write -/
def faultOS : OS := { limit := some { off := 1, errno := 28, shortFirst := true, once := false } }

def faultRun (wtFirst : Bool) : St NoState :=
  (runSched demoCfg wtFirst 200 (initSt { sync := true } faultOS okScript)).2

/-- non-vacuity of `any_fault_reported`: with the producer running ahead the exception comes
    out of close(); with an eager write thread it comes out of the second operator() and
    close() then returns 0 — in both schedules the fault is reported, the file is short -/
example : (faultRun false).os.faults > 0 ∧ (faultRun false).os.file = [1] ∧
    (faultRun false).results.map (·.2) = [.ok 0, .ok 0, .raised (.sys 28), .ok 0] := by decide +kernel

example : (faultRun true).os.faults > 0 ∧ (faultRun true).destroyed = true ∧
    (faultRun true).results.map (·.2) = [.ok 0, .raised (.sys 28), .ok 0, .ok 0] := by decide +kernel

/-- an encoder failure in a pool task -/
def encFailScript : List Api :=
  [.put none { items := [{ res := .exc (.enc 7), ready := false }] }, .put none { items := [blk [3]] },
   .close none {}, .dtor none {}]

example : ((runSched demoCfg true 200 (initSt { sync := false } {} encFailScript)).2.results.map (·.2)) =
    [.ok 0, .raised (.enc 7), .ok 0, .ok 0] := by decide +kernel

/-- **The defect of the PRE-FIX writer (documentation; fixed by fb588a3).**  On a raw script —
    i.e. through output formats that submit a block even if it encodes to nothing — a block that encodes to the EMPTY string (a
    buffer holding only objects the format does not write, e.g. an Area handed to an OPL/XML
    Writer) is indistinguishable from the end-of-data marker (queue_util.hpp:89-95,
    write_thread.hpp:89-92): the write thread closes the file, everything handed over later is
    dropped by the shut-down queue, and close() returns normally. -/
def emptyBlockScript : List Api :=
  [.put none { items := [blk [1, 2]] }, .put none { items := [blk []] }, .put none { items := [blk [3]] },
   .close none {}, .dtor none {}]

def emptyBlockRun : St NoState :=
  (runSched demoCfg true 200 (initSt { sync := false } {} emptyBlockScript)).2

theorem emptyBlockRun_reachable :
    (machine demoCfg { sync := false } {} emptyBlockScript).Reachable emptyBlockRun :=
  runSched_reachable true 200 _ .init

/-- the full clause stated for the PRE-FIX writer (raw scripts, `machine`) -/
def PreFixCloseOkMeansAllHandedOver : Prop :=
  ∀ (sync : Bool) (script : List Api) (s : St NoState),
    (machine demoCfg { sync := sync } {} script).Reachable s →
    ∀ ib eEnd n, firstLoud s.results = some (.close ib eEnd, .ok n) → CompleteAll s

/-- … was false: close() returns 2, no exception anywhere, block [3] is lost.  The check keeps
    the two repros as regression probes (`empty-block-ends-output:opl|xml`). -/
theorem prefix_close_ok_all_handed_over_refuted : ¬ PreFixCloseOkMeansAllHandedOver := by
  intro h
  have := h false emptyBlockScript emptyBlockRun emptyBlockRun_reachable none {} 2 (by decide +kernel)
  revert this
  decide +kernel

/-! ### The same clause per guard setting: it holds IFF both paths are guarded

`debug` and `ids` are unguarded on both paths in the tree this file was written against
(`Generated/C08Guards.lean`; finding `empty-block-taken-for-end-marker:debug|ids`, reproduced
on the real code by the check's monitor M3 with the scripts `b2,a1,b2,c` and `b2,j1,f,i2,c`).
Nothing below asserts that they ARE unguarded: once the guard is added (in the formats or in
the Writer) `close_ok_all_handed_over_fmt` applies to them as it stands. -/

/-- the full clause for a Writer with guards `g` (NoCompressor, every header, queue bound,
    script, interleaving) -/
def CloseOkMeansAllHandedOver (g : Guards) : Prop :=
  ∀ (sync : Bool) (hdr : Enc) (qmax : Nat) (script : List Api) (s : St NoState),
    (guardedMachine g ⟨noComp, hdr, qmax⟩ { sync := sync } {} script).Reachable s →
    ∀ ib eEnd n, firstLoud s.results = some (.close ib eEnd, .ok n) →
      CompleteAll s ∧ n = s.os.file.length

/-- an area-only internal buffer handed over by flush() (the do_flush path), then more data -/
def emptyFlushScript : List Api :=
  [.put none { items := [blk [1, 2]] }, .item none, .flush (some { items := [blk []] }),
   .put none { items := [blk [3]] }, .close none {}, .dtor none {}]

def unguardedRun (g : Guards) (script : List Api) : St NoState :=
  (runSched demoCfg.repair true 200 (initSt { sync := false } {} (script.map (Api.guard g)))).2

theorem unguardedRun_reachable (g : Guards) (script : List Api) :
    (guardedMachine g demoCfg { sync := false } {} script).Reachable (unguardedRun g script) :=
  runSched_reachable true 200 _ .init

/-- **close_ok_all_handed_over_iff_guarded**: the clause holds for a Writer exactly when a block
    that encodes to the empty string is kept out of the queue on the do_write path AND on
    the do_flush path.  (⇐ is `close_ok_all_handed_over`; ⇒: with the do_write guard missing
    the script `put [1,2]; put ""; put [3]; close` loses [3], with only the do_flush guard
    missing `put [1,2]; item; flush→""; put [3]; close` does — in both runs close() returns 2
    and nobody throws.) -/
theorem close_ok_all_handed_over_iff_guarded (g : Guards) :
    CloseOkMeansAllHandedOver g ↔ (g.doWrite = true ∧ g.doFlush = true) := by
  constructor
  · intro h
    rcases g with ⟨_ | _, _ | _⟩
    · have := h false {} 0 emptyBlockScript _ (unguardedRun_reachable _ _) none {} 2 (by decide +kernel)
      revert this; decide +kernel
    · have := h false {} 0 emptyBlockScript _ (unguardedRun_reachable _ _) none {} 2 (by decide +kernel)
      revert this; decide +kernel
    · have := h false {} 0 emptyFlushScript _ (unguardedRun_reachable _ _) none {} 2 (by decide +kernel)
      revert this; decide +kernel
    · exact ⟨rfl, rfl⟩
  · rintro ⟨h1, h2⟩
    obtain ⟨w, f⟩ := g
    cases h1; cases h2
    intro sync hdr qmax script s hr ib eEnd n hfl
    rw [guardedMachine_tt] at hr
    exact close_ok_all_handed_over_none hr hfl

/-- the same script through the repaired output formats: the empty block is never submitted,
    the file is complete -/
def repairedEmptyBlockRun : St NoState :=
  (runSched demoCfg.repair true 200 (initSt { sync := false } {} (emptyBlockScript.map Api.repair))).2

example : repairedEmptyBlockRun.os.file = [1, 2, 3] ∧ CompleteAll repairedEmptyBlockRun ∧
    firstLoud repairedEmptyBlockRun.results = some (.close none {}, .ok 3) := by decide +kernel

/-! ## The output queue at lock granularity (Model/WriterSMQ.lean)

The theorems above are about `WriterSM.machine`, where `Queue::push`, `queue_wrapper::pop` and
`Queue::shutdown` are single events.  `WriterSMQ.machine` replaces that queue by a copy of
C19's lock-granular `QueueSM` (unlocked `m_in_use` test, size polling with the 10 ms timed
wait, enqueue + notify_one, wait / wake / re-wait on `m_data_available`, shutdown = flag
store then drain + notify_all).  Every run of it is matched step by step by a run of
`WriterSM.machine` on `abs` (which only forgets the queue internals), so every statement about
reachable states above holds for it; and its queue is a run of `QueueSM.machine`. -/

section lockgranular
open Osmium.WriterSMQ
variable {κ : Type} {cfg : Cfg κ} {sp : Bool} {k0 : κ} {os0 : OS} {script : List Api}

/-- **Refinement** (all schedules of the lock-granular machine, with or without spurious
    wake-ups): the abstraction of a reachable state is reachable in the atomic-queue machine.
    `abs s` has the same `results` (API outcomes), `os` (file, faults), compressor state,
    status, promise and ghost histories `pushed` / `taken` / `written` as `s.base`. -/
theorem lockgranular_refines_atomic {s : FSt κ}
    (hr : (WriterSMQ.machine cfg sp k0 os0 script).Reachable s) :
    (WriterSM.machine cfg k0 os0 script).Reachable (WriterSMQ.abs s) ∧
    (WriterSMQ.abs s).results = s.base.results ∧ (WriterSMQ.abs s).os = s.base.os ∧
    (WriterSMQ.abs s).pushed = s.base.pushed ∧ (WriterSMQ.abs s).written = s.base.written ∧
    (WriterSMQ.abs s).taken = s.base.taken ∧ (WriterSMQ.abs s).status = s.base.status ∧
    (WriterSMQ.abs s).destroyed = s.base.destroyed :=
  ⟨reachable_abs hr, rfl, rfl, rfl, rfl, rfl, rfl, rfl⟩

/-- transfer principle: whatever holds in every reachable state of the atomic-queue machine
    holds of the abstraction of every reachable state of the lock-granular machine -/
theorem lockgranular_transfer {P : St κ → Prop}
    (hP : ∀ s, (WriterSM.machine cfg k0 os0 script).Reachable s → P s) {s : FSt κ}
    (hr : (WriterSMQ.machine cfg sp k0 os0 script).Reachable s) : P (WriterSMQ.abs s) :=
  hP _ (reachable_abs hr)

/-- The output queue of every run is a run of C19's queue machine (max size = the Writer's
    queue bound): `queue_conservation`, `per_producer_fifo`, `no_lost_wakeup`,
    `blocked_consumer_can_progress`, `shutdown_wakes_all` of Props/C19 apply to it as they stand. -/
theorem lockgranular_queue_is_QueueSM {s : FSt κ}
    (hr : (WriterSMQ.machine cfg sp k0 os0 script).Reachable s) :
    (QueueSM.machine Nat { max := cfg.qmax, spurious := sp }).Reachable s.qs :=
  reachable_queue hr

/-- **close_ok_implies_complete at lock granularity** (any compressor meeting its contract) -/
theorem close_ok_implies_complete_lockgranular {enc : List Bytes → Bytes}
    (S : CompSpec cfg.comp enc) (h0 : S.Inv k0 os0 []) {s : FSt κ}
    (hr : (WriterSMQ.machine cfg sp k0 os0 script).Reachable s)
    {ib : Option Enc} {eEnd : Enc} {n : Nat}
    (hfl : firstLoud s.base.results = some (.close ib eEnd, .ok n)) :
    s.base.os.faults = 0 ∧ s.base.os.file = enc s.base.written ∧ n = s.base.os.file.length ∧
    ∃ tail, s.base.pushed = s.base.written.map Res.data ++ Res.data [] :: tail :=
  close_ok_implies_complete S h0 (reachable_abs hr) hfl

/-- **close_ok_all_handed_over at lock granularity**: the full clause for a Writer guarded on
    both paths (OPL / XML / PBF / blackhole in the current tree) -/
theorem close_ok_all_handed_over_lockgranular {enc : List Bytes → Bytes}
    (S : CompSpec cfg.comp enc) (h0 : S.Inv k0 os0 []) {s : FSt κ}
    (hr : (WriterSMQ.machine cfg.repair sp k0 os0 (script.map Api.repair)).Reachable s)
    {ib : Option Enc} {eEnd : Enc} {n : Nat}
    (hfl : firstLoud s.base.results = some (.close ib eEnd, .ok n)) :
    s.base.pushed = s.base.written.map Res.data ++ [Res.data []] ∧
    s.base.os.file = enc s.base.written ∧ n = s.base.os.file.length ∧ s.base.os.faults = 0 :=
  close_ok_all_handed_over (script := script) S h0 (reachable_abs hr) hfl

/-- any fault is reported, at lock granularity -/
theorem any_fault_reported_lockgranular {enc : List Bytes → Bytes}
    (S : CompSpec cfg.comp enc) (h0 : S.Inv k0 os0 []) {s : FSt κ}
    (hr : (WriterSMQ.machine cfg sp k0 os0 script).Reachable s) (hf : s.base.os.faults > 0)
    {ib : Option Enc} {eEnd : Enc} {n : Nat} :
    firstLoud s.base.results ≠ some (.close ib eEnd, .ok n) :=
  any_fault_reported S h0 (reachable_abs hr) hf

/-- an exception leaves the Writer in error/closed state, at lock granularity -/
theorem raised_means_error_state_lockgranular {enc : List Bytes → Bytes}
    (S : CompSpec cfg.comp enc) (h0 : S.Inv k0 os0 []) (hd : ∃ ib e, Api.dtor ib e ∈ script)
    {s : FSt κ} (hr : (WriterSMQ.machine cfg sp k0 os0 script).Reachable s) {a : Api} {e : Err}
    (hm : (a, Outcome.raised e) ∈ s.base.results) : s.base.status ≠ .okay :=
  raised_means_error_state (s := WriterSMQ.abs s) S h0 hd (reachable_abs hr) hm

end lockgranular

/-- non-vacuity: the lock-granular machine (no spurious wake-ups, queue bound 2) runs `okScript`
    to the end — the write thread really sleeps on the condition variable and is woken by
    notify_one — with the complete file -/
def okRunQ (wtFirst : Bool) (qmax : Nat) : WriterSMQ.FSt NoState :=
  (WriterSMQ.runSchedF ⟨noComp, {}, qmax⟩ false wtFirst 400 (WriterSMQ.initF { sync := true } {} okScript)).2

theorem okRunQ_reachable (b : Bool) (qmax : Nat) :
    (WriterSMQ.machine ⟨noComp, {}, qmax⟩ false { sync := true } {} okScript).Reachable (okRunQ b qmax) :=
  WriterSMQ.runSchedF_reachable b 400 _ .init

example : (okRunQ true 2).base.destroyed = true := by decide +kernel
example : (okRunQ true 2).base.os.file = [1, 2, 3] := by decide +kernel
example : firstLoud (okRunQ true 2).base.results = some (.close none {}, .ok 3) := by decide +kernel
example : (okRunQ true 2).qs.waiters = [] ∧ (okRunQ true 2).qs.popped.length = 3 := by decide +kernel

/-- producer first, unbounded queue (with a bound the unfair scheduler would let the producer
    poll the full queue forever: progress of the polling loop needs a fair scheduler) -/
example : (okRunQ false 0).base.destroyed = true ∧ (okRunQ false 0).base.os.file = [1, 2, 3] := by
  decide +kernel

/-- Tie of `reliable_write`'s chunk limit to the CURRENT source (regenerated `Generated/Consts.lean`). -/
theorem consts_tie_writer : maxWrite = Osmium.Generated.Consts.maxWrite := by decide

end Osmium.C08
