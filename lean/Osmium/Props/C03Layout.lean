/-
C03 (layout part) — every delivered object can be traversed completely without leaving the buffer
that holds it.

Models: `Osmium.Layout` (Model/Layout.lean, C04): byte-level in-buffer item layout; its decoders
ARE the traversals the library offers, with every pointer the C++ iterators compute checked against
the end of the enclosing item first — `ItemIterator` / sub-items (`decodeItems`), `OSMObject::user`
(`cstr`), `CollectionIterator<Tag>` via two `after_null`s (`decodeTags`), node refs
(`decodeNodeRefs`), `RelationMember::next` incl. full members (`decodeMembers`),
`ChangesetComment::next` / `user` / `text` (`decodeComments`); a read that would leave the item is
the outcome `oob`.  `Layout.WF b` = the whole committed region `b` decodes without `oob`.
`Osmium.HostileLayout` (Model/HostileLayout.lean): `build fill o` = the bytes the builders write for
the call sequence `o` (byte-identical to the real builders: hostile tier op `lay`, and to the C04
buffer model: `script_build_examples`), `Guards`.

All models are total functions accepted by Lean's termination checker (structural recursion on
fuel / lists), so "never loops forever" holds of the models by construction; the loops whose
progress depends on the environment are outside: `reliable_write` retrying a 0-byte `write`, the
queue waits of the reader threads (C19), and expat / zlib / libbz2 internal loops.
-/
import Osmium.Lemmas.HostileLayout
import Osmium.Lemmas.HostileGuards

namespace Osmium.HostileLayout.C03

open Osmium.Layout Osmium.HostileLayout

/-! ### WF ⇒ every traversal stays inside -/

/-- A well-formed committed region can be traversed completely: the item walk and, nested in it,
    every collection walk the library offers return content (`ok`), never `oob`; and the region is
    8-byte aligned (what `Buffer::commit` asserts).  [`WF` is DEFINED through the bounds-checked
    traversals, so this direction is an unfolding; the content is in `builders_produce_wf_partial`
    (which layouts are WF) and in the witnesses below (which are not).] -/
theorem wf_traverse_in_bounds (b : Bytes) (h : WF b = true) :
    (∃ ts, decodeAll b = .ok ts) ∧ decodeAll b ≠ .error .oob ∧ b.length % 8 = 0 := by
  unfold WF at h
  cases hd : decodeAll b with
  | error e => rw [hd] at h; simp at h
  | ok ts =>
    rw [hd] at h
    refine ⟨⟨ts, rfl⟩, by simp, ?_⟩
    simpa using h

/-- Bool test for the `oob` outcome (`Tree` has no decidable equality) -/
def isOob {α : Type} : Except DErr α → Bool
  | .error .oob => true
  | _ => false

theorem eq_oob_of_isOob {α : Type} (x : Except DErr α) (h : isOob x = true) : x = .error .oob := by
  cases x with
  | ok a => simp [isOob] at h
  | error e => cases e <;> simp [isOob] at h ⊢

/-- and conversely a region whose traversal leaves an item is not WF -/
theorem oob_not_wf (b : Bytes) (h : decodeAll b = .error .oob) : WF b = false := by
  unfold WF; rw [h]

/-! ### the builders as producers of layouts -/

/-- what the builders themselves CHECK (std::length_error otherwise) plus what their constructors
    guarantee — and nothing else -/
structure BuilderChecks (o : ObjS) : Prop where
  fixedLen : o.fixed.length = o.kind.sizeT - 8
  lengths : ∀ s ∈ o.subs, s.lengthsOk = true

/-- THE FULL STATEMENT one would like: whatever passes the builders' own checks can be traversed. -/
def BuildersProduceWF : Prop := ∀ (fill : UInt8) (o : ObjS), BuilderChecks o → WF (build fill o) = true

/-- F13a witness: a node with the tag key "a\0b" (what the PBF decoder passes on for a string-table
    entry with an embedded NUL). -/
def witnessNulKey : ObjS :=
  { kind := .node, fixed := ctorFixed .node, user := [], subs := [.tags [([97, 0, 98], [118])]] }

/-- F13b witness: a changeset whose discussion holds a comment without text (what the XML reader
    built for `<comment …/>` before repair 5690f83). -/
def witnessNoText : ObjS :=
  { kind := .changeset, fixed := ctorFixed .changeset, user := [97], subs := [.discussion [⟨1, 2, [117], none⟩]] }

/-- API misuse that remains possible (but that no reader of the library issues): a text-less
    comment FOLLOWED by another `add_comment` — assertion in debug builds, unpadded comment with
    NDEBUG. -/
def witnessNoTextMiddle : ObjS :=
  { kind := .changeset, fixed := ctorFixed .changeset, user := [97],
    subs := [.discussion [⟨1, 2, [117], none⟩, ⟨3, 4, [118], some [116]⟩]] }

theorem witnessNulKey_passes_builder_checks : BuilderChecks witnessNulKey :=
  ⟨by decide, by decide⟩

theorem witnessNoText_passes_builder_checks : BuilderChecks witnessNoText :=
  ⟨by decide, by decide⟩

/-- F13a in the model: `Tag::next()` desynchronises, the tag walk runs past the end of the list. -/
theorem f13a_nul_in_tag_key_traverse_oob : decodeAll (build 0 witnessNulKey) = .error .oob :=
  eq_oob_of_isOob _ (by decide +kernel)

/-- F13b BEFORE repair 5690f83 (regression documentation): the pending comment stayed without
    text and padding, its `next()` lies behind the end of the discussion. -/
theorem f13b_prefix_comment_without_text_traverse_oob : decodeAll (Pre.build 0 witnessNoText) = .error .oob :=
  eq_oob_of_isOob _ (by decide +kernel)

/-- F13b NOW: the builder's destructor finishes the pending comment with an empty text; the
    changeset is well-formed, satisfies `Guards` and is traversed completely. -/
theorem f13b_comment_without_text_now_wf :
    WF (build 0 witnessNoText) = true ∧ Guards 0 witnessNoText ∧
    build 0 witnessNoText = build 0 { witnessNoText with subs := [.discussion [⟨1, 2, [117], some []⟩]] } :=
  ⟨by decide +kernel, by decide, by decide +kernel⟩

/-- the remaining API misuse still breaks the layout (NDEBUG) -/
theorem comment_without_text_in_the_middle_traverse_oob :
    BuilderChecks witnessNoTextMiddle ∧ decodeAll (build 0 witnessNoTextMiddle) = .error .oob :=
  ⟨⟨by decide, by decide⟩, eq_oob_of_isOob _ (by decide +kernel)⟩

/-- The builder-level full statement is FALSE: the builders' own checks do not include "no NUL in
    tag keys / values" (nor "every comment but the last has a text").  These guards are
    established by the READERS: PBF — `pbf_decoded_objects_wf` (Props/C03Pbf.lean, full since the
    string table rejects NUL: da64936); XML / OPL / o5m hand `const char*` / std::string pieces cut
    at the first NUL to `add_tag` (the o5m decoder walks to the NUL itself: `O5m.walkPost`), and the
    XML reader keeps the discussion protocol since 5690f83 (Props/C03Text.lean). -/
theorem builders_produce_wf_refuted : ¬ BuildersProduceWF := by
  intro h
  have := h 0 witnessNulKey witnessNulKey_passes_builder_checks
  rw [oob_not_wf _ f13a_nul_in_tag_key_traverse_oob] at this
  exact Bool.noConfusion this

/-- `builders_produce_wf`, under the guards the proof forces (`Guards` = the builders' length checks
    PLUS: tag keys/values NUL-free, every `add_comment` but the last of a block followed by
    `add_comment_text` (the destructor finishes the last one), item smaller than 4 GiB; for the exact
    read-back also the other strings NUL-free): the built object is well-formed.  `_partial` because
    of these extra hypotheses on the builder calls — see `builders_produce_wf_refuted`. -/
theorem builders_produce_wf_partial (fill : UInt8) (o : ObjS) (g : Guards fill o) : WF (build fill o) = true := by
  obtain ⟨fields, hd⟩ := decodeAll_build fill o g
  unfold WF
  rw [hd]
  simpa using build_length_mod fill o g

/-- … and its complete traversal delivers exactly what the builder calls put in: the user name and,
    per sub-builder block, all tags / node references / members with roles / comments with user and
    text (nothing is cut short, nothing foreign is read). -/
theorem builders_traverse_complete (fill : UInt8) (o : ObjS) (g : Guards fill o) :
    ∃ fields, decodeAll (build fill o) = .ok [.mk o.kind.ty false fields [o.user] (o.subs.map subTree)] :=
  decodeAll_build fill o g

/-- … wherever the buffer has to grow or move while the builders run: for every initial capacity
    and both auto-grow modes (`yes`: reallocation, `internal`: the parsers' mode — committed items are
    handed over in a nested buffer and the open item moves to fresh memory), the script of builder
    calls for an object that satisfies `Guards` runs to its end and commits exactly `build fill o`
    (C04's bridge, `Lemmas/BufBridge.lean: run_script`), which is well-formed.  This is the model-level
    statement behind the small-buffer streams of the hostile tier (parser buffers starting at 64 … 200
    bytes must deliver the same objects as the 64 KiB / 1 MiB ones). -/
theorem guarded_script_commits_wf (o : ObjS) (fill : UInt8) (g : Guards fill o) (hf : o.fixed = ctorFixed o.kind)
    (c c1 : Nat) (m m1 : Buf.Mode) (hm : m ≠ .no) :
    (Buf.run (Buf.St.init c m c1 m1 fill true) (script o)).dead = none ∧
    (Buf.run (Buf.St.init c m c1 m1 fill true) (script o)).b0.done = build fill o ∧
    WF (Buf.run (Buf.St.init c m c1 m1 fill true) (script o)).b0.done = true := by
  obtain ⟨h1, h2⟩ := guards_script_commits o fill g hf c c1 m m1 hm
  exact ⟨h1, h2, h2 ▸ (guards_wf fill o g).1⟩

/-- non-vacuity: a changeset with a 8-byte user name, a discussion with two complete comments and a
    tag list satisfies `Guards` -/
def exampleOk : ObjS :=
  { kind := .changeset, fixed := ctorFixed .changeset, user := [97, 98, 99, 100, 101, 102, 103, 104],
    subs := [.discussion [⟨1, 2, [117], some [116, 116]⟩, ⟨3, 4, [], some []⟩], .tags [([107], [118])]] }

example : Guards 190 exampleOk := by decide
example : exampleOk.fixed = ctorFixed exampleOk.kind := rfl
example : ¬ Guards 0 witnessNulKey := by decide
example : Guards 0 witnessNoText := by decide
example : ¬ Guards 0 witnessNoTextMiddle := by decide

/-- The guard "no NUL in roles / user names" is NOT needed for in-bounds traversal (those strings are
    delimited by their size fields; the walk only reads a shorter C string): witness. -/
theorem nul_in_role_still_wf :
    WF (build 0 { kind := .relation, fixed := ctorFixed .relation, user := [117, 0, 120],
                  subs := [.members [⟨1, 5, [114, 0, 120]⟩]] }) = true := by
  decide +kernel

/-- F13c BEFORE repair bc6b907 (regression documentation; `set_user` now throws std::length_error
    beyond 1024 bytes — Model/OplFmt.lean `setUserCheck`, Model/XmlFmt.lean `initObject`): `set_user`
    with 65535 bytes left user_size = 0 (16-bit wrap) … -/
theorem f13c_user_size_wraps :
    Layout.leBytes ((List.replicate 65535 (117 : UInt8)).length + 1) 2 = [0, 0] := by
  decide +kernel

/-- a well-formed node with a 7-byte user name and one tag -/
def cleanNode : ObjS :=
  { kind := .node, fixed := ctorFixed .node, user := [97, 98, 99, 100, 101, 102, 103], subs := [.tags [([107], [118])]] }

example : Guards 0 cleanNode := by decide

/-- … so the sub-items are looked for inside the user name: the same well-formed node with its
    user_size field (offset 40) forced to the wrapped value 0 cannot be traversed in bounds.  (The
    65535-byte input itself is replayed on the real reader by the hostile tier,
    corpus/C03/xml_findings.ops, opl_findings.ops.) -/
theorem f13c_user_size_zero_traverse_oob :
    WF (build 0 cleanNode) = true ∧
    decodeAll (Layout.writeAt (build 0 cleanNode) 40 [0, 0]) = .error .oob :=
  ⟨by decide +kernel, eq_oob_of_isOob _ (by decide +kernel)⟩

/-! ### `build` is what the C04 buffer model computes for the same call sequence -/

/-- the byte strings agree on the examples (all five object kinds' code paths); the hostile tier
    compares `build` with the REAL builders on random scripts every run (incl. scripts whose last
    comment has no text) -/
theorem script_build_examples :
    (runScript 190 exampleOk).1 = build 190 exampleOk ∧ (runScript 190 exampleOk).2 = none ∧
    (runScript 190 witnessNulKey).1 = build 190 witnessNulKey ∧
    (runScript 7 { kind := .way, fixed := ctorFixed .way, user := [97, 98, 99, 100, 101],
                   subs := [.nodes tyWayNodeList [⟨1, 2, 3⟩, ⟨-1, -2, -3⟩], .tags [([107], [])]] }).1 =
      build 7 { kind := .way, fixed := ctorFixed .way, user := [97, 98, 99, 100, 101],
                subs := [.nodes tyWayNodeList [⟨1, 2, 3⟩, ⟨-1, -2, -3⟩], .tags [([107], [])]] } ∧
    (runScript 7 { kind := .relation, fixed := ctorFixed .relation, user := [],
                   subs := [.members [⟨1, 5, [114, 111]⟩, ⟨2, -7, []⟩]] }).1 =
      build 7 { kind := .relation, fixed := ctorFixed .relation, user := [],
                subs := [.members [⟨1, 5, [114, 111]⟩, ⟨2, -7, []⟩]] } := by
  decide +kernel

end Osmium.HostileLayout.C03
