/-
C14 — Text-format string escaping is injective and exactly undone by the parsers.

Property theorems only (helper lemmas live in Osmium/Lemmas/{Utf8,Escape}.lean).  The
pass-through table of the OPL writer and the entity table of the XML writer are regenerated
from the compiled source on every run (Osmium/Generated/C14Tables.lean); the theorems
`opl_pass_table_safe` and `xml_tables_ok` decide the table conditions every other theorem
is lifted from.

One clause of the property is REFUTED by the current code (reproduced on the real functions
by harness/c14.cpp):
* XML: characters that are not XML `Char`s (C0 controls other than TAB/LF/CR, U+FFFE,
  U+FFFF) are written literally; no XML parser accepts the document
  (`xml_roundtrip_refuted`); proved for all strings of XML `Char`s (`…_partial`).
(The OPL clauses were refuted on U+100000..U+10FFFF until `append_min_4_hex_digits` was
repaired in /repo commit b6cf5c9; they are now proved at full strength.)
-/
import Osmium.Lemmas.Escape
import Osmium.Generated.Src
import Osmium.Lemmas.SrcTieUtf8
import Osmium.Lemmas.SrcTieEscStr
import Osmium.Lemmas.SrcTieHex
import Osmium.Lemmas.SrcTieEnc

namespace Osmium.C14

open Osmium.Utf8

/-- strings of Unicode scalar values other than NUL -/
abbrev ScalarStr (s : List Nat) : Prop := ∀ c ∈ s, IsScalar c

/-! ### UTF-8 -/

/-- `next_utf8_codepoint` undoes `append_codepoint_as_utf8` for every scalar value, in any
    context, and advances by exactly the encoded length. -/
theorem utf8_decode_encode (c : Nat) (h : IsScalar c) (rest : List UInt8) :
    next (encode c ++ rest) = .ok (c, (encode c).length) :=
  next_encode c (scalar_lt h) rest

example : IsScalar 0x1f680 := by decide

theorem utf8_string_decode_encode (s : List Nat) (hs : ScalarStr s) :
    decodeStr (encodeStr s) = .ok s :=
  decodeStr_encodeStr s (fun c hc => scalar_lt (hs c hc))

/-- distinct strings of scalar values have distinct UTF-8 encodings -/
theorem utf8_encode_injective (s₁ s₂ : List Nat) (h₁ : ScalarStr s₁) (h₂ : ScalarStr s₂)
    (h : encodeStr s₁ = encodeStr s₂) : s₁ = s₂ := by
  have e₁ := utf8_string_decode_encode s₁ h₁
  have e₂ := utf8_string_decode_encode s₂ h₂
  rw [h, e₂] at e₁
  exact (Except.ok.inj e₁).symm

/-! ### OPL -/

/-- The regenerated pass-through table contains none of NUL, TAB, LF, CR, space, ',', '=',
    '@', '%'.  (Complete finite check of the table, kernel-evaluated.) -/
theorem opl_pass_table_safe : Opl.passSafe = true := by decide +kernel

/-- On the UTF-8 encoding of a string of scalar values the writer's escaping function does
    not throw and escapes code point by code point. -/
theorem opl_escape_per_codepoint (s : List Nat) (hs : ScalarStr s) :
    Opl.escape (encodeStr s) = .ok (Opl.escapeStr s) :=
  Opl.escape_encodeStr s (fun c hc => scalar_lt (hs c hc))

/-- The escaped form contains no structural character (NUL, TAB, LF, CR, space, comma,
    equals, at-sign) … -/
theorem opl_no_structural (s : List Nat) (hs : ScalarStr s) :
    ∃ e, Opl.escape (encodeStr s) = .ok e ∧ ∀ b ∈ e, b.toNat ∉ Opl.structural := by
  refine ⟨_, opl_escape_per_codepoint s hs, ?_⟩
  intro b hb
  simp only [Opl.escapeStr, List.mem_flatMap] at hb
  obtain ⟨c, hc, hb⟩ := hb
  exact Opl.escapeCp_no_structural opl_pass_table_safe c (scalar_lt (hs c hc)) b hb

/-- … and a '%' only as the two delimiters of `%hex-digits%`: every code point is either
    copied (and its bytes contain no '%') or written as '%', at least one lower-case hex
    digit, '%'. -/
theorem opl_percent_only_delimits (c : Nat) (h : IsScalar c) :
    (Opl.escapeCp c = encode c ∧ ∀ b ∈ encode c, b ≠ 0x25) ∨
    (∃ d, Opl.escapeCp c = 0x25 :: (d ++ [0x25]) ∧ d ≠ [] ∧ ∀ b ∈ d, ∃ n, n < 16 ∧ b = Opl.hexDigit n) := by
  by_cases hp : Opl.pass c = true
  · left
    refine ⟨by simp [Opl.escapeCp, Opl.piece, hp], fun b hb => ?_⟩
    exact (Opl.encode_safe_of_pass opl_pass_table_safe c (scalar_lt h) hp b hb).ne_pct
  · right
    have : Opl.escapeCp c = Opl.escaped c := by simp [Opl.escapeCp, Opl.piece, hp]
    rw [this]
    exact Opl.escaped_shape c

/-- Round trip, full strength: for every string of scalar values U+0001..U+10FFFF, in front
    of every delimiter the parser can meet (end of string, space, tab, ',', '='),
    `opl_parse_string` applied to the escaped form returns exactly the original bytes and
    stops exactly at the delimiter. -/
theorem opl_roundtrip (s : List Nat) (hs : ScalarStr s) (t : List UInt8) (ht : Opl.AtStop t) :
    ∃ e, Opl.escape (encodeStr s) = .ok e ∧ Opl.parseString (e ++ t) = .ok (encodeStr s, t) :=
  ⟨_, opl_escape_per_codepoint s hs,
    Opl.parseStringLoop_escapeStr opl_pass_table_safe s (fun c hc => ⟨(hs c hc).1, (hs c hc).2.1⟩) t ht _
      (by omega)⟩

example : ScalarStr [0x41, 0x20, 0x3d, 0x25, 0xe9, 0x20ac, 0x1f680, 0x100000, 0x10ffff] := by decide
example : Opl.AtStop [0x2c, 0x41] := Or.inr ⟨_, _, rfl, by decide⟩

/-- Injectivity, full strength: distinct strings of scalar values have distinct escaped
    forms (corollary of the round trip). -/
theorem opl_injective (s₁ s₂ : List Nat) (h₁ : ScalarStr s₁) (h₂ : ScalarStr s₂)
    (h : Opl.escape (encodeStr s₁) = Opl.escape (encodeStr s₂)) : s₁ = s₂ := by
  obtain ⟨e₁, he₁, hp₁⟩ := opl_roundtrip s₁ h₁ [] (Or.inl rfl)
  obtain ⟨e₂, he₂, hp₂⟩ := opl_roundtrip s₂ h₂ [] (Or.inl rfl)
  rw [h, he₂] at he₁
  have := Except.ok.inj he₁
  subst this
  rw [hp₂] at hp₁
  have := Except.ok.inj hp₁
  exact (utf8_encode_injective s₁ s₂ h₁ h₂ (congrArg Prod.fst this).symm)

/-! ### XML -/

/-- The regenerated entity table: keys and replacements are ASCII; every replacement is a
    reference `&…;` that denotes the replaced byte under the expat contract; every markup,
    quote, TAB/LF/CR character and '&' has a replacement; no replacement contains a
    structural character.  (Complete finite check of the table, kernel-evaluated.) -/
theorem xml_tables_ok : Xml.tableAscii = true ∧ Xml.tableRefs = true ∧ Xml.tableCovers = true ∧
    Xml.tableClean = true := by decide +kernel

/-- strings of XML 1.0 `Char`s -/
abbrev XmlCharStr (s : List Nat) : Prop := ∀ c ∈ s, Xml.charOk c = true

/-- FULL STATEMENT of the round-trip clause for XML: the attribute value a conforming
    parser (expat contract) reports for the escaped form is the original string. -/
def XmlRoundtrip : Prop :=
  ∀ s, ScalarStr s → Xml.unescapeAttr (Xml.escape (encodeStr s)) = some (encodeStr s)

/-- Refuted: U+0001 is a scalar value, is written literally, and is not an XML `Char`. -/
theorem xml_roundtrip_refuted : ¬ XmlRoundtrip := by
  intro h
  have := h [1] (by intro c hc; simp at hc; subst hc; decide)
  revert this
  decide +kernel

/-- … and holds for every string of XML `Char`s (every scalar value except the C0 controls
    other than TAB/LF/CR, U+FFFE and U+FFFF). -/
theorem xml_roundtrip_partial (s : List Nat) (hs : XmlCharStr s) :
    Xml.unescapeAttr (Xml.escape (encodeStr s)) = some (encodeStr s) :=
  Xml.unescapeBytes_escape Xml.charOk (by decide) xml_tables_ok.1 xml_tables_ok.2.1 xml_tables_ok.2.2.1
    s hs (fun c hc => Xml.charOk_lt c (hs c hc))

example : XmlCharStr [0x41, 0x26, 0x3c, 0x22, 0x0a, 0x09, 0xe9, 0x20ac, 0x10ffff] := by decide

/-- Whatever bytes a string contains, its XML-escaped form contains none of TAB, LF, CR,
    '"', ''', '<', '>' … -/
theorem xml_no_structural (bs : List UInt8) : ∀ b ∈ Xml.escape bs, b.toNat ∉ Xml.structural :=
  Xml.escape_no_structural xml_tables_ok.1 xml_tables_ok.2.2.1 xml_tables_ok.2.2.2 bs

/-- … and a '&' is never copied literally (it only occurs as the start of a reference). -/
theorem xml_amp_always_escaped (b : UInt8) (h : Xml.escapeByte b = [b]) : b.toNat ≠ 0x26 :=
  Xml.escape_amp xml_tables_ok.2.2.1 b h xml_tables_ok.2.1

/-- Distinct strings of scalar values have distinct XML-escaped forms (full strength: the
    lenient reader, which does not reject non-`Char`s, is a left inverse on all of them). -/
theorem xml_injective (s₁ s₂ : List Nat) (h₁ : ScalarStr s₁) (h₂ : ScalarStr s₂)
    (h : Xml.escape (encodeStr s₁) = Xml.escape (encodeStr s₂)) : s₁ = s₂ := by
  have r := fun s (hs : ScalarStr s) =>
    Xml.unescapeBytes_escape (fun _ => true) rfl xml_tables_ok.1 xml_tables_ok.2.1 xml_tables_ok.2.2.1
      s (fun _ _ => rfl) (fun c hc => scalar_lt (hs c hc))
  have e₁ := r s₁ h₁
  rw [h, r s₂ h₂] at e₁
  exact (utf8_encode_injective s₁ s₂ h₁ h₂ (Option.some.inj e₁).symm)

/-! ### cursor statements: no read beyond the terminating NUL; truncated sequences throw -/

/-- Whatever bytes the string contains, `next_utf8_codepoint` called with
    `end = begin + strlen(begin)` never reads beyond the terminating NUL … -/
theorem no_read_past_nul_next (bs : List UInt8) : next bs ≠ .error .oob :=
  Opl.next_ne_oob bs

/-- … and neither does the whole escaping loop (which also terminates within
    `strlen + 1` iterations). -/
theorem no_read_past_nul (bs : List UInt8) : Opl.escape bs ≠ .error .oob :=
  Opl.escapeLoop_ne_oob _ bs (by omega)

/-- A sequence cut off at the end of the string — a lead byte announcing more bytes than
    are left — after any well-formed prefix is reported with the `out_of_range` exception. -/
theorem truncated_sequence_throws (s : List Nat) (hs : ScalarStr s) (b0 : UInt8) (tail : List UInt8)
    (h : (b0 :: tail).length < seqLen b0.toNat) :
    Opl.escape (encodeStr s ++ b0 :: tail) = .error .incomplete :=
  Opl.escapeLoop_truncated s (fun c hc => scalar_lt (hs c hc)) b0 tail h _ (by omega)

example : ([0xe2, 0x82] : List UInt8).length < seqLen (0xe2 : UInt8).toNat := by decide

/-- Every proper, non-empty prefix of the encoding of a scalar value is such a cut-off
    sequence. -/
theorem truncated_codepoint_throws (s : List Nat) (hs : ScalarStr s) (c k : Nat) (hc : IsScalar c)
    (hk : 0 < k) (hk2 : k < (encode c).length) :
    Opl.escape (encodeStr s ++ (encode c).take k) = .error .incomplete := by
  obtain ⟨b0, tl, he, hl⟩ := seqLen_head_encode c (scalar_lt hc)
  rw [he] at hk2 ⊢
  cases k with
  | zero => omega
  | succ k =>
    rw [List.take_succ_cons]
    apply truncated_sequence_throws s hs
    rw [hl]
    simp only [List.length_cons, List.length_take] at hk2 ⊢
    omega

/-! ## Source ties: translated C++ = model

`tools/cxx2lean.py` regenerates `Osmium/Generated/Src.lean` from /repo's source on every run; the theorems below
state that the TRANSLATED function is the model function the theorems above are about. -/
section SrcTies
open Osmium.Generated Osmium.CxxSem

/-- `io::detail::next_utf8_codepoint(&begin, end)` (io/detail/string_util.hpp; with its `utf8_sequence_length`),
    called as its callers call it (`end = begin + strlen(begin)`: the array is `s ++ 0 :: t`, `*begin` the index `i`,
    `end` the index `s.length`), for EVERY byte string and start position: the code point and the new `*begin` are the
    model's `Utf8.next` on the suffix, an invalid lead byte is `std::runtime_error`, a truncated sequence
    `std::out_of_range` (both with `*begin` left alone), and the execution has no undefined behaviour — a continuation
    byte is only read after the distance check, so never behind the NUL (the model's `.oob` outcome does not occur). -/
theorem src_tie_next_utf8_codepoint (s t : List UInt8) (i : Nat) (hi : i ≤ s.length) :
    Src.StringUtil.next_utf8_codepoint (s ++ 0 :: t) i s.length =
      (match Utf8.next (s.drop i) with
       | .ok (cp, n) => .normal ((i + n : Nat) : Int) (cp : Int)
       | .error .invalid => .thrown "std::runtime_error" (i : Int)
       | .error .incomplete => .thrown "std::out_of_range" (i : Int)
       | .error .oob => .nofuel) ∧
    Src.StringUtil.next_utf8_codepoint_defined (s ++ 0 :: t) i s.length = true ∧
    Utf8.next (s.drop i) ≠ .error .oob := by
  obtain ⟨h1, h2, h3⟩ := SrcTie.Utf8T.src_tie_next_utf8_codepoint_main s t i hi
  refine ⟨?_, h2, h3⟩
  rw [h1]
  cases Utf8.next (s.drop i) with
  | ok p => rfl
  | error e => cases e <;> rfl

/-- `utf8_sequence_length` = `seqLen` on every byte -/
theorem src_tie_utf8_sequence_length (n : Nat) (h : n < 256) :
    Src.StringUtil.utf8_sequence_length (n : Int) = ((Utf8.seqLen n : Nat) : Int) :=
  (SrcTie.Utf8T.src_tie_utf8_sequence_length n h).1

-- the translated decoder runs: "€" (e2 82 ac) is U+20AC, three bytes; a lone e2 is truncated
example : Src.StringUtil.next_utf8_codepoint ([0xe2, 0x82, 0xac] ++ 0 :: []) 0 3 = .normal 3 0x20ac := by decide +kernel
example : Src.StringUtil.next_utf8_codepoint ([0xe2] ++ 0 :: []) 0 1 = .thrown "std::out_of_range" 0 := by decide +kernel

/-! ### the OPL un-escaping path (functions that BUILD A STRING: the output string is a byte list in the state) -/

/-- `io::detail::append_codepoint_as_utf8(cp, std::back_inserter(result))` (io/detail/string_util.hpp; the instantiation
    `opl_parse_escaped` uses) appends exactly the model's `Utf8.encode cp` for EVERY `uint32_t` value, without undefined
    behaviour. -/
theorem src_tie_append_codepoint_as_utf8 (cp : Nat) (out : List UInt8) :
    Src.StringUtil.append_codepoint_as_utf8 (cp : Int) out = .normal (out ++ Utf8.encode cp) () ∧
    Src.StringUtil.append_codepoint_as_utf8_defined (cp : Int) out = true :=
  SrcTie.Esc.src_tie_append_codepoint_as_utf8 cp out

/-- `io::detail::opl_parse_escaped(&s, result)` (io/detail/opl_parser_functions.hpp) for EVERY NUL-terminated byte
    string, start position and contents of `result` (the array is `s ++ 0 :: t`, `*data` the index `i`): it behaves as
    the model's `Opl.parseEscaped 8 0` on the suffix — at most eight hex digits, then '%': the cursor cell ends up behind
    the '%' and `result` has the UTF-8 encoding of the value appended, a literal '%' when the value is 0; otherwise
    (`eol`, `not a hex char`, `hex escape too long`) `opl_error` is thrown with the cell and the string untouched — and
    the execution has no undefined behaviour (no read behind the NUL).  Any fuel ≥ 9 suffices. -/
theorem src_tie_opl_parse_escaped (s t : List UInt8) (i : Nat) (hi : i ≤ s.length) (result : List UInt8) (fuel : Nat)
    (hf : 9 ≤ fuel) :
    (match Opl.parseEscaped 8 0 (s.drop i) with
     | .ok (p, rest) => ∃ j, i < j ∧ j ≤ s.length ∧ rest = s.drop j ∧
         Src.OplParserFunctions.opl_parse_escaped fuel (s ++ 0 :: t) i result = .normal ((j : Int), result ++ p) ()
     | .error _ =>
         Src.OplParserFunctions.opl_parse_escaped fuel (s ++ 0 :: t) i result = .thrown "osmium::opl_error" ((i : Int), result)) ∧
    Src.OplParserFunctions.opl_parse_escaped_defined fuel (s ++ 0 :: t) i result = true := by
  obtain ⟨h1, h2⟩ := SrcTie.Esc.src_tie_opl_parse_escaped_main s t i hi result fuel hf
  refine ⟨?_, h2⟩
  cases hm : Opl.parseEscaped 8 0 (s.drop i) with
  | ok q => obtain ⟨p, rest⟩ := q; rw [hm] at h1; exact h1
  | error e => rw [hm] at h1; exact h1

/-- `io::detail::opl_parse_string(&s, result)` for EVERY NUL-terminated byte string, start position and contents of
    `result`: the model's `Opl.parseString` on the suffix — the decoded bytes are appended to `result`, the cursor cell
    ends up at the stop character (NUL, space, tab, ',', '='); when an escape is malformed `opl_error` leaves the function
    with the CALLER's cell untouched (the local cursor was handed to `opl_parse_escaped`) — and there is no undefined
    behaviour.  Fuel: the number of characters left + 10. -/
theorem src_tie_opl_parse_string (s t : List UInt8) (i : Nat) (hi : i ≤ s.length) (result : List UInt8) (fuel : Nat)
    (hf : s.length - i + 10 ≤ fuel) :
    (match Opl.parseString (s.drop i) with
     | .ok (r, rest) => ∃ j, i ≤ j ∧ j ≤ s.length ∧ rest = s.drop j ∧
         Src.OplParserFunctions.opl_parse_string fuel (s ++ 0 :: t) i result = .normal ((j : Int), result ++ r) ()
     | .error _ => ∃ r',
         Src.OplParserFunctions.opl_parse_string fuel (s ++ 0 :: t) i result = .thrown "osmium::opl_error" ((i : Int), result ++ r')) ∧
    Src.OplParserFunctions.opl_parse_string_defined fuel (s ++ 0 :: t) i result = true := by
  obtain ⟨h1, h2⟩ := SrcTie.Esc.src_tie_opl_parse_string_main s t i hi result fuel hf
  refine ⟨?_, h2⟩
  cases hm : Opl.parseString (s.drop i) with
  | ok q => obtain ⟨r, rest⟩ := q; rw [hm] at h1; exact h1
  | error e => rw [hm] at h1; exact h1

/-- The round trip of `opl_roundtrip` with the TRANSLATED parser: on the escaped form of any string of scalar values, in
    front of any delimiter, the translated `opl_parse_string` appends exactly the original bytes and stops exactly at the
    delimiter. -/
theorem src_tie_opl_roundtrip (cs : List Nat) (hs : ScalarStr cs) (d : List UInt8) (hd : Opl.AtStop d) (t result : List UInt8)
    (fuel : Nat) :
    ∃ e, Opl.escape (encodeStr cs) = .ok e ∧ (e.length + d.length + 10 ≤ fuel →
      Src.OplParserFunctions.opl_parse_string fuel ((e ++ d) ++ 0 :: t) 0 result =
        .normal (((e.length : Nat) : Int), result ++ encodeStr cs) ()) := by
  obtain ⟨e, he, hp⟩ := opl_roundtrip cs hs d hd
  refine ⟨e, he, fun hf => ?_⟩
  have h := (src_tie_opl_parse_string (e ++ d) t 0 (Nat.zero_le _) result fuel (by rw [List.length_append]; omega)).1
  rw [List.drop_zero, hp] at h
  obtain ⟨j, _, hj, hr, ho⟩ := h
  have hl := congrArg List.length hr
  rw [List.length_drop, List.length_append] at hl
  rw [List.length_append] at hj
  have : j = e.length := by omega
  subst this
  exact ho

-- the translated decoder runs: `%0%` is a literal '%' (NOT a NUL byte), `%20ac%` is "€", nine hex digits are too long
example : Src.OplParserFunctions.opl_parse_escaped 9 ([0x30, 0x25] ++ 0 :: []) 0 [0x41] = .normal (2, [0x41, 0x25]) () := by decide +kernel
example : Src.OplParserFunctions.opl_parse_escaped 9 ([0x32, 0x30, 0x61, 0x63, 0x25] ++ 0 :: []) 0 [] = .normal (5, [0xe2, 0x82, 0xac]) () := by decide +kernel
example : Src.OplParserFunctions.opl_parse_escaped 9 ([0x31, 0x31, 0x31, 0x31, 0x31, 0x31, 0x31, 0x31, 0x31, 0x25] ++ 0 :: []) 0 [] =
    .thrown "osmium::opl_error" (0, []) := by decide +kernel
example : Src.OplParserFunctions.opl_parse_string 20 ([0x61, 0x25, 0x32, 0x30, 0x25, 0x62, 0x3d, 0x63] ++ 0 :: []) 0 [] =
    .normal (6, [0x61, 0x20, 0x62]) () := by decide +kernel

/-! ### the hex-digit writers of the OPL escaping (writer side: `out += hex_digits[…]`) -/

/-- `append_2_hex_digits(out, value, lookup_hex)` (io/detail/string_util.hpp) appends the model's `Opl.hex2 value`, for every
    value and every array in which `hex_digits` points at the table "0123456789abcdef" (`SrcTie.Hex.HexTable buf h`: the
    sixteen bytes at index `h` are the model's `hexDigit 0 … 15`); both table reads are in bounds. -/
theorem src_tie_append_2_hex_digits (buf : List UInt8) (h : Int) (hT : SrcTie.Hex.HexTable buf h) (out : List UInt8) (v : Nat) :
    Src.StringUtil.append_2_hex_digits buf out (v : Int) h = .normal (out ++ Opl.hex2 v) () ∧
    Src.StringUtil.append_2_hex_digits_defined buf out (v : Int) h = true :=
  SrcTie.Hex.src_tie_append_2_hex_digits buf h hT out v

/-- `append_min_4_hex_digits(out, value, lookup_hex)` appends the model's `Opl.hexMin4 value` (leading zeros of the four
    high digits suppressed — `hexLead` —, the four low digits always); any fuel ≥ 5 suffices. -/
theorem src_tie_append_min_4_hex_digits (buf : List UInt8) (h : Int) (hT : SrcTie.Hex.HexTable buf h) (out : List UInt8) (v fuel : Nat)
    (hf : 5 ≤ fuel) :
    Src.StringUtil.append_min_4_hex_digits fuel buf out (v : Int) h = .normal (out ++ Opl.hexMin4 v) () ∧
    Src.StringUtil.append_min_4_hex_digits_defined fuel buf out (v : Int) h = true :=
  SrcTie.Hex.src_tie_append_min_4_hex_digits buf h hT out v fuel hf

-- non-vacuity: an array "A\0" followed by the table satisfies `HexTable` at index 2; U+1F680 is written as "1f680"
example : SrcTie.Hex.HexTable ([0x41, 0] ++ "0123456789abcdef".toUTF8.toList) 2 := by
  unfold SrcTie.Hex.HexTable; decide +kernel
example : Src.StringUtil.append_min_4_hex_digits 5 ([0x41, 0] ++ "0123456789abcdef".toUTF8.toList) [] 0x1f680 2 =
    .normal "1f680".toUTF8.toList () := by decide +kernel

/-- `io::detail::append_utf8_encoded_string(out, data)` (io/detail/string_util.hpp: the OPL writer's escaping) for EVERY C
    string — `s` free of NULs in front of its NUL, the array is `s ++ 0 :: t`, `data` the index `i` — and every contents of
    `out`: the model's `Opl.escape` on the suffix is appended; an invalid lead byte leaves with `std::runtime_error`, a
    truncated sequence with `std::out_of_range` (the string as far as it was built); the model's `oob` (a read behind the
    NUL) does not occur, and the execution has no undefined behaviour: `strlen` finds the NUL, `next_utf8_codepoint` is
    called with `end_ptr` = the NUL, `out.append(prev, data)` copies a range inside the string, the table reads stay
    inside the literal.  The static table `lookup_hex = "0123456789abcdef"` is where `_lits` says (an extra parameter `h`:
    the translation has ONE array); the pass-through test of the source is tied to the regenerated table `oplPass`
    (`SrcTie.Enc.pass_iff`).  Fuel: the bytes left + 6. -/
theorem src_tie_append_utf8_encoded_string (s t : List UInt8) (hs : ∀ c ∈ s, c ≠ 0) (i : Nat) (hi : i ≤ s.length) (h : Int)
    (out : List UInt8) (hl : Src.StringUtil.append_utf8_encoded_string_lits (s ++ 0 :: t) out (i : Int) h = true) (fuel : Nat)
    (hf : s.length - i + 6 ≤ fuel) :
    (match Opl.escape (s.drop i) with
     | .ok r => Src.StringUtil.append_utf8_encoded_string fuel (s ++ 0 :: t) out (i : Int) h = .normal (out ++ r) ()
     | .error .invalid => ∃ r', Src.StringUtil.append_utf8_encoded_string fuel (s ++ 0 :: t) out (i : Int) h = .thrown "std::runtime_error" (out ++ r')
     | .error .incomplete => ∃ r', Src.StringUtil.append_utf8_encoded_string fuel (s ++ 0 :: t) out (i : Int) h = .thrown "std::out_of_range" (out ++ r')
     | .error .oob => False) ∧
    Src.StringUtil.append_utf8_encoded_string_defined fuel (s ++ 0 :: t) out (i : Int) h = true := by
  obtain ⟨h1, h2⟩ := SrcTie.Enc.src_tie_append_utf8_encoded_string_main s t hs i hi h out hl fuel hf
  refine ⟨?_, h2⟩
  cases hm : Opl.escape (s.drop i) with
  | ok r => rw [hm] at h1; exact h1
  | error e => rw [hm] at h1; cases e <;> exact h1

/-- Round trip with BOTH sides translated from the source: for every string of scalar values U+0001..U+10FFFF (as a C
    string in memory: its UTF-8 bytes, a NUL, then anything — including the table literal), in front of every delimiter,
    the translated writer `append_utf8_encoded_string` appends some `e` and the translated parser `opl_parse_string`, run
    on `e` followed by the delimiter, appends exactly the original bytes and stops exactly at the delimiter. -/
theorem src_tie_opl_roundtrip_translated (cs : List Nat) (hs : ScalarStr cs) (d : List UInt8) (hd : Opl.AtStop d)
    (t1 t2 out result : List UInt8) (h : Int) (fuel1 fuel2 : Nat)
    (hl : Src.StringUtil.append_utf8_encoded_string_lits (encodeStr cs ++ 0 :: t1) out 0 h = true)
    (hf1 : (encodeStr cs).length + 6 ≤ fuel1) :
    ∃ e, Src.StringUtil.append_utf8_encoded_string fuel1 (encodeStr cs ++ 0 :: t1) out 0 h = .normal (out ++ e) () ∧
      (e.length + d.length + 10 ≤ fuel2 →
        Src.OplParserFunctions.opl_parse_string fuel2 ((e ++ d) ++ 0 :: t2) 0 result =
          .normal (((e.length : Nat) : Int), result ++ encodeStr cs) ()) := by
  obtain ⟨e, he, hp⟩ := src_tie_opl_roundtrip cs hs d hd t2 result fuel2
  refine ⟨e, ?_, hp⟩
  have hw := (src_tie_append_utf8_encoded_string (encodeStr cs) t1
    (SrcTie.Enc.encodeStr_ne_zero cs (fun c hc => (hs c hc).1)) 0 (Nat.zero_le _) h out hl fuel1 (by omega)).1
  rw [List.drop_zero, he] at hw
  exact hw

-- non-vacuity: "a €" followed by its NUL and the table; the escaped form is "a%20%€"
example : Src.StringUtil.append_utf8_encoded_string_lits ([0x61, 0x20, 0xe2, 0x82, 0xac] ++ 0 :: "0123456789abcdef\x00".toUTF8.toList) [] 0 6 = true := by
  decide +kernel
example : Src.StringUtil.append_utf8_encoded_string 11 ([0x61, 0x20, 0xe2, 0x82, 0xac] ++ 0 :: "0123456789abcdef\x00".toUTF8.toList) [] 0 6 =
    .normal [0x61, 0x25, 0x32, 0x30, 0x25, 0x25, 0x32, 0x30, 0x61, 0x63, 0x25] () := by decide +kernel

end SrcTies

end Osmium.C14
