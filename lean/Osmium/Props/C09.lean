/-
C09 — compressed input is decompressed completely and truncation is detected.

Model: Osmium/Model/Decomp.lean (wrappers transcribed from gzip_compression.hpp, bzip2_compression.hpp,
compression.hpp, read_thread.hpp; zlib / libbz2 as library oracles with written-down contracts).
`Fixes.all` = the code as it is today (after /repo commits 20beb73, 0ac7ff4, d74b2ae), `Fixes.none` = the
code before those commits.

The five full-strength theorems — `decompress_complete`, `empty_chunk_only_at_end`, `truncation_detected`,
`offset_le_file_size`, `own_output_roundtrip` — are about today's code.  The statements are `def … : Prop`
parametrised by the `Fixes`, so that the refutations for the code BEFORE the fixes stay machine-checked on
their concrete witnesses (DESIGN.md F11a–F11e and a sixth finding: the bzip2 buffer decompressor never
noticed a truncated buffer) — these are the regression probes of the check; the `_partial` theorems state
what held before the fixes.
-/
import Osmium.Lemmas.Decomp
import Osmium.Generated.Consts

namespace Osmium.Props.C09

open Osmium.Decomp

/-! ## Domain -/

/-- A compressed file: at least one stream, every stream has bytes, only the last one can be cut. -/
def wfB (f : CFile α) : Bool := !f.isEmpty && truncOnlyLast f && f.all (fun s => decide (0 < s.csize))

def WF (f : CFile α) : Prop := wfB f = true

instance (f : CFile α) : Decidable (WF f) := by unfold WF; infer_instance

def CfgOk (cfg : Cfg) : Prop := 0 < cfg.ibs ∧ 0 < cfg.ostep ∧ 0 < cfg.ra

theorem WF.ne_nil {f : CFile α} (h : WF f) : f ≠ [] := by
  intro hf; simp [WF, wfB, hf] at h

theorem WF.truncOnlyLast {f : CFile α} (h : WF f) : truncOnlyLast f = true := by
  simp only [WF, wfB, Bool.and_eq_true] at h; exact h.1.2

theorem WF.pos {f : CFile α} (h : WF f) : ∀ s ∈ f, 0 < s.csize := by
  simp only [WF, wfB, Bool.and_eq_true, List.all_eq_true, decide_eq_true_eq] at h; exact h.2

theorem RunOk.weaken {r : Run α} {rem : List α} {bad : Bool} {a b : Nat} (h : RunOk r rem bad a) (hab : a ≤ b) :
    RunOk r rem bad b :=
  ⟨h.good, h.bad, fun o ho => Nat.le_trans (h.offs o ho) hab, h.nonempty⟩

theorem fuelFor_gt (f : CFile α) : (refPayload f).length < fuelFor f := by
  simp only [fuelFor]; omega

/-! ## What a run of the read thread over each decompressor amounts to -/

/-- no compression, fd and buffer: every file -/
theorem run_none (cfg : Cfg) (hc : CfgOk cfg) (fx : Fixes) (m : Mode) (f : CFile α) :
    RunOk (readFile cfg fx .none m f) (refPayload f) false (refPayload f).length := by
  cases m
  · exact run_spec (noFd_step cfg hc.1 (refPayload f).length) (fuelFor f) { file := refPayload f } (by simp) (fuelFor_gt f)
  · by_cases h : (refPayload f).length = 0
    · have := run_spec (noBuf_step (α := α) (refPayload f).length) (fuelFor f)
        { buffer := refPayload f, size := (refPayload f).length } (Or.inl ⟨h, by simp⟩) (by simp [h]; simp [fuelFor])
      simp only [h] at this
      have h' : refPayload f = [] := List.length_eq_zero_iff.mp h
      simpa [readFile, h', h] using this
    · have := run_spec (noBuf_step (α := α) (refPayload f).length) (fuelFor f)
        { buffer := refPayload f, size := (refPayload f).length } (Or.inr ⟨rfl, h, rfl, rfl⟩) (by simp [h]; exact fuelFor_gt f)
      simpa [readFile, h] using this

/-- gzip from a file descriptor: every file, today's code (the `Fixes` do not touch it) -/
theorem run_gzip_fd (cfg : Cfg) (hc : CfgOk cfg) (fx : Fixes) (f : CFile α) :
    RunOk (readFile cfg fx .gzip .fd f) (refPayload f) (hasTrunc f) (fileSize f) := by
  have := run_spec (gzFd_step cfg hc.1 (fileSize f)) (fuelFor f) (gzOpen f)
    ⟨rfl, by simp [gzOpen], by simp [gzOpen]⟩ (by simp [gzOpen]; exact fuelFor_gt f)
  simpa [readFile, gzOpen, intact_iff_hasTrunc] using this

/-- the repaired buffer decompressors: every well-formed file -/
theorem run_buffer_fixed (cfg : Cfg) (hc : CfgOk cfg) (k : Kind) (f : CFile α) (hwf : WF f) :
    RunOk (run (bufDec cfg Fixes.all k f.length) (fuelFor f) { z := zOpen f }) (refPayload f) (hasTrunc f) 0 := by
  cases f with
  | nil => exact absurd rfl hwf.ne_nil
  | cons s t =>
    have hI : BufInv (s :: t).length ({ z := zOpen (s :: t), live := true } : BufDec α) :=
      bufInv_open _ s t hwf.truncOnlyLast (by simp)
    have := run_spec (bufDec_fixed_step cfg k Fixes.all rfl rfl hc.2.1 (s :: t).length) (fuelFor (s :: t)) _ hI
      (by simp only [bufRem, zOpen_cons_rem, if_true]; exact fuelFor_gt _)
    simpa [bufRem, bufBad, zOpen_cons_rem, zOpen_cons_bad] using this

/-- today's buffer decompressors: exactly the first stream, whatever follows it -/
theorem run_buffer_current (cfg : Cfg) (hc : CfgOk cfg) (k : Kind) (s : Stream α) (t : CFile α) (hs : s.trunc = false) :
    RunOk (run (bufDec cfg Fixes.none k (s :: t).length) (fuelFor (s :: t)) { z := zOpen (s :: t) }) s.payload false 0 := by
  have := run_spec (bufDec_current_step cfg k Fixes.none rfl rfl hc.2.1 (s :: t).length) (fuelFor (s :: t))
    ({ z := zOpen (s :: t), live := true } : BufDec α) (by intro _; simp [zOpen, hs])
    (by simp only [bufRem0, zOpen, if_true]
        have := fuelFor_gt (s :: t); rw [refPayload_cons, List.length_append] at this; omega)
  simpa [bufRem0, zOpen] using this

theorem bzOpen_inv (fx : Fixes) (s : Stream α) (t : CFile α) (hwf : WF (s :: t)) (h : fx.bzUnused = true ∨ t = []) :
    BzDecInv fx (fileSize (s :: t)) (s :: t).length ({ lib := bzOpen (s :: t) } : BzDec α) := by
  refine ⟨rfl, by simp [bzOpen, bzOpenAt], by simp, ?_⟩
  intro _
  refine ⟨by simp [bzOpen, bzOpenAt], by simp [bzOpen, bzOpenAt, fileSize_cons], ?_, truncOnlyLast_tail hwf.truncOnlyLast, ?_, by simp [bzOpen, bzOpenAt], ?_⟩
  · intro ht; exact truncOnlyLast_head hwf.truncOnlyLast (by simpa [bzOpen, bzOpenAt] using ht)
  · intro r hr; exact hwf.pos r (by simp only [bzOpen, bzOpenAt] at hr; simp [hr])
  · simpa [bzOpen, bzOpenAt] using h

/-- bzip2 from a file descriptor: the repaired code on every well-formed file; today's code on single-stream files -/
theorem run_bzip2_fd (cfg : Cfg) (hc : CfgOk cfg) (fx : Fixes) (f : CFile α) (hwf : WF f)
    (h : fx.bzUnused = true ∨ f.length = 1) :
    RunOk (readFile cfg fx .bzip2 .fd f) (refPayload f) (hasTrunc f) (fileSize f) := by
  cases f with
  | nil => exact absurd rfl hwf.ne_nil
  | cons s t =>
    have h' : fx.bzUnused = true ∨ t = [] := by
      rcases h with h | h
      · exact Or.inl h
      · right; simp at h; exact h
    have := run_spec (bzFdDec_step cfg hc.2.2 hc.1 fx (fileSize (s :: t)) (s :: t).length) (fuelFor (s :: t))
      ({ lib := bzOpen (s :: t) } : BzDec α) (bzOpen_inv fx s t hwf h')
      (by simp only [bzRem, bzOpen, bzOpenAt]; simp; have := fuelFor_gt (s :: t); rw [refPayload_cons, List.length_append] at this; omega)
    simpa [readFile, bzRem, bzBad, bzOpen, bzOpenAt, refPayload_cons, hasTrunc] using this

/-- Everything at once for today's code. -/
theorem run_fixed (cfg : Cfg) (hc : CfgOk cfg) (c : Comp) (m : Mode) (f : CFile α) (hwf : WF f) :
    RunOk (readFile cfg Fixes.all c m f) (refPayload f) (if c = .none then false else hasTrunc f) (inputSize c f) := by
  cases c
  · simpa [inputSize] using run_none cfg hc Fixes.all m f
  · cases m
    · simpa [inputSize] using run_gzip_fd cfg hc Fixes.all f
    · simpa [inputSize, readFile] using RunOk.weaken (run_buffer_fixed cfg hc .gzip f hwf) (Nat.zero_le _)
  · cases m
    · simpa [inputSize] using run_bzip2_fd cfg hc Fixes.all f hwf (Or.inl rfl)
    · simpa [inputSize, readFile] using RunOk.weaken (run_buffer_fixed cfg hc .bzip2 f hwf) (Nat.zero_le _)

theorem result_of_good {r : Run α} {p : List α} (h : r.err = none ∧ r.chunks.flatten = p) : r.result = .ok p := by
  simp [Run.result, h.1, h.2]

/-! ## decompress_complete -/

/-- Full statement: every intact file — any number of streams, any payload sizes (0 included), any
    compressed sizes / alignment, gzip or bzip2 (or none), fd or memory buffer, any buffer sizes — is read
    as exactly the concatenation of the payloads. -/
def DecompressComplete (fx : Fixes) : Prop :=
  ∀ (α : Type) (cfg : Cfg) (c : Comp) (m : Mode) (f : CFile α), CfgOk cfg → WF f → intact f = true →
    readAll cfg fx c m f = .ok (refPayload f)

theorem decompress_complete : DecompressComplete Fixes.all := by
  intro α cfg c m f hc hwf hi
  have hb : hasTrunc f = false := by rw [intact_iff_hasTrunc] at hi; simpa using hi
  have := (run_fixed cfg hc c m f hwf).good (by split <;> simp [hb])
  exact result_of_good this

/-- non-vacuity: a three-stream file with an empty middle stream -/
example : CfgOk { ibs := 4 } ∧ WF ([⟨30, [1, 2, 3, 4, 5], false, false⟩, ⟨14, [], false, false⟩, ⟨40, [6], false, false⟩] : CFile Nat) :=
  ⟨by simp [CfgOk], by decide⟩

def cfg64 : Cfg := { ibs := 64 }
theorem cfg64_ok : CfgOk cfg64 := by simp [CfgOk, cfg64]

/-- Regression witnesses (code before the fixes).  F11a (gzip): two members in a memory buffer, the second is dropped. -/
def wA : CFile Nat := [⟨22, [1, 2], false, false⟩, ⟨21, [3], false, false⟩]
theorem witness_gzip_buffer : readFile cfg64 Fixes.none .gzip .buf wA = { chunks := [[1, 2]], err := none, offs := [0, 0] } := by decide
theorem decompress_complete_refuted_gzip_buffer : ¬ DecompressComplete Fixes.none := by
  intro h
  have := h Nat cfg64 .gzip .buf wA cfg64_ok (by decide) (by decide)
  unfold readAll at this; rw [witness_gzip_buffer] at this
  simp [Run.result, wA, refPayload] at this

/-- F11a (bzip2) -/
theorem witness_bzip2_buffer : readFile cfg64 Fixes.none .bzip2 .buf wA = { chunks := [[1, 2]], err := none, offs := [0, 0] } := by decide
theorem decompress_complete_refuted_bzip2_buffer :
    readAll cfg64 Fixes.none .bzip2 .buf wA ≠ .ok (refPayload wA) := by
  unfold readAll; rw [witness_bzip2_buffer]
  simp [Run.result, wA, refPayload]

/-- F11b: bzip2 from a file descriptor, the second stream is already in the 5000-byte read-ahead
    (the fread came back short: feof) — dropped. -/
def wB : CFile Nat := [⟨40, [1, 2], false, false⟩, ⟨39, [3], false, false⟩]
theorem witness_bzip2_fd_tail : readFile cfg64 Fixes.none .bzip2 .fd wB = { chunks := [[1, 2]], err := none, offs := [79, 79] } := by decide
theorem decompress_complete_refuted_bzip2_fd_tail :
    readAll cfg64 Fixes.none .bzip2 .fd wB ≠ .ok (refPayload wB) := by
  unfold readAll; rw [witness_bzip2_fd_tail]
  simp [Run.result, wB, refPayload]

/-- F11c: the first stream ends exactly at the read-ahead boundary: num_unused = 0 — the rest (6500 bytes,
    not in the read-ahead) is dropped. -/
def wC : CFile Nat := [⟨5000, [1, 2], false, false⟩, ⟨6500, [3], false, false⟩]
theorem witness_bzip2_fd_boundary : readFile cfg64 Fixes.none .bzip2 .fd wC = { chunks := [[1, 2]], err := none, offs := [5000, 5000] } := by decide
theorem decompress_complete_refuted_bzip2_fd_boundary :
    readAll cfg64 Fixes.none .bzip2 .fd wC ≠ .ok (refPayload wC) := by
  unfold readAll; rw [witness_bzip2_fd_boundary]
  simp [Run.result, wC, refPayload]

/-- F11d: an empty first stream, a long second one: read() returns an empty chunk in the middle of the file. -/
def wD : CFile Nat := [⟨14, [], false, false⟩, ⟨6500, [3], false, false⟩]
theorem witness_bzip2_fd_empty_chunk : readFile cfg64 Fixes.none .bzip2 .fd wD = { chunks := [], err := none, offs := [5000] } := by decide
theorem decompress_complete_refuted_bzip2_fd_empty_chunk :
    readAll cfg64 Fixes.none .bzip2 .fd wD ≠ .ok (refPayload wD) := by
  unfold readAll; rw [witness_bzip2_fd_empty_chunk]
  simp [Run.result, wD, refPayload]

/-- F11d, second form: payload = input_buffer_size and the stream trailer straddles the read-ahead boundary:
    BZ_OK with a full buffer, then BZ_STREAM_END with 0 bytes. -/
def wD2 : CFile Nat := [⟨5004, [1, 2], false, false⟩, ⟨6500, [3], false, false⟩]
theorem witness_bzip2_fd_empty_chunk2 :
    readFile { ibs := 2 } Fixes.none .bzip2 .fd wD2 = { chunks := [[1, 2]], err := none, offs := [5000, 10000] } := by decide

/-- the same files under today's code -/
theorem witnesses_fixed :
    readAll cfg64 Fixes.all .gzip .buf wA = .ok [1, 2, 3] ∧ readAll cfg64 Fixes.all .bzip2 .buf wA = .ok [1, 2, 3] ∧
    readAll cfg64 Fixes.all .bzip2 .fd wB = .ok [1, 2, 3] ∧ readAll cfg64 Fixes.all .bzip2 .fd wC = .ok [1, 2, 3] ∧
    readAll cfg64 Fixes.all .bzip2 .fd wD = .ok [3] ∧ readAll { ibs := 2 } Fixes.all .bzip2 .fd wD2 = .ok [1, 2, 3] := by
  refine ⟨?_, ?_, ?_, ?_, ?_, ?_⟩ <;> rfl

/-- What held before the fixes (1): the buffer decompressors deliver exactly the first stream — complete for
    single-stream buffers, and EVERY byte after the first stream is lost, whatever the sizes. -/
theorem decompress_buffer_first_stream_only_partial (cfg : Cfg) (hc : CfgOk cfg) (k : Kind) (s : Stream α) (t : CFile α)
    (hs : s.trunc = false) :
    readAll cfg Fixes.none (match k with | .gzip => .gzip | .bzip2 => .bzip2) .buf (s :: t) = .ok s.payload := by
  have := (run_buffer_current cfg hc k s t hs).good rfl
  cases k <;> exact result_of_good (by simpa [readFile] using this)

/-- What held before the fixes (2): single-stream files, both libraries, fd and buffer. -/
theorem decompress_complete_single_stream_partial (cfg : Cfg) (hc : CfgOk cfg) (c : Comp) (m : Mode) (s : Stream α)
    (hs : s.trunc = false) (hpos : 0 < s.csize) :
    readAll cfg Fixes.none c m [s] = .ok s.payload := by
  have hwf : WF [s] := by simp [WF, wfB, truncOnlyLast, hpos]
  have hb : hasTrunc [s] = false := by simp [hasTrunc, hs]
  have hp : refPayload [s] = s.payload := by simp [refPayload]
  cases c
  · have := (run_none cfg hc Fixes.none m [s]).good rfl
    rw [hp] at this; exact result_of_good this
  · cases m
    · have := (run_gzip_fd cfg hc Fixes.none [s]).good hb
      rw [hp] at this; exact result_of_good this
    · exact decompress_buffer_first_stream_only_partial cfg hc .gzip s [] hs
  · cases m
    · have := (run_bzip2_fd cfg hc Fixes.none [s] hwf (Or.inr rfl)).good hb
      rw [hp] at this; exact result_of_good this
    · exact decompress_buffer_first_stream_only_partial cfg hc .bzip2 s [] hs

/-- Holds for any `Fixes` (3): gzip from a file descriptor, any number of members (gzread is multi-member aware). -/
theorem decompress_complete_gzip_fd_partial (cfg : Cfg) (hc : CfgOk cfg) (fx : Fixes) (f : CFile α) (hi : intact f = true) :
    readAll cfg fx .gzip .fd f = .ok (refPayload f) := by
  have hb : hasTrunc f = false := by rw [intact_iff_hasTrunc] at hi; simpa using hi
  exact result_of_good ((run_gzip_fd cfg hc fx f).good hb)

/-- Holds for any `Fixes` (4): uncompressed input. -/
theorem decompress_complete_none_partial (cfg : Cfg) (hc : CfgOk cfg) (fx : Fixes) (m : Mode) (f : CFile α) :
    readAll cfg fx .none m f = .ok (refPayload f) :=
  result_of_good ((run_none cfg hc fx m f).good rfl)

/-! ## empty_chunk_only_at_end (the input contract of C06) -/

/-- The queue side of the contract holds for ANY decompressor: the read thread only ever queues non-empty
    chunks (then one end marker). -/
theorem queue_chunks_nonempty (d : Dec σ α) : ∀ fuel s, ∀ c ∈ (run d fuel s).chunks, c ≠ [] := by
  intro fuel
  induction fuel with
  | zero => intro s c hc; simp [run] at hc
  | succ fuel ih =>
    intro s c hc
    simp only [run] at hc
    split at hc
    · simp at hc
    · rename_i data s' _
      split at hc
      · simp at hc
      · rename_i hne
        simp at hc
        rcases hc with rfl | hc
        · intro h; simp [h] at hne
        · exact ih s' c hc

/-- The decompressor side: the loop ends without an error (= `read()` returned an empty chunk) only when
    every payload byte has been delivered — an empty chunk means "end of input" and nothing else. -/
def EmptyChunkOnlyAtEnd (fx : Fixes) : Prop :=
  ∀ (α : Type) (cfg : Cfg) (c : Comp) (m : Mode) (f : CFile α), CfgOk cfg → WF f → intact f = true →
    (readFile cfg fx c m f).err = none → (readFile cfg fx c m f).chunks.flatten = refPayload f

theorem empty_chunk_only_at_end : EmptyChunkOnlyAtEnd Fixes.all := by
  intro α cfg c m f hc hwf hi _
  have hb : hasTrunc f = false := by rw [intact_iff_hasTrunc] at hi; simpa using hi
  exact ((run_fixed cfg hc c m f hwf).good (by split <;> simp [hb])).2

/-- F11d: before fix d74b2ae an empty chunk was produced before the end. -/
theorem empty_chunk_only_at_end_refuted : ¬ EmptyChunkOnlyAtEnd Fixes.none := by
  intro h
  have := h Nat cfg64 .bzip2 .fd wD cfg64_ok (by decide) (by decide) (by rw [witness_bzip2_fd_empty_chunk])
  rw [witness_bzip2_fd_empty_chunk] at this
  simp [wD, refPayload] at this

/-! ## truncation_detected -/

/-- Full statement: a file that ends inside a stream is reported as an error.  ("The library reports
    truncation" is part of the oracles' contracts: gzread records Z_BUF_ERROR, BZ2_bzRead returns
    BZ_UNEXPECTED_EOF; inflate returns Z_BUF_ERROR only when a call makes no progress at all, and
    BZ2_bzDecompress never complains — the repaired buffer wrappers test avail_in themselves.) -/
def TruncationDetected (fx : Fixes) : Prop :=
  ∀ (α : Type) (cfg : Cfg) (c : Comp) (m : Mode) (f : CFile α), CfgOk cfg → WF f → c ≠ .none → hasTrunc f = true →
    ∃ e, readAll cfg fx c m f = .error e ∧ e.cls ≠ .fuel

theorem truncation_detected : TruncationDetected Fixes.all := by
  intro α cfg c m f hc hwf hcn ht
  obtain ⟨e, he, hf⟩ := (run_fixed cfg hc c m f hwf).bad (by simp [hcn, ht])
  exact ⟨e, by simp [readAll, Run.result, he], hf⟩

/-- non-vacuity -/
example : WF ([⟨30, [1, 2], false, false⟩, ⟨7, [], true, false⟩] : CFile Nat) ∧
    hasTrunc ([⟨30, [1, 2], false, false⟩, ⟨7, [], true, false⟩] : CFile Nat) = true := ⟨by decide, by decide⟩

/-- F11e: a gzip buffer cut inside the header (5 of 20+ bytes): inflate consumes the bytes, produces nothing,
    returns Z_OK — accepted as an empty file. -/
def wE : CFile Nat := [⟨5, [], true, false⟩]
theorem witness_gzip_buffer_truncated : readFile cfg64 Fixes.none .gzip .buf wE = { chunks := [], err := none, offs := [0] } := by decide
theorem truncation_detected_refuted_gzip_buffer : ¬ TruncationDetected Fixes.none := by
  intro h
  obtain ⟨e, he, _⟩ := h Nat cfg64 .gzip .buf wE cfg64_ok (by decide) (by decide) (by decide)
  unfold readAll at he; rw [witness_gzip_buffer_truncated] at he
  simp [Run.result] at he

/-- new: a bzip2 buffer cut anywhere (here after one complete 3-byte... decodable prefix) is accepted. -/
def wF : CFile Nat := [⟨30, [1, 2, 3], true, false⟩]
theorem witness_bzip2_buffer_truncated :
    readFile cfg64 Fixes.none .bzip2 .buf wF = { chunks := [[1, 2, 3]], err := none, offs := [0, 0] } := by decide

/-- consequence of F11b: a cut second stream is not noticed either -/
def wG : CFile Nat := [⟨40, [1, 2], false, false⟩, ⟨9, [], true, false⟩]
theorem witness_bzip2_fd_truncated_second : readFile cfg64 Fixes.none .bzip2 .fd wG = { chunks := [[1, 2]], err := none, offs := [49, 49] } := by decide

/-- the same files under today's code: errors -/
theorem witnesses_truncated_fixed :
    (readFile cfg64 Fixes.all .gzip .buf wE).err = some ⟨.gzip, .read⟩ ∧
    (readFile cfg64 Fixes.all .bzip2 .buf wF).err = some ⟨.bzip2, .read⟩ ∧
    (readFile cfg64 Fixes.all .bzip2 .fd wG).err = some ⟨.bzip2, .read⟩ := by
  refine ⟨?_, ?_, ?_⟩ <;> rfl

/-- What held before the fixes: gzip from a file descriptor (error from gzclose_r), and single-stream bzip2 from a file
    descriptor (BZ_UNEXPECTED_EOF). -/
theorem truncation_detected_gzip_fd_partial (cfg : Cfg) (hc : CfgOk cfg) (fx : Fixes) (f : CFile α) (ht : hasTrunc f = true) :
    ∃ e, readAll cfg fx .gzip .fd f = .error e ∧ e.cls ≠ .fuel := by
  obtain ⟨e, he, hf⟩ := (run_gzip_fd cfg hc fx f).bad ht
  exact ⟨e, by simp [readAll, Run.result, he], hf⟩

theorem truncation_detected_bzip2_fd_single_partial (cfg : Cfg) (hc : CfgOk cfg) (s : Stream α) (hpos : 0 < s.csize)
    (ht : s.trunc = true) :
    ∃ e, readAll cfg Fixes.none .bzip2 .fd [s] = .error e ∧ e.cls ≠ .fuel := by
  have hwf : WF [s] := by simp [WF, wfB, truncOnlyLast, hpos]
  obtain ⟨e, he, hf⟩ := (run_bzip2_fd cfg hc Fixes.none [s] hwf (Or.inr rfl)).bad (by simp [hasTrunc, ht])
  exact ⟨e, by simp [readAll, Run.result, he], hf⟩

/-! ## offset_le_file_size -/

/-- The offset reported after every `read()` never exceeds the size of the input (file or buffer):
    today's code on every well-formed file … -/
theorem offset_le_file_size_fixed (cfg : Cfg) (hc : CfgOk cfg) (c : Comp) (m : Mode) (f : CFile α) (hwf : WF f) :
    ∀ o ∈ (readFile cfg Fixes.all c m f).offs, o ≤ inputSize c f :=
  (run_fixed cfg hc c m f hwf).offs

/-- … the code before the fixes: uncompressed and gzip-fd on every file, single-stream bzip2-fd … -/
theorem offset_le_file_size_current_partial (cfg : Cfg) (hc : CfgOk cfg) (f : CFile α) :
    (∀ m, ∀ o ∈ (readFile cfg Fixes.none .none m f).offs, o ≤ inputSize .none f) ∧
    (∀ o ∈ (readFile cfg Fixes.none .gzip .fd f).offs, o ≤ inputSize .gzip f) ∧
    (WF f → f.length = 1 → ∀ o ∈ (readFile cfg Fixes.none .bzip2 .fd f).offs, o ≤ inputSize .bzip2 f) :=
  ⟨fun m => (run_none cfg hc Fixes.none m f).offs, (run_gzip_fd cfg hc Fixes.none f).offs,
   fun hwf h1 => (run_bzip2_fd cfg hc Fixes.none f hwf (Or.inr h1)).offs⟩

/-- … and a decompressor that never calls set_offset (both buffer decompressors, any `Fixes`, any file)
    reports 0. -/
theorem offs_of_bounded (d : Dec σ α) (sz : Nat) (h : ∀ s, d.offset s ≤ sz) : ∀ fuel s, ∀ o ∈ (run d fuel s).offs, o ≤ sz := by
  intro fuel
  induction fuel with
  | zero => intro s o ho; simp [run] at ho
  | succ fuel ih =>
    intro s o ho
    simp only [run] at ho
    split at ho
    · simp at ho
    · rename_i data s' _
      split at ho
      · simp at ho; rw [ho]; exact h s'
      · simp at ho
        rcases ho with rfl | ho
        · exact h s'
        · exact ih s' o ho

theorem offset_le_file_size_buffer (cfg : Cfg) (fx : Fixes) (c : Comp) (f : CFile α) (hc : c ≠ .none) :
    ∀ o ∈ (readFile cfg fx c .buf f).offs, o ≤ inputSize c f := by
  intro o ho
  cases c
  · exact absurd rfl hc
  · exact Nat.le_trans (offs_of_bounded (bufDec cfg fx .gzip f.length) 0 (fun _ => Nat.le_refl _) _ _ o ho) (Nat.zero_le _)
  · exact Nat.le_trans (offs_of_bounded (bufDec cfg fx .bzip2 f.length) 0 (fun _ => Nat.le_refl _) _ _ o ho) (Nat.zero_le _)

/-- … and Bzip2Decompressor (offset = ftell of the FILE) on ANY file, today's code and repaired, multi-stream included. -/
theorem offset_le_file_size_bzip2_fd (cfg : Cfg) (fx : Fixes) (f : CFile α) :
    ∀ o ∈ (readFile cfg fx .bzip2 .fd f).offs, o ≤ inputSize .bzip2 f :=
  bzFd_offsets cfg fx f

/-- FULL statement, for the code before and after the fixes alike (any `Fixes`), every compression, fd and
    buffer, EVERY file (well-formed or not): the offset reported after each `read()` never exceeds the size
    of the input. -/
theorem offset_le_file_size (cfg : Cfg) (hc : CfgOk cfg) (fx : Fixes) (c : Comp) (m : Mode) (f : CFile α) :
    ∀ o ∈ (readFile cfg fx c m f).offs, o ≤ inputSize c f := by
  cases c
  · exact (run_none cfg hc fx m f).offs
  · cases m
    · exact (run_gzip_fd cfg hc fx f).offs
    · exact offset_le_file_size_buffer cfg fx .gzip f (by simp)
  · cases m
    · exact offset_le_file_size_bzip2_fd cfg fx f
    · exact offset_le_file_size_buffer cfg fx .bzip2 f (by simp)

/-! ## own_output_roundtrip -/

/-- Whatever sequence of `write()` calls the library's own GzipCompressor / Bzip2Compressor got (one stream,
    see `compressorOutput`), the decompressors read it back identically, from a file descriptor and from a
    memory buffer (first conjunct: today's code; second: this already held before the fixes). -/
theorem own_output_roundtrip (cfg : Cfg) (hc : CfgOk cfg) (c : Comp) (m : Mode) (writes : List (List α)) (csize : Nat)
    (hpos : 0 < csize) :
    readAll cfg Fixes.all c m (compressorOutput writes csize) = .ok writes.flatten ∧
    readAll cfg Fixes.none c m (compressorOutput writes csize) = .ok writes.flatten := by
  constructor
  · have := decompress_complete α cfg c m (compressorOutput writes csize) hc
      (by simp [WF, wfB, compressorOutput, truncOnlyLast, hpos]) (by simp [intact, compressorOutput])
    simpa [compressorOutput, refPayload] using this
  · exact decompress_complete_single_stream_partial cfg hc c m ⟨csize, writes.flatten, false, false⟩ rfl hpos

/-- non-vacuity -/
example : readAll cfg64 Fixes.all .bzip2 .fd (compressorOutput [[1, 2], [], [3]] 40) = .ok [1, 2, 3] := by rfl

/-- Tie of the wrappers' buffer constants to the CURRENT source (regenerated `Generated/Consts.lean`):
    the default output step of the model configuration is the `buffer_size` of both buffer
    decompressors (the input buffer size `ibs` is a parameter of every theorem). -/
theorem consts_tie_decomp :
    ({ ibs := 0 } : Cfg).ostep = Osmium.Generated.Consts.gzipBufferStep ∧ ({ ibs := 0 } : Cfg).ostep = Osmium.Generated.Consts.bzip2BufferStep ∧
    0 < Osmium.Generated.Consts.decompInputBufferSize := by decide

end Osmium.Props.C09
