/-
C09 — compressed input is decompressed completely and truncation is detected.

Model: Osmium/Model/Decomp.lean (wrappers transcribed from gzip_compression.hpp, bzip2_compression.hpp,
compression.hpp, read_thread.hpp; zlib / libbz2 as library oracles with written-down contracts).
`Fixes.all` = the code as it is today (after /repo commits 20beb73, 0ac7ff4, d74b2ae, d0f1d5d), `Fixes.none` = the
code before those commits.

The five full-strength theorems — `decompress_complete`, `empty_chunk_only_at_end`, `truncation_detected`,
`offset_le_file_size`, `own_output_roundtrip` — are about today's code.  The statements are `def … : Prop`
parametrised by the `Fixes`, so that the refutations for the code BEFORE the fixes stay machine-checked on
their concrete witnesses (DESIGN.md F11a–F11e and a sixth finding: the bzip2 buffer decompressor never
noticed a truncated buffer) — these are the regression probes of the check; the `_partial` theorems state
what held before the fixes.

Damaged streams (`Stream.bad`: no header / data error; what the libraries report for them is part of the
oracles' contracts): `CorruptionDetected` / `OkOnlyIfValid` — a file is accepted only if it is exactly a
concatenation of complete valid streams, and then the bytes are the concatenation of their payloads — are
REFUTED by today's code on one class (gzip from a file descriptor, magic of a member after the first damaged:
zlib's gzread ignores the rest as trailing garbage; known finding) and proved on everything else
(`corruption_detected_partial`, `ok_only_if_valid_partial`, `later_stream_bad_header_is_error` = the clause
seed C09-6 breaks, for all inputs).
-/
import Osmium.Lemmas.Decomp
import Osmium.Generated.Consts

namespace Osmium.Props.C09

open Osmium.Decomp

/-! ## Domain -/

/-- A compressed file as the libraries see it: at least one stream, every stream has bytes, only the last one
    can be cut or damaged (a library never looks beyond such a stream: whatever follows belongs to it), and a
    stream is not both (a damaged stream whose damage the library does not reach before the input ends is a
    cut stream). -/
def wfB (f : CFile α) : Bool :=
  !f.isEmpty && truncOnlyLast f && f.all (fun s => decide (0 < s.csize)) && f.all (fun s => !(s.trunc && s.bad != .none))

def WF (f : CFile α) : Prop := wfB f = true

instance (f : CFile α) : Decidable (WF f) := by unfold WF; infer_instance

def CfgOk (cfg : Cfg) : Prop := 0 < cfg.ibs ∧ 0 < cfg.ostep ∧ 0 < cfg.ra

theorem WF.ne_nil {f : CFile α} (h : WF f) : f ≠ [] := by
  intro hf; simp [WF, wfB, hf] at h

theorem WF.truncOnlyLast {f : CFile α} (h : WF f) : truncOnlyLast f = true := by
  simp only [WF, wfB, Bool.and_eq_true] at h; exact h.1.1.2

theorem WF.pos {f : CFile α} (h : WF f) : ∀ s ∈ f, 0 < s.csize := by
  simp only [WF, wfB, Bool.and_eq_true, List.all_eq_true, decide_eq_true_eq] at h; exact h.1.2

theorem WF.excl {f : CFile α} (h : WF f) : ∀ s ∈ f, s.trunc = true → s.bad = .none := by
  simp only [WF, wfB, Bool.and_eq_true, List.all_eq_true] at h
  intro s hs ht
  have := h.2 s hs
  simpa [ht] using this

/-- The part of the domain that is about `gzread` (GzipDecompressor, fd): no stream AFTER THE FIRST lacks the
    gzip magic (zlib ignores such a stream and everything after it as trailing garbage without telling anybody:
    see `ok_only_if_valid_refuted_gzip_fd_later_magic`), and a first stream without the magic has bytes
    (`payload` of such a stream = its raw bytes, which gzread copies; `0 < csize`). -/
def gzFdDomain : CFile α → Bool
  | [] => true
  | s :: t => noMagic t && (s.bad != .magic || !s.payload.isEmpty)

theorem noMagic_of_intact {f : CFile α} (h : faulty f = false) : noMagic f = true := by
  simp only [faulty, List.any_eq_false, noMagic, List.all_eq_true] at *
  intro s hs
  have := h s hs
  simp only [Bool.or_eq_true, not_or, Bool.not_eq_true, bne_eq_false_iff_eq] at this
  simp [this.2]

theorem noMagic_of_hasTrunc : ∀ {f : CFile α}, truncOnlyLast f = true → (∀ s ∈ f, s.trunc = true → s.bad = .none) →
    hasTrunc f = true → noMagic f = true := by
  intro f
  induction f with
  | nil => intro _ _ h; simp [hasTrunc] at h
  | cons s t ih =>
    intro hw hx ht
    cases t with
    | nil =>
      have hst : s.trunc = true := by simpa [hasTrunc] using ht
      simp [noMagic, hx s (by simp) hst]
    | cons a t =>
      simp only [truncOnlyLast, Bool.and_eq_true, Bool.not_eq_true', beq_iff_eq] at hw
      have ht' : hasTrunc (a :: t) = true := by simpa [hasTrunc, hw.1.1] using ht
      have := ih hw.2 (fun x hx' => hx x (by simp [hx'])) ht'
      simp only [noMagic, List.all_cons, Bool.and_eq_true] at this ⊢
      exact ⟨by simp [hw.1.2], this⟩

theorem gzFdDomain_of_noMagic {f : CFile α} (h : noMagic f = true) : gzFdDomain f = true := by
  cases f with
  | nil => rfl
  | cons s t =>
    simp only [noMagic, List.all_cons, Bool.and_eq_true] at h
    simp only [gzFdDomain, Bool.and_eq_true, Bool.or_eq_true]
    exact ⟨h.2, Or.inl h.1⟩

theorem RunOk.weaken {r : Run α} {rem : List α} {bad : Bool} {a b : Nat} (h : RunOk r rem bad a) (hab : a ≤ b) :
    RunOk r rem bad b :=
  ⟨h.good, h.bad, fun o ho => Nat.le_trans (h.offs o ho) hab, h.nonempty⟩

theorem fuelFor_gt (f : CFile α) : (refPayload f).length < fuelFor f := by
  simp only [fuelFor]; omega

/-! ## What a run of the read thread over each decompressor amounts to -/

/-- no compression, fd and buffer: every file -/
theorem run_none (cfg : Cfg) (hc : CfgOk cfg) (fx : Fixes) (m : Mode) (f : CFile α) :
    RunOk (readFile cfg fx .none m f) (refPayload f) false (refPayload f).length := by
  cases m
  · exact run_spec (noFd_step cfg hc.1 (refPayload f).length) (fuelFor f) { file := refPayload f } (by simp) (fuelFor_gt f)
  · by_cases h : (refPayload f).length = 0
    · have := run_spec (noBuf_step (α := α) (refPayload f).length) (fuelFor f)
        { buffer := refPayload f, size := (refPayload f).length } (Or.inl ⟨h, by simp⟩) (by simp [h]; simp [fuelFor])
      simp only [h] at this
      have h' : refPayload f = [] := List.length_eq_zero_iff.mp h
      simpa [readFile, h', h] using this
    · have := run_spec (noBuf_step (α := α) (refPayload f).length) (fuelFor f)
        { buffer := refPayload f, size := (refPayload f).length } (Or.inr ⟨rfl, h, rfl, rfl⟩) (by simp [h]; exact fuelFor_gt f)
      simpa [readFile, h] using this

theorem gzScan_len : ∀ (b : Bool) (f : CFile α), (gzScan b f).1.length ≤ (refPayload f).length := by
  intro b f
  induction f generalizing b with
  | nil => simp [gzScan]
  | cons s t ih =>
    simp only [gzScan, refPayload_cons, List.length_append]
    cases s.bad
    · have := ih false; simp only [List.length_append]; omega
    · simp
    · cases b <;> simp

/-- gzip from a file descriptor, ANY file and any `Fixes`: what gzread hands out (`gzScan`), an error exactly
    when `gzBad` -/
theorem run_gzip_fd_raw (cfg : Cfg) (hc : CfgOk cfg) (fx : Fixes) (f : CFile α) :
    RunOk (readFile cfg fx .gzip .fd f) (gzScan true f).1 (gzBad fx (gzOpen f)) (fileSize f) := by
  have := run_spec (gzFd_step cfg hc.1 fx (fileSize f)) (fuelFor f) (gzOpen f)
    ⟨rfl, by simp [gzOpen], by simp [gzOpen]⟩
    (by simp only [gzOpen]; exact Nat.lt_of_le_of_lt (gzScan_len true f) (fuelFor_gt f))
  simpa [readFile, gzOpen] using this

/-- gzip from a file descriptor: every file whose streams all have their magic, any `Fixes` -/
theorem run_gzip_fd (cfg : Cfg) (hc : CfgOk cfg) (fx : Fixes) (f : CFile α) (hw : truncOnlyLast f = true) (hm : noMagic f = true) :
    RunOk (readFile cfg fx .gzip .fd f) (refPayload f) (faulty f) (fileSize f) := by
  have h := run_gzip_fd_raw cfg hc fx f
  obtain ⟨i1, i2⟩ := gzScan_noMagic true f hm hw
  have hd : (gzOpen f).direct = true → (gzOpen f).pending.isEmpty = true := by
    cases f with
    | nil => intro _; simp [gzOpen, gzScan]
    | cons s t =>
      intro hdir
      simp only [noMagic, List.all_cons, Bool.and_eq_true, bne_iff_ne] at hm
      simp only [gzOpen, beq_iff_eq] at hdir
      exact absurd hdir hm.1
  have hb : gzBad fx (gzOpen f) = faulty f := by
    rw [← i2]
    simp only [gzBad]
    cases hdir : (gzOpen f).direct
    · simp [gzOpen]
    · have := hd hdir
      simp only [gzOpen] at this
      simp [gzOpen, this]
  rw [hb, i1] at h
  exact h

/-- the repaired GzipDecompressor on a file that does not start with the gzip magic: gzread copies the raw
    bytes (`payload`), `gzdirect()` is true after the first read: error -/
theorem run_gzip_fd_first_magic (cfg : Cfg) (hc : CfgOk cfg) (fx : Fixes) (hfx : fx.gzDirect = true) (s : Stream α)
    (hb : s.bad = .magic) (hp : s.payload.isEmpty = false) :
    RunOk (readFile cfg fx .gzip .fd [s]) s.payload true (fileSize [s]) := by
  have h := run_gzip_fd_raw cfg hc fx [s]
  have h1 : (gzScan true [s]).1 = s.payload := by simp [gzScan, hb]
  have h2 : gzBad fx (gzOpen [s]) = true := by simp [gzBad, gzOpen, gzScan, hb, hfx, hp]
  rw [h1, h2] at h
  exact h

/-- today's GzipDecompressor on every file of its domain -/
theorem run_gzip_fd_fixed (cfg : Cfg) (hc : CfgOk cfg) (f : CFile α) (hw : truncOnlyLast f = true) (hd : gzFdDomain f = true) :
    RunOk (readFile cfg Fixes.all .gzip .fd f) (refPayload f) (faulty f) (fileSize f) := by
  cases f with
  | nil => exact run_gzip_fd cfg hc Fixes.all [] rfl rfl
  | cons s t =>
    simp only [gzFdDomain, Bool.and_eq_true, Bool.or_eq_true, bne_iff_ne, Bool.not_eq_true'] at hd
    by_cases hb : s.bad = .magic
    · have ht : t = [] := truncOnlyLast_head_bad hw (by simp [hb])
      subst ht
      have hp : s.payload.isEmpty = false := by
        rcases hd.2 with h | h
        · exact absurd hb h
        · exact h
      have := run_gzip_fd_first_magic cfg hc Fixes.all rfl s hb hp
      have e1 : refPayload [s] = s.payload := by simp [refPayload]
      have e2 : faulty [s] = true := by simp [faulty, hb]
      rw [e1, e2]; exact this
    · refine run_gzip_fd cfg hc Fixes.all (s :: t) hw ?_
      simp only [noMagic, List.all_cons, Bool.and_eq_true, bne_iff_ne]
      exact ⟨hb, hd.1⟩

/-- the repaired buffer decompressors: every well-formed file -/
theorem run_buffer_fixed (cfg : Cfg) (hc : CfgOk cfg) (k : Kind) (f : CFile α) (hwf : WF f) :
    RunOk (run (bufDec cfg Fixes.all k f.length) (fuelFor f) { z := zOpen f }) (refPayload f) (faulty f) 0 := by
  cases f with
  | nil => exact absurd rfl hwf.ne_nil
  | cons s t =>
    have hI : BufInv (s :: t).length ({ z := zOpen (s :: t), live := true } : BufDec α) :=
      bufInv_open _ s t hwf.truncOnlyLast (by simp)
    have := run_spec (bufDec_fixed_step cfg k Fixes.all rfl rfl hc.2.1 (s :: t).length) (fuelFor (s :: t)) _ hI
      (by simp only [bufRem, zOpen_cons_rem, if_true]; exact fuelFor_gt _)
    simpa [bufRem, bufBad, zOpen_cons_rem, zOpen_cons_bad] using this

/-- today's buffer decompressors: exactly the first stream, whatever follows it -/
theorem run_buffer_current (cfg : Cfg) (hc : CfgOk cfg) (k : Kind) (s : Stream α) (t : CFile α) (hs : s.trunc = false)
    (hb : s.bad = .none) :
    RunOk (run (bufDec cfg Fixes.none k (s :: t).length) (fuelFor (s :: t)) { z := zOpen (s :: t) }) s.payload false 0 := by
  have := run_spec (bufDec_current_step cfg k Fixes.none rfl rfl hc.2.1 (s :: t).length) (fuelFor (s :: t))
    ({ z := zOpen (s :: t), live := true } : BufDec α) (by intro _; simp [zOpen, hs, hb])
    (by simp only [bufRem0, zOpen, if_true]
        have := fuelFor_gt (s :: t); rw [refPayload_cons, List.length_append] at this; omega)
  simpa [bufRem0, zOpen] using this

theorem bzOpen_inv (fx : Fixes) (s : Stream α) (t : CFile α) (hwf : WF (s :: t)) (h : fx.bzUnused = true ∨ t = []) :
    BzDecInv fx (fileSize (s :: t)) (s :: t).length ({ lib := bzOpen (s :: t) } : BzDec α) := by
  refine ⟨rfl, by simp [bzOpen, bzOpenAt], by simp, ?_⟩
  intro _
  refine ⟨by simp [bzOpen, bzOpenAt], by simp [bzOpen, bzOpenAt, fileSize_cons], ?_, truncOnlyLast_tail hwf.truncOnlyLast, ?_, by simp [bzOpen, bzOpenAt], ?_, ?_⟩
  · intro ht
    simp only [bzOpen, bzOpenAt, Bool.or_eq_true, bne_iff_ne] at ht
    rcases ht with ht | ht
    · exact truncOnlyLast_head hwf.truncOnlyLast ht
    · exact truncOnlyLast_head_bad hwf.truncOnlyLast ht
  · intro r hr; exact hwf.pos r (by simp only [bzOpen, bzOpenAt] at hr; simp [hr])
  · simpa [bzOpen, bzOpenAt] using h
  · intro ht
    simp only [bzOpen, bzOpenAt, Bool.or_eq_false_iff] at ht
    simpa [bzOpen, bzOpenAt] using ht.2

/-- bzip2 from a file descriptor: the repaired code on every well-formed file; today's code on single-stream files -/
theorem run_bzip2_fd (cfg : Cfg) (hc : CfgOk cfg) (fx : Fixes) (f : CFile α) (hwf : WF f)
    (h : fx.bzUnused = true ∨ f.length = 1) :
    RunOk (readFile cfg fx .bzip2 .fd f) (refPayload f) (faulty f) (fileSize f) := by
  cases f with
  | nil => exact absurd rfl hwf.ne_nil
  | cons s t =>
    have h' : fx.bzUnused = true ∨ t = [] := by
      rcases h with h | h
      · exact Or.inl h
      · right; simp at h; exact h
    have := run_spec (bzFdDec_step cfg hc.2.2 hc.1 fx (fileSize (s :: t)) (s :: t).length) (fuelFor (s :: t))
      ({ lib := bzOpen (s :: t) } : BzDec α) (bzOpen_inv fx s t hwf h')
      (by simp only [bzRem, bzOpen, bzOpenAt]; simp; have := fuelFor_gt (s :: t); rw [refPayload_cons, List.length_append] at this; omega)
    simpa [readFile, bzRem, bzBad, bzOpen, bzOpenAt, refPayload_cons, faulty] using this

/-- Everything at once for today's code (gzip from a file descriptor: on `gzFdDomain`). -/
theorem run_fixed (cfg : Cfg) (hc : CfgOk cfg) (c : Comp) (m : Mode) (f : CFile α) (hwf : WF f)
    (hd : c = .gzip → m = .fd → gzFdDomain f = true) :
    RunOk (readFile cfg Fixes.all c m f) (refPayload f) (if c = .none then false else faulty f) (inputSize c f) := by
  cases c
  · simpa [inputSize] using run_none cfg hc Fixes.all m f
  · cases m
    · simpa [inputSize] using run_gzip_fd_fixed cfg hc f hwf.truncOnlyLast (hd rfl rfl)
    · simpa [inputSize, readFile] using RunOk.weaken (run_buffer_fixed cfg hc .gzip f hwf) (Nat.zero_le _)
  · cases m
    · simpa [inputSize] using run_bzip2_fd cfg hc Fixes.all f hwf (Or.inl rfl)
    · simpa [inputSize, readFile] using RunOk.weaken (run_buffer_fixed cfg hc .bzip2 f hwf) (Nat.zero_le _)

theorem truncOnlyLast_of_intact : ∀ {f : CFile α}, faulty f = false → truncOnlyLast f = true := by
  intro f
  induction f with
  | nil => intro _; rfl
  | cons s t ih =>
    intro h
    rw [faulty_cons] at h
    simp only [Bool.or_eq_false_iff, bne_eq_false_iff_eq] at h
    cases t with
    | nil => rfl
    | cons a t => simp [truncOnlyLast, h.1.1, h.1.2, ih h.2]

theorem result_of_good {r : Run α} {p : List α} (h : r.err = none ∧ r.chunks.flatten = p) : r.result = .ok p := by
  simp [Run.result, h.1, h.2]

/-! ## decompress_complete -/

/-- Full statement: every intact file — any number of streams, any payload sizes (0 included), any
    compressed sizes / alignment, gzip or bzip2 (or none), fd or memory buffer, any buffer sizes — is read
    as exactly the concatenation of the payloads. -/
def DecompressComplete (fx : Fixes) : Prop :=
  ∀ (α : Type) (cfg : Cfg) (c : Comp) (m : Mode) (f : CFile α), CfgOk cfg → WF f → intact f = true →
    readAll cfg fx c m f = .ok (refPayload f)

theorem decompress_complete : DecompressComplete Fixes.all := by
  intro α cfg c m f hc hwf hi
  have hb : faulty f = false := by rw [intact_iff_faulty] at hi; simpa using hi
  have := (run_fixed cfg hc c m f hwf (fun _ _ => gzFdDomain_of_noMagic (noMagic_of_intact hb))).good (by split <;> simp [hb])
  exact result_of_good this

/-- non-vacuity: a three-stream file with an empty middle stream -/
example : CfgOk { ibs := 4 } ∧ WF ([⟨30, [1, 2, 3, 4, 5], false, false, .none⟩, ⟨14, [], false, false, .none⟩, ⟨40, [6], false, false, .none⟩] : CFile Nat) :=
  ⟨by simp [CfgOk], by decide⟩

def cfg64 : Cfg := { ibs := 64 }
theorem cfg64_ok : CfgOk cfg64 := by simp [CfgOk, cfg64]

/-- Regression witnesses (code before the fixes).  F11a (gzip): two members in a memory buffer, the second is dropped. -/
def wA : CFile Nat := [⟨22, [1, 2], false, false, .none⟩, ⟨21, [3], false, false, .none⟩]
theorem witness_gzip_buffer : readFile cfg64 Fixes.none .gzip .buf wA = { chunks := [[1, 2]], err := none, offs := [0, 0] } := by decide
theorem decompress_complete_refuted_gzip_buffer : ¬ DecompressComplete Fixes.none := by
  intro h
  have := h Nat cfg64 .gzip .buf wA cfg64_ok (by decide) (by decide)
  unfold readAll at this; rw [witness_gzip_buffer] at this
  simp [Run.result, wA, refPayload] at this

/-- F11a (bzip2) -/
theorem witness_bzip2_buffer : readFile cfg64 Fixes.none .bzip2 .buf wA = { chunks := [[1, 2]], err := none, offs := [0, 0] } := by decide
theorem decompress_complete_refuted_bzip2_buffer :
    readAll cfg64 Fixes.none .bzip2 .buf wA ≠ .ok (refPayload wA) := by
  unfold readAll; rw [witness_bzip2_buffer]
  simp [Run.result, wA, refPayload]

/-- F11b: bzip2 from a file descriptor, the second stream is already in the 5000-byte read-ahead
    (the fread came back short: feof) — dropped. -/
def wB : CFile Nat := [⟨40, [1, 2], false, false, .none⟩, ⟨39, [3], false, false, .none⟩]
theorem witness_bzip2_fd_tail : readFile cfg64 Fixes.none .bzip2 .fd wB = { chunks := [[1, 2]], err := none, offs := [79, 79] } := by decide
theorem decompress_complete_refuted_bzip2_fd_tail :
    readAll cfg64 Fixes.none .bzip2 .fd wB ≠ .ok (refPayload wB) := by
  unfold readAll; rw [witness_bzip2_fd_tail]
  simp [Run.result, wB, refPayload]

/-- F11c: the first stream ends exactly at the read-ahead boundary: num_unused = 0 — the rest (6500 bytes,
    not in the read-ahead) is dropped. -/
def wC : CFile Nat := [⟨5000, [1, 2], false, false, .none⟩, ⟨6500, [3], false, false, .none⟩]
theorem witness_bzip2_fd_boundary : readFile cfg64 Fixes.none .bzip2 .fd wC = { chunks := [[1, 2]], err := none, offs := [5000, 5000] } := by decide
theorem decompress_complete_refuted_bzip2_fd_boundary :
    readAll cfg64 Fixes.none .bzip2 .fd wC ≠ .ok (refPayload wC) := by
  unfold readAll; rw [witness_bzip2_fd_boundary]
  simp [Run.result, wC, refPayload]

/-- F11d: an empty first stream, a long second one: read() returns an empty chunk in the middle of the file. -/
def wD : CFile Nat := [⟨14, [], false, false, .none⟩, ⟨6500, [3], false, false, .none⟩]
theorem witness_bzip2_fd_empty_chunk : readFile cfg64 Fixes.none .bzip2 .fd wD = { chunks := [], err := none, offs := [5000] } := by decide
theorem decompress_complete_refuted_bzip2_fd_empty_chunk :
    readAll cfg64 Fixes.none .bzip2 .fd wD ≠ .ok (refPayload wD) := by
  unfold readAll; rw [witness_bzip2_fd_empty_chunk]
  simp [Run.result, wD, refPayload]

/-- F11d, second form: payload = input_buffer_size and the stream trailer straddles the read-ahead boundary:
    BZ_OK with a full buffer, then BZ_STREAM_END with 0 bytes. -/
def wD2 : CFile Nat := [⟨5004, [1, 2], false, false, .none⟩, ⟨6500, [3], false, false, .none⟩]
theorem witness_bzip2_fd_empty_chunk2 :
    readFile { ibs := 2 } Fixes.none .bzip2 .fd wD2 = { chunks := [[1, 2]], err := none, offs := [5000, 10000] } := by decide

/-- the same files under today's code -/
theorem witnesses_fixed :
    readAll cfg64 Fixes.all .gzip .buf wA = .ok [1, 2, 3] ∧ readAll cfg64 Fixes.all .bzip2 .buf wA = .ok [1, 2, 3] ∧
    readAll cfg64 Fixes.all .bzip2 .fd wB = .ok [1, 2, 3] ∧ readAll cfg64 Fixes.all .bzip2 .fd wC = .ok [1, 2, 3] ∧
    readAll cfg64 Fixes.all .bzip2 .fd wD = .ok [3] ∧ readAll { ibs := 2 } Fixes.all .bzip2 .fd wD2 = .ok [1, 2, 3] := by
  refine ⟨?_, ?_, ?_, ?_, ?_, ?_⟩ <;> rfl

/-- What held before the fixes (1): the buffer decompressors deliver exactly the first stream — complete for
    single-stream buffers, and EVERY byte after the first stream is lost, whatever the sizes. -/
theorem decompress_buffer_first_stream_only_partial (cfg : Cfg) (hc : CfgOk cfg) (k : Kind) (s : Stream α) (t : CFile α)
    (hs : s.trunc = false) (hb : s.bad = .none) :
    readAll cfg Fixes.none (match k with | .gzip => .gzip | .bzip2 => .bzip2) .buf (s :: t) = .ok s.payload := by
  have := (run_buffer_current cfg hc k s t hs hb).good rfl
  cases k <;> exact result_of_good (by simpa [readFile] using this)

/-- What held before the fixes (2): single-stream files, both libraries, fd and buffer. -/
theorem decompress_complete_single_stream_partial (cfg : Cfg) (hc : CfgOk cfg) (c : Comp) (m : Mode) (s : Stream α)
    (hs : s.trunc = false) (hbn : s.bad = .none) (hpos : 0 < s.csize) :
    readAll cfg Fixes.none c m [s] = .ok s.payload := by
  have hwf : WF [s] := by simp [WF, wfB, truncOnlyLast, hpos, hs]
  have hb : faulty [s] = false := by simp [faulty, hs, hbn]
  have hp : refPayload [s] = s.payload := by simp [refPayload]
  cases c
  · have := (run_none cfg hc Fixes.none m [s]).good rfl
    rw [hp] at this; exact result_of_good this
  · cases m
    · have := (run_gzip_fd cfg hc Fixes.none [s] rfl (by simp [noMagic, hbn])).good hb
      rw [hp] at this; exact result_of_good this
    · exact decompress_buffer_first_stream_only_partial cfg hc .gzip s [] hs hbn
  · cases m
    · have := (run_bzip2_fd cfg hc Fixes.none [s] hwf (Or.inr rfl)).good hb
      rw [hp] at this; exact result_of_good this
    · exact decompress_buffer_first_stream_only_partial cfg hc .bzip2 s [] hs hbn

/-- Holds for any `Fixes` (3): gzip from a file descriptor, any number of members (gzread is multi-member aware). -/
theorem decompress_complete_gzip_fd_partial (cfg : Cfg) (hc : CfgOk cfg) (fx : Fixes) (f : CFile α) (hi : intact f = true) :
    readAll cfg fx .gzip .fd f = .ok (refPayload f) := by
  have hb : faulty f = false := by rw [intact_iff_faulty] at hi; simpa using hi
  exact result_of_good ((run_gzip_fd cfg hc fx f (truncOnlyLast_of_intact hb) (noMagic_of_intact hb)).good hb)

/-- Holds for any `Fixes` (4): uncompressed input. -/
theorem decompress_complete_none_partial (cfg : Cfg) (hc : CfgOk cfg) (fx : Fixes) (m : Mode) (f : CFile α) :
    readAll cfg fx .none m f = .ok (refPayload f) :=
  result_of_good ((run_none cfg hc fx m f).good rfl)

/-! ## empty_chunk_only_at_end (the input contract of C06) -/

/-- The queue side of the contract holds for ANY decompressor: the read thread only ever queues non-empty
    chunks (then one end marker). -/
theorem queue_chunks_nonempty (d : Dec σ α) : ∀ fuel s, ∀ c ∈ (run d fuel s).chunks, c ≠ [] := by
  intro fuel
  induction fuel with
  | zero => intro s c hc; simp [run] at hc
  | succ fuel ih =>
    intro s c hc
    simp only [run] at hc
    split at hc
    · simp at hc
    · rename_i data s' _
      split at hc
      · simp at hc
      · rename_i hne
        simp at hc
        rcases hc with rfl | hc
        · intro h; simp [h] at hne
        · exact ih s' c hc

/-- The decompressor side: the loop ends without an error (= `read()` returned an empty chunk) only when
    every payload byte has been delivered — an empty chunk means "end of input" and nothing else. -/
def EmptyChunkOnlyAtEnd (fx : Fixes) : Prop :=
  ∀ (α : Type) (cfg : Cfg) (c : Comp) (m : Mode) (f : CFile α), CfgOk cfg → WF f → intact f = true →
    (readFile cfg fx c m f).err = none → (readFile cfg fx c m f).chunks.flatten = refPayload f

theorem empty_chunk_only_at_end : EmptyChunkOnlyAtEnd Fixes.all := by
  intro α cfg c m f hc hwf hi _
  have hb : faulty f = false := by rw [intact_iff_faulty] at hi; simpa using hi
  exact ((run_fixed cfg hc c m f hwf (fun _ _ => gzFdDomain_of_noMagic (noMagic_of_intact hb))).good (by split <;> simp [hb])).2

/-- F11d: before fix d74b2ae an empty chunk was produced before the end. -/
theorem empty_chunk_only_at_end_refuted : ¬ EmptyChunkOnlyAtEnd Fixes.none := by
  intro h
  have := h Nat cfg64 .bzip2 .fd wD cfg64_ok (by decide) (by decide) (by rw [witness_bzip2_fd_empty_chunk])
  rw [witness_bzip2_fd_empty_chunk] at this
  simp [wD, refPayload] at this

/-! ## truncation_detected -/

/-- Full statement: a file that ends inside a stream is reported as an error.  ("The library reports
    truncation" is part of the oracles' contracts: gzread records Z_BUF_ERROR, BZ2_bzRead returns
    BZ_UNEXPECTED_EOF; inflate returns Z_BUF_ERROR only when a call makes no progress at all, and
    BZ2_bzDecompress never complains — the repaired buffer wrappers test avail_in themselves.) -/
def TruncationDetected (fx : Fixes) : Prop :=
  ∀ (α : Type) (cfg : Cfg) (c : Comp) (m : Mode) (f : CFile α), CfgOk cfg → WF f → c ≠ .none → hasTrunc f = true →
    ∃ e, readAll cfg fx c m f = .error e ∧ e.cls ≠ .fuel

theorem truncation_detected : TruncationDetected Fixes.all := by
  intro α cfg c m f hc hwf hcn ht
  have hd := gzFdDomain_of_noMagic (noMagic_of_hasTrunc hwf.truncOnlyLast hwf.excl ht)
  obtain ⟨e, he, hf⟩ := (run_fixed cfg hc c m f hwf (fun _ _ => hd)).bad (by simp [hcn, faulty_of_hasTrunc ht])
  exact ⟨e, by simp [readAll, Run.result, he], hf⟩

/-- non-vacuity -/
example : WF ([⟨30, [1, 2], false, false, .none⟩, ⟨7, [], true, false, .none⟩] : CFile Nat) ∧
    hasTrunc ([⟨30, [1, 2], false, false, .none⟩, ⟨7, [], true, false, .none⟩] : CFile Nat) = true := ⟨by decide, by decide⟩

/-- F11e: a gzip buffer cut inside the header (5 of 20+ bytes): inflate consumes the bytes, produces nothing,
    returns Z_OK — accepted as an empty file. -/
def wE : CFile Nat := [⟨5, [], true, false, .none⟩]
theorem witness_gzip_buffer_truncated : readFile cfg64 Fixes.none .gzip .buf wE = { chunks := [], err := none, offs := [0] } := by decide
theorem truncation_detected_refuted_gzip_buffer : ¬ TruncationDetected Fixes.none := by
  intro h
  obtain ⟨e, he, _⟩ := h Nat cfg64 .gzip .buf wE cfg64_ok (by decide) (by decide) (by decide)
  unfold readAll at he; rw [witness_gzip_buffer_truncated] at he
  simp [Run.result] at he

/-- new: a bzip2 buffer cut anywhere (here after one complete 3-byte... decodable prefix) is accepted. -/
def wF : CFile Nat := [⟨30, [1, 2, 3], true, false, .none⟩]
theorem witness_bzip2_buffer_truncated :
    readFile cfg64 Fixes.none .bzip2 .buf wF = { chunks := [[1, 2, 3]], err := none, offs := [0, 0] } := by decide

/-- consequence of F11b: a cut second stream is not noticed either -/
def wG : CFile Nat := [⟨40, [1, 2], false, false, .none⟩, ⟨9, [], true, false, .none⟩]
theorem witness_bzip2_fd_truncated_second : readFile cfg64 Fixes.none .bzip2 .fd wG = { chunks := [[1, 2]], err := none, offs := [49, 49] } := by decide

/-- the same files under today's code: errors -/
theorem witnesses_truncated_fixed :
    (readFile cfg64 Fixes.all .gzip .buf wE).err = some ⟨.gzip, .read⟩ ∧
    (readFile cfg64 Fixes.all .bzip2 .buf wF).err = some ⟨.bzip2, .read⟩ ∧
    (readFile cfg64 Fixes.all .bzip2 .fd wG).err = some ⟨.bzip2, .read⟩ := by
  refine ⟨?_, ?_, ?_⟩ <;> rfl

/-- What held before the fixes: gzip from a file descriptor (error from gzclose_r), and single-stream bzip2 from a file
    descriptor (BZ_UNEXPECTED_EOF). -/
theorem truncation_detected_gzip_fd_partial (cfg : Cfg) (hc : CfgOk cfg) (fx : Fixes) (f : CFile α) (hwf : WF f)
    (ht : hasTrunc f = true) :
    ∃ e, readAll cfg fx .gzip .fd f = .error e ∧ e.cls ≠ .fuel := by
  obtain ⟨e, he, hf⟩ := (run_gzip_fd cfg hc fx f hwf.truncOnlyLast (noMagic_of_hasTrunc hwf.truncOnlyLast hwf.excl ht)).bad
    (faulty_of_hasTrunc ht)
  exact ⟨e, by simp [readAll, Run.result, he], hf⟩

theorem truncation_detected_bzip2_fd_single_partial (cfg : Cfg) (hc : CfgOk cfg) (s : Stream α) (hpos : 0 < s.csize)
    (ht : s.trunc = true) (hbn : s.bad = .none) :
    ∃ e, readAll cfg Fixes.none .bzip2 .fd [s] = .error e ∧ e.cls ≠ .fuel := by
  have hwf : WF [s] := by simp [WF, wfB, truncOnlyLast, hpos, hbn]
  obtain ⟨e, he, hf⟩ := (run_bzip2_fd cfg hc Fixes.none [s] hwf (Or.inr rfl)).bad (by simp [faulty, ht])
  exact ⟨e, by simp [readAll, Run.result, he], hf⟩

/-! ## corruption_detected / ok_only_if_valid -/

/-- Full statement: a file in which some stream is cut OR DAMAGED (a header — of the first stream or of any
    later one —, the body, the trailer; trailing bytes after the last stream that are not a complete valid
    stream) is reported as an error. -/
def CorruptionDetected (fx : Fixes) : Prop :=
  ∀ (α : Type) (cfg : Cfg) (c : Comp) (m : Mode) (f : CFile α), CfgOk cfg → WF f → c ≠ .none → faulty f = true →
    ∃ e, readAll cfg fx c m f = .error e ∧ e.cls ≠ .fuel

/-- The same from the reader's side: a file is accepted ONLY IF it is exactly a concatenation of complete valid
    streams, and then the bytes delivered are the concatenation of their payloads — never a shorter file. -/
def OkOnlyIfValid (fx : Fixes) : Prop :=
  ∀ (α : Type) (cfg : Cfg) (c : Comp) (m : Mode) (f : CFile α), CfgOk cfg → WF f → c ≠ .none →
    ∀ out, readAll cfg fx c m f = .ok out → faulty f = false ∧ out = refPayload f

/-- REFUTED by today's code for gzip from a file descriptor: a member AFTER THE FIRST whose magic bytes are
    damaged is "trailing garbage" for zlib's gzread — the file is accepted, the members from the damaged one
    on are dropped (finding `corruption-accepted:gzip-fd:magic-of-later-member`). -/
def wM : CFile Nat := [⟨30, [1, 2], false, false, .none⟩, ⟨25, [], false, false, .magic⟩]
theorem witness_gzip_fd_later_magic : readAll cfg64 Fixes.all .gzip .fd wM = .ok [1, 2] := by rfl
theorem ok_only_if_valid_refuted_gzip_fd_later_magic : ¬ OkOnlyIfValid Fixes.all := by
  intro h
  have := (h Nat cfg64 .gzip .fd wM cfg64_ok (by decide) (by decide) [1, 2] witness_gzip_fd_later_magic).1
  revert this; decide
theorem corruption_detected_refuted_gzip_fd_later_magic : ¬ CorruptionDetected Fixes.all := by
  intro h
  obtain ⟨e, he, _⟩ := h Nat cfg64 .gzip .fd wM cfg64_ok (by decide) (by decide) (by decide)
  rw [witness_gzip_fd_later_magic] at he; cases he

/-- Everything else holds: gzip and bzip2, file descriptor and memory buffer, every file — for gzip from a file
    descriptor the files of `gzFdDomain` (no member after the first lacks the magic). -/
theorem corruption_detected_partial (cfg : Cfg) (hc : CfgOk cfg) (c : Comp) (m : Mode) (f : CFile α) (hwf : WF f)
    (hcn : c ≠ .none) (hd : c = .gzip → m = .fd → gzFdDomain f = true) (hf : faulty f = true) :
    ∃ e, readAll cfg Fixes.all c m f = .error e ∧ e.cls ≠ .fuel := by
  obtain ⟨e, he, hfu⟩ := (run_fixed cfg hc c m f hwf hd).bad (by simp [hcn, hf])
  exact ⟨e, by simp [readAll, Run.result, he], hfu⟩

theorem ok_only_if_valid_partial (cfg : Cfg) (hc : CfgOk cfg) (c : Comp) (m : Mode) (f : CFile α) (hwf : WF f)
    (hcn : c ≠ .none) (hd : c = .gzip → m = .fd → gzFdDomain f = true) (out : List α)
    (hok : readAll cfg Fixes.all c m f = .ok out) :
    faulty f = false ∧ out = refPayload f := by
  cases hf : faulty f
  · have := result_of_good ((run_fixed cfg hc c m f hwf hd).good (by simp [hcn, hf]))
    unfold readAll at hok
    rw [this] at hok
    exact ⟨rfl, by cases hok; rfl⟩
  · obtain ⟨e, he, _⟩ := corruption_detected_partial cfg hc c m f hwf hcn hd hf
    rw [he] at hok; cases hok

/-- non-vacuity: three streams, the header of the third is damaged -/
example : WF ([⟨30, [1, 2], false, false, .none⟩, ⟨14, [], false, false, .none⟩, ⟨40, [], false, false, .magic⟩] : CFile Nat) ∧
    faulty ([⟨30, [1, 2], false, false, .none⟩, ⟨14, [], false, false, .none⟩, ⟨40, [], false, false, .magic⟩] : CFile Nat) = true :=
  ⟨by decide, by decide⟩

/-- The clause seed C09-6 breaks, for ALL inputs: bzip2 — from a file descriptor and from a memory buffer —
    and gzip from a memory buffer: any number of complete valid streams followed by bytes that do not start
    with a stream header (a damaged "BZh1".."BZh9" / 1f 8b of the 2nd, 3rd, … stream; trailing garbage) is an
    ERROR, whatever the sizes and alignments — never the shorter file `pre`. -/
theorem later_stream_bad_header_is_error (cfg : Cfg) (hc : CfgOk cfg) (c : Comp) (m : Mode) (pre : CFile α) (g : Stream α)
    (hcm : (c = .bzip2) ∨ (c = .gzip ∧ m = .buf)) (hwf : WF (pre ++ [g])) (hg : g.bad = .magic) :
    ∃ e, readAll cfg Fixes.all c m (pre ++ [g]) = .error e ∧ e.cls ≠ .fuel := by
  apply corruption_detected_partial cfg hc c m (pre ++ [g]) hwf
  · rcases hcm with h | h
    · simp [h]
    · simp [h.1]
  · intro h1 h2
    rcases hcm with h | h
    · rw [h] at h1; cases h1
    · rw [h.2] at h2; cases h2
  · simp [faulty, hg]

/-- the same for a later stream that HAS its header but is damaged further on (method / flags / level digit,
    body, CRC, ISIZE, end-of-stream magic): all four compressed paths -/
theorem later_stream_damaged_is_error (cfg : Cfg) (hc : CfgOk cfg) (c : Comp) (m : Mode) (pre : CFile α) (g : Stream α)
    (hcn : c ≠ .none) (hwf : WF (pre ++ [g])) (hpre : faulty pre = false) (hg : g.bad = .data) :
    ∃ e, readAll cfg Fixes.all c m (pre ++ [g]) = .error e ∧ e.cls ≠ .fuel := by
  apply corruption_detected_partial cfg hc c m (pre ++ [g]) hwf hcn
  · intro _ _
    apply gzFdDomain_of_noMagic
    have := noMagic_of_intact hpre
    simp only [noMagic, List.all_append, List.all_cons, List.all_nil, Bool.and_true, Bool.and_eq_true] at this ⊢
    exact ⟨this, by simp [hg]⟩
  · simp [faulty, hg]

/-- non-vacuity of both -/
example : WF ([⟨30, [1, 2], false, false, .none⟩] ++ [(⟨40, [], false, false, .magic⟩ : Stream Nat)]) := by decide
example : readAll cfg64 Fixes.all .bzip2 .fd ([⟨30, [1, 2], false, false, .none⟩] ++ [(⟨40, [], false, false, .magic⟩ : Stream Nat)])
    = .error ⟨.bzip2, .read⟩ := by rfl
example : readAll cfg64 Fixes.all .bzip2 .fd ([⟨5000, [1, 2], false, false, .none⟩] ++ [(⟨40, [], false, false, .magic⟩ : Stream Nat)])
    = .error ⟨.bzip2, .read⟩ := by rfl

/-- gzip from a file descriptor, damage in the FIRST member's magic: gzread copies the raw bytes verbatim
    ("transparent" mode).  Before the `gzdirect()` check they were delivered as if they were the payload
    (regression witness, finding `corruption-accepted:gzip-fd:magic-of-first-member`); today's code raises. -/
def wN : CFile Nat := [⟨30, [31, 0, 8, 0], false, false, .magic⟩]
theorem witness_gzip_fd_first_magic_before_fix :
    readAll cfg64 { Fixes.all with gzDirect := false } .gzip .fd wN = .ok [31, 0, 8, 0] := by rfl
theorem corruption_detected_refuted_before_gzdirect : ¬ CorruptionDetected { Fixes.all with gzDirect := false } := by
  intro h
  obtain ⟨e, he, _⟩ := h Nat cfg64 .gzip .fd wN cfg64_ok (by decide) (by decide) (by decide)
  rw [witness_gzip_fd_first_magic_before_fix] at he; cases he
theorem gzip_fd_first_magic_is_error (cfg : Cfg) (hc : CfgOk cfg) (s : Stream α) (hpos : 0 < s.csize) (hb : s.bad = .magic)
    (ht : s.trunc = false) (hp : s.payload ≠ []) :
    ∃ e, readAll cfg Fixes.all .gzip .fd [s] = .error e ∧ e.cls ≠ .fuel := by
  apply corruption_detected_partial cfg hc .gzip .fd [s] (by simp [WF, wfB, truncOnlyLast, hpos, ht]) (by simp)
  · intro _ _
    have : s.payload.isEmpty = false := by
      cases h : s.payload with
      | nil => exact absurd h hp
      | cons _ _ => rfl
    simp [gzFdDomain, noMagic, this]
  · simp [faulty, hb]

/-- the witnesses of the two findings under today's code, and the buffer path on the same bytes -/
theorem witnesses_magic_fixed :
    readAll cfg64 Fixes.all .gzip .fd wN = .error ⟨.gzip, .read⟩ ∧
    readAll cfg64 Fixes.all .gzip .buf wM = .error ⟨.gzip, .read⟩ ∧
    readAll cfg64 Fixes.all .bzip2 .fd wM = .error ⟨.bzip2, .read⟩ ∧
    readAll cfg64 Fixes.all .bzip2 .buf wM = .error ⟨.bzip2, .read⟩ := by
  refine ⟨?_, ?_, ?_, ?_⟩ <;> rfl

/-! ## offset_le_file_size -/

/-- The offset reported after every `read()` never exceeds the size of the input (file or buffer):
    the code before the fixes: uncompressed and gzip-fd on every file, single-stream bzip2-fd … -/
theorem offset_le_file_size_current_partial (cfg : Cfg) (hc : CfgOk cfg) (f : CFile α) :
    (∀ m, ∀ o ∈ (readFile cfg Fixes.none .none m f).offs, o ≤ inputSize .none f) ∧
    (∀ o ∈ (readFile cfg Fixes.none .gzip .fd f).offs, o ≤ inputSize .gzip f) ∧
    (WF f → f.length = 1 → ∀ o ∈ (readFile cfg Fixes.none .bzip2 .fd f).offs, o ≤ inputSize .bzip2 f) :=
  ⟨fun m => (run_none cfg hc Fixes.none m f).offs, (run_gzip_fd_raw cfg hc Fixes.none f).offs,
   fun hwf h1 => (run_bzip2_fd cfg hc Fixes.none f hwf (Or.inr h1)).offs⟩

/-- … and a decompressor that never calls set_offset (both buffer decompressors, any `Fixes`, any file)
    reports 0. -/
theorem offs_of_bounded (d : Dec σ α) (sz : Nat) (h : ∀ s, d.offset s ≤ sz) : ∀ fuel s, ∀ o ∈ (run d fuel s).offs, o ≤ sz := by
  intro fuel
  induction fuel with
  | zero => intro s o ho; simp [run] at ho
  | succ fuel ih =>
    intro s o ho
    simp only [run] at ho
    split at ho
    · simp at ho
    · rename_i data s' _
      split at ho
      · simp at ho; rw [ho]; exact h s'
      · simp at ho
        rcases ho with rfl | ho
        · exact h s'
        · exact ih s' o ho

theorem offset_le_file_size_buffer (cfg : Cfg) (fx : Fixes) (c : Comp) (f : CFile α) (hc : c ≠ .none) :
    ∀ o ∈ (readFile cfg fx c .buf f).offs, o ≤ inputSize c f := by
  intro o ho
  cases c
  · exact absurd rfl hc
  · exact Nat.le_trans (offs_of_bounded (bufDec cfg fx .gzip f.length) 0 (fun _ => Nat.le_refl _) _ _ o ho) (Nat.zero_le _)
  · exact Nat.le_trans (offs_of_bounded (bufDec cfg fx .bzip2 f.length) 0 (fun _ => Nat.le_refl _) _ _ o ho) (Nat.zero_le _)

/-- … and Bzip2Decompressor (offset = ftell of the FILE) on ANY file, today's code and repaired, multi-stream included. -/
theorem offset_le_file_size_bzip2_fd (cfg : Cfg) (fx : Fixes) (f : CFile α) :
    ∀ o ∈ (readFile cfg fx .bzip2 .fd f).offs, o ≤ inputSize .bzip2 f :=
  bzFd_offsets cfg fx f

/-- FULL statement, for the code before and after the fixes alike (any `Fixes`), every compression, fd and
    buffer, EVERY file (well-formed or not): the offset reported after each `read()` never exceeds the size
    of the input. -/
theorem offset_le_file_size (cfg : Cfg) (hc : CfgOk cfg) (fx : Fixes) (c : Comp) (m : Mode) (f : CFile α) :
    ∀ o ∈ (readFile cfg fx c m f).offs, o ≤ inputSize c f := by
  cases c
  · exact (run_none cfg hc fx m f).offs
  · cases m
    · exact (run_gzip_fd_raw cfg hc fx f).offs
    · exact offset_le_file_size_buffer cfg fx .gzip f (by simp)
  · cases m
    · exact offset_le_file_size_bzip2_fd cfg fx f
    · exact offset_le_file_size_buffer cfg fx .bzip2 f (by simp)

/-- today's code on every file (instance of the general statement) -/
theorem offset_le_file_size_fixed (cfg : Cfg) (hc : CfgOk cfg) (c : Comp) (m : Mode) (f : CFile α) :
    ∀ o ∈ (readFile cfg Fixes.all c m f).offs, o ≤ inputSize c f :=
  offset_le_file_size cfg hc Fixes.all c m f

/-! ## own_output_roundtrip -/

/-- Whatever sequence of `write()` calls the library's own GzipCompressor / Bzip2Compressor got (one stream,
    see `compressorOutput`), the decompressors read it back identically, from a file descriptor and from a
    memory buffer (first conjunct: today's code; second: this already held before the fixes). -/
theorem own_output_roundtrip (cfg : Cfg) (hc : CfgOk cfg) (c : Comp) (m : Mode) (writes : List (List α)) (csize : Nat)
    (hpos : 0 < csize) :
    readAll cfg Fixes.all c m (compressorOutput writes csize) = .ok writes.flatten ∧
    readAll cfg Fixes.none c m (compressorOutput writes csize) = .ok writes.flatten := by
  constructor
  · have := decompress_complete α cfg c m (compressorOutput writes csize) hc
      (by simp [WF, wfB, compressorOutput, truncOnlyLast, hpos]) (by simp [intact, compressorOutput])
    simpa [compressorOutput, refPayload] using this
  · exact decompress_complete_single_stream_partial cfg hc c m ⟨csize, writes.flatten, false, false, .none⟩ rfl rfl hpos

/-- non-vacuity -/
example : readAll cfg64 Fixes.all .bzip2 .fd (compressorOutput [[1, 2], [], [3]] 40) = .ok [1, 2, 3] := by rfl

/-- Tie of the wrappers' buffer constants to the CURRENT source (regenerated `Generated/Consts.lean`):
    the default output step of the model configuration is the `buffer_size` of both buffer
    decompressors (the input buffer size `ibs` is a parameter of every theorem). -/
theorem consts_tie_decomp :
    ({ ibs := 0 } : Cfg).ostep = Osmium.Generated.Consts.gzipBufferStep ∧ ({ ibs := 0 } : Cfg).ostep = Osmium.Generated.Consts.bzip2BufferStep ∧
    0 < Osmium.Generated.Consts.decompInputBufferSize := by decide

end Osmium.Props.C09
