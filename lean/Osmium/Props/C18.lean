/-
C18 — Web-Mercator projection and tile numbers are accurate, in range and monotone.

PARTIAL BY NATURE (DESIGN.md §3 C18).  Proved here, for ALL doubles / all fixed-point
coordinates / all zoom levels ≤ 30 of the model (lean/Osmium/Model/Tile.lean):

  * MAIN LINE — the code as it is since /repo commit 3271999 (clamp as double, then cast;
    `cfg.fixed = true`): `tileProperty` — for every zoom ≤ 30 and ALL valid locations the tile is
    defined (`noUB`: the double → int32 conversion is never undefined, for any double), valid,
    never decreases moving east / south — including exactly at ±180° and at the poles — and the
    tile at zoom z+1 lies inside the tile at zoom z; no side condition.  For every rounding
    function satisfying `RoundSpec` (IEEE-754 binary64 round-to-nearest-even: `rne53_cfgOk`; exact
    rationals: `exact_cfgOk`) and every monotone projection `lon ↦ x`, `lat ↦ y` (±∞ allowed).
    `tileProperty_current_source` instantiates it with the constants AND the variant flag
    regenerated from the source on every run: if the clamp-before-cast is removed again the flag
    flips and this theorem no longer checks.
  * the component theorems (`tile_in_range`, `tile_monotone_x/y`, `tile_nesting`, …) hold for both
    variants under the explicit hypothesis that the conversion is defined (`NoUBx` / `NoUBy` /
    `NoUB`); `tileProperty_of_noUB` assembles them.
  * REGRESSION WITNESSES (finding F8, fixed): the pre-fix variant (`cfg.fixed = false`: cast, then
    clamp as int32) violates that hypothesis for valid locations: `noUB_fails_at_south_pole`,
    `noUB_fails_zoom30_near_pole`, `tileProperty_refuted_prefix`; what the x86-64 build then
    returned: `x86_south_pole_tile`.  tools/props/c18.py probes the same two inputs on the real
    code under the stable keys `tile-y-south-pole-ub`, `tile-y-zoom30-south-band-ub`.
  * the linear part of the projection: `lonToX_mono`, `lonToX_strictMono_exact`, `roundtrip_x`
    (exact rationals) and `roundtrip_x_double` (IEEE-754 binary64, the library's constants, every
    valid fixed-point longitude).

NOT proved (checked by execution only, tools/props/c18.py, labelled `exploration` in the
evidence): everything about `lat_to_y` / `y_to_lat` (log, tan, atan, exp in IEEE-754 doubles):
the 1 cm / quarter-step accuracy of the rational approximation, strict monotonicity of the
computed y, the latitude round trip.  In the theorems `lat ↦ y` is an arbitrary monotone
parameter.
-/
import Osmium.Lemmas.Tile
import Osmium.Lemmas.TileRound
import Osmium.Lemmas.TileRoundTrip
import Osmium.Generated.C18Consts
import Osmium.Generated.Src
import Osmium.Lemmas.CxxSem

namespace Osmium.Tile.C18

open Osmium.Tile

/-! ### hypotheses -/

/-- the configuration is sane: positive half-extent, rounding function satisfies `RoundSpec` -/
structure CfgOk (cfg : Cfg) : Prop where
  Mpos : 0 < cfg.M
  rnd : RoundSpec cfg.rnd

/-- the double → int32 conversion inside mercx_to_tilex is defined -/
def NoUBx (cfg : Cfg) (z : Nat) (x : EVal) : Prop := ∃ t, mercxToTilex cfg z x = .ok t
/-- the double → int32 conversion inside mercy_to_tiley is defined -/
def NoUBy (cfg : Cfg) (z : Nat) (y : EVal) : Prop := ∃ t, mercyToTiley cfg z y = .ok t
/-- … inside Tile(zoom, Location) -/
def NoUB (cfg : Cfg) (f g : Int → EVal) (z : Nat) (lon lat : Int) : Prop :=
  ∃ t, Tile.ofLoc cfg f g z lon lat = .ok t

/-- a projection fixed-point coordinate → double that never decreases and is never NaN
    (strictly increasing functions are a special case) -/
def MonoE (f : Int → EVal) : Prop := ∀ a b : Int, a ≤ b → f a ≤ f b

/-- IEEE-754 binary64 arithmetic with the library's constant is a sane configuration -/
theorem rne53_cfgOk (M : Rat) (hM : 0 < M) (fx : Bool) : CfgOk ⟨M, rne53, fx⟩ := ⟨hM, rne53_roundSpec⟩

/-- exact rational arithmetic is a sane configuration -/
theorem exact_cfgOk (M : Rat) (hM : 0 < M) (fx : Bool) : CfgOk ⟨M, fun q => q, fx⟩ := ⟨hM, id_roundSpec⟩

/-! ### range -/

theorem tilex_in_range (cfg : Cfg) (z : Nat) (hz : z ≤ 30) (x : EVal) (t : Int)
    (h : mercxToTilex cfg z x = .ok t) : 0 ≤ t ∧ t < 2 ^ z :=
  tfs_range cfg.fixed z (by omega) h

theorem tiley_in_range (cfg : Cfg) (z : Nat) (hz : z ≤ 30) (y : EVal) (t : Int)
    (h : mercyToTiley cfg z y = .ok t) : 0 ≤ t ∧ t < 2 ^ z :=
  tfs_range cfg.fixed z (by omega) h

/-- Tile(zoom, Location), Tile(zoom, Coordinates): whenever the conversion is defined the tile
    is valid (`Tile::valid()`: zoom ≤ 30, x and y inside [0, 2^zoom)). -/
theorem tile_in_range (cfg : Cfg) (f g : Int → EVal) (z : Nat) (hz : z ≤ 30) (lon lat : Int) (t : Tile)
    (h : Tile.ofLoc cfg f g z lon lat = .ok t) : t.valid = true := by
  obtain ⟨_, tx, ty, hx, hy, rfl⟩ := (ofLoc_ok_iff ..).1 h
  have rx := tilex_in_range cfg z hz _ _ hx
  have ry := tiley_in_range cfg z hz _ _ hy
  have : ¬ (z > maxZoom) := by unfold maxZoom; omega
  simp only [Tile.valid, this, if_false, numTiles_cast, decide_eq_true_eq]
  exact ⟨rx.1, rx.2, ry.1, ry.2⟩

/-! ### monotonicity -/

/-- moving east never decreases the tile x number (Mercator coordinates, any doubles incl. ±∞) -/
theorem tilex_monotone {cfg : Cfg} (ok : CfgOk cfg) (z : Nat) (hz : z ≤ 30) {x1 x2 : EVal} (h : x1 ≤ x2)
    {t1 t2 : Int} (h1 : mercxToTilex cfg z x1 = .ok t1) (h2 : mercxToTilex cfg z x2 = .ok t2) : t1 ≤ t2 :=
  tfs_mono cfg.fixed z (by omega) (scaledX_mono ok.rnd ok.Mpos z h) h1 h2

/-- moving south (y decreases) never decreases the tile y number -/
theorem tiley_monotone {cfg : Cfg} (ok : CfgOk cfg) (z : Nat) (hz : z ≤ 30) {y1 y2 : EVal} (h : y1 ≤ y2)
    {t1 t2 : Int} (h1 : mercyToTiley cfg z y1 = .ok t1) (h2 : mercyToTiley cfg z y2 = .ok t2) : t2 ≤ t1 :=
  tfs_mono cfg.fixed z (by omega) (scaledY_anti ok.rnd ok.Mpos z h) h2 h1

/-- Tile(zoom, Location): moving east never decreases x — for every monotone `lon_to_x`,
    under NoUB (both tiles are defined). -/
theorem tile_monotone_x {cfg : Cfg} (ok : CfgOk cfg) {f : Int → EVal} (hf : MonoE f) (g : Int → EVal)
    (z : Nat) (hz : z ≤ 30) {lon1 lon2 lat1 lat2 : Int} (h : lon1 ≤ lon2) {t1 t2 : Tile}
    (h1 : Tile.ofLoc cfg f g z lon1 lat1 = .ok t1) (h2 : Tile.ofLoc cfg f g z lon2 lat2 = .ok t2) :
    t1.x ≤ t2.x := by
  obtain ⟨_, a1, b1, hx1, _, rfl⟩ := (ofLoc_ok_iff ..).1 h1
  obtain ⟨_, a2, b2, hx2, _, rfl⟩ := (ofLoc_ok_iff ..).1 h2
  exact tilex_monotone ok z hz (hf _ _ h) hx1 hx2

/-- Tile(zoom, Location): moving south never decreases y — for every monotone `lat_to_y`,
    under NoUB. -/
theorem tile_monotone_y {cfg : Cfg} (ok : CfgOk cfg) (f : Int → EVal) {g : Int → EVal} (hg : MonoE g)
    (z : Nat) (hz : z ≤ 30) {lon1 lon2 lat1 lat2 : Int} (h : lat1 ≤ lat2) {t1 t2 : Tile}
    (h1 : Tile.ofLoc cfg f g z lon1 lat1 = .ok t1) (h2 : Tile.ofLoc cfg f g z lon2 lat2 = .ok t2) :
    t2.y ≤ t1.y := by
  obtain ⟨_, a1, b1, _, hy1, rfl⟩ := (ofLoc_ok_iff ..).1 h1
  obtain ⟨_, a2, b2, _, hy2, rfl⟩ := (ofLoc_ok_iff ..).1 h2
  exact tiley_monotone ok z hz (hg _ _ h) hy1 hy2

/-! ### nesting -/

/-- the x tile at zoom z+1 halves to the x tile at zoom z (and NoUB at z+1 implies NoUB at z) -/
theorem tilex_nesting {cfg : Cfg} (ok : CfgOk cfg) (z : Nat) (hz : z + 1 ≤ 30) (x : EVal) {t' : Int}
    (h : mercxToTilex cfg (z + 1) x = .ok t') : mercxToTilex cfg z x = .ok (t' / 2) := by
  unfold mercxToTilex scaledX at *
  rw [tileExtent_succ] at h
  exact nest_divC ok.rnd cfg.fixed z (by omega) _ _ h

theorem tiley_nesting {cfg : Cfg} (ok : CfgOk cfg) (z : Nat) (hz : z + 1 ≤ 30) (y : EVal) {t' : Int}
    (h : mercyToTiley cfg (z + 1) y = .ok t') : mercyToTiley cfg z y = .ok (t' / 2) := by
  unfold mercyToTiley scaledY at *
  rw [tileExtent_succ] at h
  exact nest_divC ok.rnd cfg.fixed z (by omega) _ _ h

/-- Tile(z+1, loc) lies inside Tile(z, loc) -/
theorem tile_nesting {cfg : Cfg} (ok : CfgOk cfg) (f g : Int → EVal) (z : Nat) (hz : z + 1 ≤ 30)
    (lon lat : Int) {t' : Tile} (h : Tile.ofLoc cfg f g (z + 1) lon lat = .ok t') :
    Tile.ofLoc cfg f g z lon lat = .ok ⟨t'.x / 2, t'.y / 2, z⟩ := by
  obtain ⟨hv, a, b, hx, hy, rfl⟩ := (ofLoc_ok_iff ..).1 h
  exact (ofLoc_ok_iff ..).2 ⟨hv, _, _, tilex_nesting ok z hz _ hx, tiley_nesting ok z hz _ hy, rfl⟩

/-! ### F8 (fixed in /repo 3271999), regression witnesses: NoUB is violated for valid locations by
    the pre-fix variant (cast, then clamp as int32) -/

/-- South pole: `lat_to_y(-90) = R·log(tan 0) = −∞`, `max − (−∞) = +∞`, and the conversion of +∞
    to int32 is undefined — at EVERY zoom, whatever the rounding. -/
theorem noUB_fails_at_south_pole (cfg : Cfg) (hfx : cfg.fixed = false) (z : Nat) :
    mercyToTiley cfg z .ninf = .error .ub := by
  simp [mercyToTiley, scaledY, subC, divC, tileFromScaled, hfx, toInt32, bind, Except.bind]

/-- … so Tile(zoom, Location(lon, −90°)) is undefined for every valid longitude, every zoom, every
    projection with `lat_to_y(−90°) = −∞`. -/
theorem noUB_fails_at_south_pole_loc (cfg : Cfg) (hfx : cfg.fixed = false) (f g : Int → EVal)
    (hg : g (-900000000) = .ninf) (z : Nat) (lon : Int) :
    ¬ NoUB cfg f g z lon (-900000000) := by
  rintro ⟨t, h⟩
  obtain ⟨_, a, b, _, hy, _⟩ := (ofLoc_ok_iff ..).1 h
  rw [hg, noUB_fails_at_south_pole cfg hfx z] at hy
  cases hy

/-- The x86-64 build returns INT32_MIN for that conversion, the clamp turns it into tile 0 —
    the NORTHERNMOST row instead of the southernmost (2^z − 1). -/
theorem x86_south_pole_tile (cfg : Cfg) (z : Nat) : mercyToTileyX86 cfg z .ninf = 0 := by
  have := one_le_two_pow z
  simp only [mercyToTileyX86, scaledY, subC, divC, tileFromScaledX86, toInt32X86, numTiles_cast]
  unfold clamp int32Min
  split_ifs <;> omega

/-- Zoom 30 near either pole: as soon as `max − y ≥ 4·max` (y ≤ −3·max, i.e. latitudes below
    about −89.9907°) the scaled value is ≥ 2^31 and the conversion is undefined, although the
    location is valid and y is finite. -/
theorem noUB_fails_zoom30_near_pole {cfg : Cfg} (ok : CfgOk cfg) (hfx : cfg.fixed = false)
    (hM4 : cfg.rnd (4 * cfg.M) = 4 * cfg.M) {y : Rat} (hy : y ≤ -3 * cfg.M) :
    mercyToTiley cfg 30 (.fin y) = .error .ub := by
  have hM := ok.Mpos
  cases hc : mercyToTiley cfg 30 (.fin y) with
  | error e => rw [tfs_error_ub hc]
  | ok t =>
    exfalso
    rw [mercyToTiley, hfx] at hc
    obtain ⟨q, hq, _, q2, _⟩ := (tfs_unfixed_iff _ _ _).1 hc
    -- a = rnd (M − y) ≥ 4M
    have ha : 4 * cfg.M ≤ cfg.rnd (cfg.M - y) := by
      have := ok.rnd.mono (4 * cfg.M) (cfg.M - y) (by linarith)
      rwa [hM4] at this
    simp only [scaledY, subC] at hq
    -- the subtraction did not overflow (else the result is not finite)
    have hp := dblOverflow_pos
    have hsub : flr cfg.rnd (cfg.M - y) = .fin (cfg.rnd (cfg.M - y)) := by
      unfold flr at hq ⊢; simp only at hq ⊢
      split_ifs at hq ⊢ with c1 c2
      · simp [divC] at hq
      · exfalso; linarith
      · rfl
    rw [hsub] at hq
    simp only [divC] at hq
    have hE : tileExtentInZoom cfg 30 = cfg.M * 2 / 2 ^ 30 := by
      unfold tileExtentInZoom numTilesInZoom; push_cast; rfl
    have hge : (2 : Rat) ^ (31 : Int) ≤ cfg.rnd (cfg.M - y) / tileExtentInZoom cfg 30 := by
      rw [hE, le_div_iff₀ (by positivity)]
      have : (2 : Rat) ^ (31 : Int) * (cfg.M * 2 / 2 ^ 30) = 4 * cfg.M := by norm_num; ring
      rw [this]; exact ha
    have hr : (2 : Rat) ^ (31 : Int) ≤ cfg.rnd (cfg.rnd (cfg.M - y) / tileExtentInZoom cfg 30) := by
      have := ok.rnd.mono _ _ hge
      rwa [ok.rnd.pow2 31 (by norm_num)] at this
    have hq' : q = cfg.rnd (cfg.rnd (cfg.M - y) / tileExtentInZoom cfg 30) := by
      unfold flr at hq; simp only at hq
      split_ifs at hq; simp_all
    have : (2 : Int) ^ 31 ≤ trunc q := by
      have h31 : (0 : Rat) ≤ q := by rw [hq']; exact le_trans (by positivity) hr
      rw [trunc_of_nonneg h31]
      apply Int.le_floor.2
      rw [hq']; push_cast
      have e : (2 : Rat) ^ (31 : Int) = 2147483648 := by norm_num
      rw [e] at hr; exact hr
    unfold int32Max at q2; omega

/-! ### the code as it is (clamp as double, then cast): NoUB is a lemma -/

/-- clamp as double, then cast: the conversion is defined for EVERY double (NaN and ±∞
    included), every zoom ≤ 30 -/
theorem noUB (cfg : Cfg) (hfx : cfg.fixed = true) (z : Nat) (hz : z ≤ 30) (v : EVal) :
    NoUBx cfg z v ∧ NoUBy cfg z v := by
  constructor
  · exact ⟨_, by rw [mercxToTilex, hfx]; exact tfs_fixed (by omega) _⟩
  · exact ⟨_, by rw [mercyToTiley, hfx]; exact tfs_fixed (by omega) _⟩

/-- repaired variant at the south pole: the southernmost row -/
theorem fixed_south_pole_tile (cfg : Cfg) (hfx : cfg.fixed = true) (z : Nat) (hz : z ≤ 30) :
    mercyToTiley cfg z .ninf = .ok (2 ^ z - 1) := by
  rw [mercyToTiley, hfx, tfs_fixed (by omega)]
  simp [scaledY, subC, divC, clampSpec]

/-- the repaired variant agrees with the code as it is wherever the latter is defined -/
theorem fixed_agrees (z : Nat) (hz : z ≤ 30) (v : EVal) (t : Int)
    (h : tileFromScaled false z v = .ok t) : tileFromScaled true z v = .ok t := by
  obtain ⟨q, rfl, _, _, rfl⟩ := (tfs_unfixed_iff _ _ _).1 h
  rw [tfs_fixed (by omega)]; rfl

/-! ### the full property for ALL valid locations -/

/-- The tile clauses of C18 as one statement: for every zoom ≤ 30 and all valid locations the
    tile is defined and valid, never decreases moving east / south, and nests. -/
def TileProperty (cfg : Cfg) (f g : Int → EVal) : Prop :=
  ∀ z : Nat, z ≤ 30 →
    (∀ lon lat, locValid lon lat = true → ∃ t, Tile.ofLoc cfg f g z lon lat = .ok t ∧ t.valid = true) ∧
    (∀ lon1 lat1 lon2 lat2 t1 t2, Tile.ofLoc cfg f g z lon1 lat1 = .ok t1 →
        Tile.ofLoc cfg f g z lon2 lat2 = .ok t2 →
        (lon1 ≤ lon2 → t1.x ≤ t2.x) ∧ (lat1 ≤ lat2 → t2.y ≤ t1.y)) ∧
    (z + 1 ≤ 30 → ∀ lon lat t t', Tile.ofLoc cfg f g z lon lat = .ok t →
        Tile.ofLoc cfg f g (z + 1) lon lat = .ok t' → t.x = t'.x / 2 ∧ t.y = t'.y / 2)

/-- The property holds, for either variant, under the explicit NoUB hypothesis … -/
theorem tileProperty_of_noUB {cfg : Cfg} (ok : CfgOk cfg) {f g : Int → EVal} (hf : MonoE f) (hg : MonoE g)
    (noUB : ∀ z, z ≤ 30 → ∀ lon lat, locValid lon lat = true → NoUB cfg f g z lon lat) :
    TileProperty cfg f g := by
  intro z hz
  refine ⟨?_, ?_, ?_⟩
  · intro lon lat hv
    obtain ⟨t, ht⟩ := noUB z hz lon lat hv
    exact ⟨t, ht, tile_in_range cfg f g z hz lon lat t ht⟩
  · intro lon1 lat1 lon2 lat2 t1 t2 h1 h2
    exact ⟨fun h => tile_monotone_x ok hf g z hz h h1 h2, fun h => tile_monotone_y ok f hg z hz h h1 h2⟩
  · intro hz1 lon lat t t' h h'
    have := tile_nesting ok f g z hz1 lon lat h'
    rw [h] at this
    cases this
    exact ⟨rfl, rfl⟩

/-- … which the PRE-FIX code did NOT satisfy (F8, regression witness): with `lat_to_y(−90°) = −∞`
    the property is false — the tile of the valid location (0, −90°) is undefined behaviour at
    every zoom. -/
theorem tileProperty_refuted_prefix (cfg : Cfg) (hfx : cfg.fixed = false) (f g : Int → EVal)
    (hg : g (-900000000) = .ninf) : ¬ TileProperty cfg f g := by
  intro h
  obtain ⟨t, ht, _⟩ := (h 0 (by omega)).1 0 (-900000000) (by decide)
  exact noUB_fails_at_south_pole_loc cfg hfx f g hg 0 0 ⟨t, ht⟩

/-- THE FULL PROPERTY (tile clauses of C18) for the code as it is (clamp as double, then cast):
    ALL valid locations, every zoom ≤ 30, every monotone projection (±∞ at the poles allowed),
    every sane rounding — no NoUB side condition. -/
theorem tileProperty {cfg : Cfg} (ok : CfgOk cfg) (hfx : cfg.fixed = true) {f g : Int → EVal}
    (hf : MonoE f) (hg : MonoE g) : TileProperty cfg f g := by
  apply tileProperty_of_noUB ok hf hg
  intro z hz lon lat hv
  obtain ⟨tx, hx⟩ := (noUB cfg hfx z hz (f lon)).1
  obtain ⟨ty, hy⟩ := (noUB cfg hfx z hz (g lat)).2
  exact ⟨_, (ofLoc_ok_iff ..).2 ⟨hv, tx, ty, hx, hy, rfl⟩⟩

/-! ### the linear part of the projection -/

/-- lon_to_x ∘ Location::lon never decreases, for every sane rounding (three rounded
    operations: /1e7, ·(π/180), ·R) -/
theorem lonToX_mono (p : ProjCfg) (hs : RoundSpec p.rnd) (hR : 0 ≤ p.R) (hc : 0 ≤ p.degToRad) (hp : 0 < p.prec)
    {a b : Int} (h : a ≤ b) : lonToX p a ≤ lonToX p b := by
  unfold lonToX fixToDouble
  apply hs.mono
  apply mul_le_mul_of_nonneg_left _ hR
  apply hs.mono
  apply mul_le_mul_of_nonneg_right _ hc
  apply hs.mono
  apply div_le_div_of_nonneg_right _ hp.le
  exact_mod_cast h

/-- over exact rationals lon_to_x is strictly increasing -/
theorem lonToX_strictMono_exact (p : ProjCfg) (hid : p.rnd = fun q => q) (hR : 0 < p.R) (hc : 0 < p.degToRad)
    (hp : 0 < p.prec) {a b : Int} (h : a < b) : lonToX p a < lonToX p b := by
  unfold lonToX fixToDouble
  simp only [hid]
  apply mul_lt_mul_of_pos_left _ hR
  apply mul_lt_mul_of_pos_right _ hc
  apply div_lt_div_of_pos_right _ hp
  exact_mod_cast h

/-- Round trip of the longitude over exact rationals: x_to_lon(lon_to_x(lon)) converted back to
    fixed point is the same fixed-point value, for every int32 coordinate. -/
theorem roundtrip_x (p : ProjCfg) (hid : p.rnd = fun q => q) (hR : p.R ≠ 0) (hp : p.prec ≠ 0)
    (hpi : p.degToRad * p.radToDeg = 1) (lon : Int) (h1 : int32Min ≤ lon) (h2 : lon ≤ int32Max) :
    doubleToFix p (xToLon p (lonToX p lon)) = .ok lon := by
  have e : xToLon p (lonToX p lon) * p.prec = (lon : Rat) := by
    unfold xToLon lonToX fixToDouble
    simp only [hid]
    have : p.R * ((lon : Rat) / p.prec * p.degToRad) * p.radToDeg / p.R * p.prec
        = (lon : Rat) * (p.degToRad * p.radToDeg) := by field_simp
    rw [this, hpi, mul_one]
  unfold doubleToFix
  simp only [hid, e, roundHalfAway_intCast]
  exact toInt32_intCast h1 h2

/-- Round trip of the longitude in IEEE-754 binary64 arithmetic with the library's constants
    (six rounded operations: /1e7, ·(π/180), ·R, ·(180/π), /R, ·1e7, then std::round): every valid
    fixed-point longitude is recovered exactly.  (`libP`: Lemmas/TileRoundTrip.lean, constants
    regenerated from the source.) -/
theorem roundtrip_x_double (lon : Int) (h1 : -1800000000 ≤ lon) (h2 : lon ≤ 1800000000) :
    doubleToFix libP (xToLon libP (lonToX libP lon)) = .ok lon :=
  roundtrip_x_binary64 lon h1 h2

/-- … and lon_to_x with the library's constants in binary64 never decreases -/
theorem lonToX_mono_double {a b : Int} (h : a ≤ b) : lonToX libP a ≤ lonToX libP b :=
  lonToX_mono libP rne53_roundSpec (by rw [libP_R]; norm_num) (le_trans (by norm_num) libP_degToRad_bounds.1)
    (by rw [libP_prec]; norm_num) h

/-! ### the library's configuration (constants regenerated from the source on every run) -/

/-- detail::max_coordinate_epsg3857: the exact value of the double constant in the source -/
def libM : Rat := match EVal.ofBits Osmium.Generated.C18.mBits with | .fin q => q | _ => 0

theorem libM_pos : 0 < libM := by decide +kernel

/-- what the compiled code computes with: the library's constant, IEEE-754 binary64 rounding -/
def libCfg (fx : Bool) : Cfg := ⟨libM, rne53, fx⟩

theorem lib_cfgOk (fx : Bool) : CfgOk (libCfg fx) := rne53_cfgOk _ libM_pos _

/-- 4·max is a double (exponent shift), so the hypothesis of `noUB_fails_zoom30_near_pole` holds
    for the library's configuration -/
theorem lib_rnd_4M : rne53 (4 * libM) = 4 * libM := by decide +kernel

/-- F8 for the library's constants in binary64 arithmetic: every y ≤ −3·max (latitudes below
    ≈ −89.9907°, all valid) is undefined behaviour at zoom 30. -/
theorem lib_noUB_fails_zoom30 {y : Rat} (hy : y ≤ -3 * libM) :
    mercyToTiley (libCfg false) 30 (.fin y) = .error .ub :=
  noUB_fails_zoom30_near_pole (lib_cfgOk false) rfl lib_rnd_4M hy

/-- The full property for the CURRENT SOURCE: the library's constant, IEEE-754 binary64
    arithmetic, and the variant flag probed from the real code on every run
    (`Generated.C18.fixedVariant`: the trapping build does not trap on mercy_to_tiley(z, −∞)).
    Reverting the clamp-before-cast flips the flag and breaks this theorem; the check then
    reports the two F8 witnesses on the real code. -/
theorem tileProperty_current_source {f g : Int → EVal} (hf : MonoE f) (hg : MonoE g) :
    TileProperty (libCfg Osmium.Generated.C18.fixedVariant) f g :=
  tileProperty (lib_cfgOk _) rfl hf hg

/-! ### non-vacuity -/

/-- a configuration with max = 20037508.34, exact rational arithmetic, the code as it is -/
def cfg0 : Cfg := ⟨2003750834 / 100, fun q => q, false⟩

example : CfgOk cfg0 := exact_cfgOk _ (by norm_num) _

-- NoUB is satisfiable (mid-latitude point) and the tile is the expected one: x = 0 m, y = 0 m
-- at zoom 1 is tile (1, 1)
example : mercxToTilex cfg0 1 (.fin 0) = .ok 1 := by decide +kernel
example : mercyToTiley cfg0 1 (.fin 0) = .ok 1 := by decide +kernel
example : NoUBx cfg0 30 (.fin 1000) := ⟨536897705, by decide +kernel⟩
-- MonoE is satisfiable, including −∞ at the south pole
example : MonoE (fun lat => if lat ≤ -900000000 then EVal.ninf else .fin lat) := by
  intro a b h
  by_cases ha : a ≤ -900000000 <;> by_cases hb : b ≤ -900000000 <;>
    simp [ha, hb, EVal.le_iff, EVal.le] <;> first | exact_mod_cast h | omega
-- the hypothesis of noUB_fails_zoom30_near_pole is satisfiable
example : mercyToTiley cfg0 30 (.fin (-3 * cfg0.M)) = .error .ub :=
  noUB_fails_zoom30_near_pole (exact_cfgOk _ (by norm_num) _) rfl rfl (le_refl _)
-- at zoom 29 the same y is fine
example : mercyToTiley cfg0 29 (.fin (-3 * cfg0.M)) = .ok (2 ^ 29 - 1) := by decide +kernel
-- roundtrip_x hypotheses are satisfiable
example : doubleToFix ⟨fun q => q, 6378137, 1 / 57, 57, 10000000⟩
    (xToLon ⟨fun q => q, 6378137, 1 / 57, 57, 10000000⟩ (lonToX ⟨fun q => q, 6378137, 1 / 57, 57, 10000000⟩ 1800000000))
    = .ok 1800000000 :=
  roundtrip_x _ rfl (by norm_num) (by norm_num) (by norm_num) _ (by decide) (by decide)

/-! ### source ties (tools/cxx2lean.py): the functions REGENERATED from /repo's C++ source on every run
    (Osmium/Generated/Src.lean) equal the hand-written model functions the theorems above are about. -/

section SrcTies
open Osmium.Generated Osmium.CxxSem

/-- `num_tiles_in_zoom(zoom)` = `1U << zoom` = `numTilesInZoom`; the shift is defined exactly for zoom < 32 -/
theorem src_tie_num_tiles_in_zoom (z : Nat) (h : z < 32) :
    Src.Tile.num_tiles_in_zoom (z : Int) = (numTilesInZoom z : Int) ∧
    Src.Tile.num_tiles_in_zoom_defined (z : Int) = true := by
  constructor
  · unfold Src.Tile.num_tiles_in_zoom numTilesInZoom
    have : shl 32 1 (z : Int) = (((1 <<< z) % 2 ^ 32 : Nat) : Int) := shl_nat 32 1 z
    rw [this, Nat.one_shiftLeft, Nat.mod_eq_of_lt (Nat.pow_lt_pow_right (by decide) h)]
  · simp only [Src.Tile.num_tiles_in_zoom_defined, shiftOk_iff]; omega

example : ∃ z : Nat, z < 32 := ⟨30, by decide⟩

/-- `Location::valid()` = `locValid` -/
theorem src_tie_loc_valid (lon lat : Int) : Src.Location.Location.valid ⟨lon, lat⟩ = locValid lon lat := by
  dsimp only [locValid]
  rw [Bool.eq_iff_iff]
  simp [Src.Location.Location.valid, Src.Location.Location.precision, Src.Location.coordinate_precision] <;> omega

/-- `Tile::valid()` = `Tile.valid` on every tile whose members are uint32 values; never undefined
    (the shift is guarded by `z > max_zoom`) -/
theorem src_tie_tile_valid (x y z : Nat) (hx : x < 2 ^ 32) (hy : y < 2 ^ 32) (hz : z < 2 ^ 32) :
    Src.Tile.Tile.valid ⟨x, y, z⟩ = Tile.valid ⟨x, y, z⟩ ∧ Src.Tile.Tile.valid_defined ⟨x, y, z⟩ = true := by
  dsimp only [Tile.valid, maxZoom, Src.Tile.Tile.valid, Src.Tile.Tile.valid_defined, Src.Tile.Tile.max_zoom]
  by_cases hz' : z ≤ 30
  · have e := src_tie_num_tiles_in_zoom z (by omega)
    have h1 : ¬ ((z : Int) > 30) := by omega
    have h2 : ¬ (z > 30) := by omega
    refine ⟨?_, ?_⟩
    · rw [Bool.eq_iff_iff]
      simp [e.1, h1, h2, numTilesInZoom]
    · simp [e.2, h1]
  · have h1 : ((z : Int) > 30) := by omega
    have h2 : (z > 30) := by omega
    simp [h1, h2]

example : ∃ x y z : Nat, x < 2 ^ 32 ∧ y < 2 ^ 32 ∧ z < 2 ^ 32 := ⟨5, 7, 4, by decide⟩

end SrcTies

end Osmium.Tile.C18
