/-
C07 — Reader pipeline always terminates and reports the first error to the caller.

Theorems over ALL reachable states of the pipeline machine of Model/Pipeline.lean (see
Props/C05.lean for the quantifier) with faults: `c.readFault` (the j-th decompressor.read()
throws), `c.closeFault` (decompressor.close() throws), `c.parseFault` (the parser throws at any
object, before or after the header), `c.blobFault` (a blob decode throws, in a pool worker or
inline); the consumer is an arbitrary client, so "stops after k reads and closes / destroys the
Reader, with or without header()" is every k.

Liveness, what is PROVED: `no_stuck_state` in full (no invariant is a hypothesis any more);
`bounded_progress` (ranking function); `api_call_returns_or_spins` (every maximal run without
further API calls reaches a state in which the call has returned after at most `rank` steps that
are not busy-wait iterations, OR it ends in an endless busy wait); `busy_wait_never_forced` (in
every state with a call in progress a non-busy-wait step is enabled at once or after one
busy-wait step), `busy_wait_keeps_progress` (a busy-wait step never disables progress),
`busy_wait_is_not_a_choice` (a thread never chooses between a busy-wait step and another step);
from these `api_call_returns_thread_fair`: TERMINATION under weak fairness of the scheduler towards
every thread; `destructor_joins_all`, `after_destructor_only_pool_jobs`.

What is ASSUMED, not proved — exactly ONE hypothesis about runs, `Sched.ThreadFair`: a thread that
has an enabled internal step at every position from some position on eventually takes a step
(textbook weak fairness of the OS scheduler; since the end of the 10 ms timed wait of
Queue::push() is a step of the waiting thread, it includes "the timed wait returns").
(`api_call_returns_weak_fair` and `api_call_returns` are the same conclusion from the intermediate
hypotheses `Sched.WeakFair` — weak fairness for the set of non-busy-wait steps and for the two
timed-wait-end events — and `Term.Fair` — busy-wait iterations do not repeat for ever.)
Outside the model: `std::thread::join` returns once the thread function has returned, mutex /
condition variable / future semantics as in Model/Mon.lean; thread and fd LEAKS are observed by the
monitors of tools/props/c07.py (/proc/self/task, /proc/self/fd), not proved; the pool is abstracted
to a FIFO work list (C19 proves the pool), and a blob job that is still queued when the Reader is
destructed is run later by the pool (`after_destructor_only_pool_jobs`).

THE DIRECT-FD PATH (a PBF FILE, not a memory buffer, is read by the parser thread directly through
the fd: reader.hpp `DummyDecompressor`, `fd_for_parser`; pbf_input_format.hpp
`read_exactly(m_fd, …)`) is covered by the last section.  On that path the read thread still runs but
its decompressor returns "" at once, so it pushes only the end marker and returns; the parser
never pops the input queue (the marker is drained by the `~queue_wrapper` shutdown), it has the
whole file from the start, stops when `output_queue_in_use()` is false (fix e0f0db9, third
disjunct of `pRunEnd`).  In terms of the model it is the SAME step function with `chunkEnd = []`
started in `Direct.initD c` (`avail = file.length`, `inputDone = true`), a state that is not
reachable from `init`; `Direct.machineD c` is that machine.  PROVED (Lemmas/PipelineDirect*.lean): a
simulation — every reachable state of `machineD c` corresponds to a reachable state of the
queue-fed machine of the configuration `Direct.fed c` (one input piece with the whole file) that
agrees with it in every field except the input queue, the read thread and the futures of the
input queue (`direct_simulation`) — hence the safety theorems (`direct_safety`; C05:
`direct_exactly_once_in_order`, `direct_delivered_is_prefix`), `direct_no_stuck_state`,
`direct_bounded_progress`, `direct_api_call_returns` (termination or endless busy wait;
termination under `Term.Fair`), `direct_destructor_joins_all`.  NOT transferred to `machineD`: the
weak-fairness refinements (`busy_wait_never_forced`, `api_call_returns_thread_fair`).  NOT in any
model here: the fd itself — that `close_fd()` runs on every exit path of the parser (fix ba026d4)
and that read(2) on the fd returns (a pipe from a `curl` child may block) are covered by the
file-input scenarios of tools/props/c07.py only (20 s watchdog, thread count, fd count
before/after, file offset at close() vs at the end; the two regression probes).

THE INPUT ENDS EARLY (section "the input ends early" at the end).  Clause: "if the input ends early … the
failure is reported to the caller as an exception from header(), the next read() or close()".
(1) Framing, Model/PbfFd.lean + Lemmas/PbfTrunc.lean: the PBF record loop of the parser thread
(`4-byte length | BlobHeader | Blob`), as input-queue reader over arbitrary chunks (`readAllQ`) and as
direct-fd reader with arbitrary short reads (`readAllFd`), both equal to one function of the
concatenated bytes (`readAll`).  For ALL valid files `fs` (`FileOk`: header record, then data records whose
BlobHeader decodes — with the real `decode_blob_header` — to the size of the Blob that follows, within
the format limits; the files of the specification framing encoder are such files:
`spec_encoder_files_are_valid`) and ALL cut positions `k`: reading the first `k` bytes ends in an
exception (`Outcome.isError`) UNLESS `k` is a record boundary behind the header blob, in which case
exactly the records before `k` are returned (`pbf_truncation_reported`, `…_queue`, `…_direct_fd`); in
every case the records handed on are exactly the complete records before the cut
(`pbf_truncated_records_are_prefix`).  FINDING recorded here: before the repair `Fixes.lengthStrict`
(an input ending 1..3 bytes into the 4-byte length field was `return 0; // EOF`) the clause was FALSE:
`pbf_length_prefix_cut_was_accepted` (the full statement refuted for `Fixes.before` on a 34-byte
witness), `pbf_truncation_before_partial` (true for all other cuts).
(2) Pipeline, Lemmas/PipelineTrunc.lean: a parser that throws at the end of the data it was given
(`c.parseFault = some c.file.length`: `c.file` = the objects of the complete records) never lets the
caller see a regular end of data — no reachable state has `sawEod`, no read() ever returns `eof`
(`truncated_input_reported`, `direct_truncated_input_reported`); with termination
(`api_call_returns_thread_fair`) every read() returns, so a caller that reads on gets the exception.
(3) `pbf_truncated_read_raises` puts (1) and (2) together.
(4) o5m (Lemmas/O5mTrunc.lean, C06's dataset loop `Chunks.o5mRun`): a cut inside the 7-byte header or
inside a dataset is an error (`premature`), a cut at a dataset boundary returns the datasets before it —
the reader does not require the 0xfe end marker, so for it such a prefix is a valid shorter file
(`o5m_truncation_reported`; recorded assumption).  XML: `xml_final_call_always_made` — the feed loop calls
expat with every chunk and then exactly once with `last = true`; that expat rejects an incomplete document
in that call is NOT modelled (no model of expat's well-formedness check exists here): for XML the clause
rests on the truncation sweep of tools/props/c07.py alone.  OPL: every prefix is an OPL file (a last
line without line feed is a line: C06 `opl_chunking`), so there is no framing error to report; the sweep
checks read(p) = read(p + LF).
-/
import Osmium.Lemmas.PipelineBase
import Osmium.Lemmas.PipelineComplete
import Osmium.Lemmas.PipelineLive
import Osmium.Lemmas.PipelineRank
import Osmium.Lemmas.PipelineTerm
import Osmium.Lemmas.PipelineProg
import Osmium.Lemmas.PipelineFair
import Osmium.Lemmas.PipelineFairT
import Osmium.Lemmas.PipelineDirect6
import Osmium.Lemmas.PipelineTrunc
import Osmium.Lemmas.PbfTrunc
import Osmium.Lemmas.O5mTrunc

namespace Osmium.C07

open Osmium.Mon Osmium Osmium.Pipeline

variable {α : Type} [DecidableEq α]

abbrev P (c : Cfg α) := machine c

/-! ## safety -/

/-- `header_fulfilled_once`: the header promise is set at most once (value or exception), it is
    unset exactly as long as nobody has set it, and once set it never changes. -/
theorem header_fulfilled_once (c : Cfg α) (s : State α) (h : (P c).Reachable s) :
    s.hdrSets ≤ 1 ∧ (s.hdr = none ↔ s.hdrSets = 0) ∧
    ∀ e s', (P c).Step s e s' → s.hdr ≠ none → s'.hdr = s.hdr :=
  ⟨(hdr_once c s h).1, (hdr_once c s h).2, fun e s' hst => hdr_stable c s s' e hst⟩

/-- … and a parser that failed before it set the header has produced no buffer at all: header()
    is the call that reports such a failure, no read() can have returned data before. -/
theorem header_failure_means_no_data (c : Cfg α) (s : State α) (h : (P c).Reachable s) :
    s.hdr ≠ some none → NoBuf s :=
  hdr_exc_no_data c s h

/-- `first_error_reported`: the end-of-data marker reaches the caller ONLY IF no stage has raised
    an exception (decompressor read or close, parser, blob decode in a worker or inline) — a
    failure is never swallowed: the future with the exception precedes the end marker in both
    queues (an exception future is followed directly by the end marker, which is the last thing
    each producer pushes), read() stops at it, closes the Reader and rethrows it; so a caller
    that keeps reading gets the exception of the FIRST failing stage in pipeline order, never a
    clean end.  After the end marker the status is never okay again. -/
theorem first_error_reported (c : Cfg α) (wf : c.WF) (s : State α) (h : (P c).Reachable s)
    (hd : s.sawEod = true) : s.faulted = false ∧ s.status ≠ .okay ∧ c.nothing = false :=
  ⟨eod_means_no_fault c wf s h hd, (after_eod c wf s h hd).1, eod_means_something_wanted c s h hd⟩

/-- … and every raised exception is on its way to the caller: in the hands of the read thread or
    the parser thread, or in a future handed to push() on one of the two queues. -/
theorem fault_is_on_its_way (c : Cfg α) (s : State α) (h : (P c).Reachable s) (hf : s.faulted = true) :
    InExc s ∨ Complete.EvP s :=
  (Complete.invZ c s h).z hf

/-- `no_data_after_error`: once an error has been reported (status error) there are no back
    buffers, no step delivers anything, every read() throws io_error, and the status stays error
    until the Reader is closed. -/
theorem no_data_after_error (c : Cfg α) (s : State α) (h : (P c).Reachable s) (he : s.status = .error) :
    s.back = [] ∧
    (∀ e s', (P c).Step s e s' → s'.delivered = s.delivered ∧ (s'.status = .error ∨ s'.status = .closed)) ∧
    (∀ s', (P c).Step s .cRead s' → s'.cpc = .ret .ioError) :=
  ⟨error_back_nil c s h he,
   fun e s' hst => ⟨no_data_after_error' c s h e s' hst he, error_is_final c s h e s' hst he⟩,
   fun s' hst => read_after_error' c s h s' hst he⟩

/-- `closed_reader_reads_nothing_more`: once close() (or the close() inside the destructor / an
    error path) has returned, the read thread has returned and the number of decompressor.read()
    calls never changes again.  (close() sets m_done and JOINS the read thread, so not even the
    read in flight is still running when it returns.) -/
theorem closed_reader_reads_nothing_more (c : Cfg α) (s : State α) (h : (P c).Reachable s) (n : Nat)
    (hc : s.readsAtClose = some n) : s.reads = n ∧ s.rpc = .done :=
  ⟨reads_after_close c s h n hc, (reads_after_close_inv c s h n hc).1⟩

/-- While the status is okay nobody has asked the read thread to stop and the osmdata queue is
    in use (except inside the shutdown that read() itself performs on the end marker). -/
theorem okay_means_running (c : Cfg α) (s : State α) (h : (P c).Reachable s) (ho : s.status = .okay) :
    s.stop = false ∧ (s.outq.inUse = true ∨ s.cpc = .eodSdRun) :=
  status_okay_stop c s h ho

/-! ## the C19 finding "push() spins after shutdown()" is not reachable from a Reader -/

/-- Each Reader queue has a SINGLE producer (input queue: the read thread; osmdata queue: the
    parser thread — pool workers only fulfil promises, they never push), a single consumer and a
    single thread that ever calls shutdown() (input queue: the parser thread; osmdata queue: the
    consumer).  The model witness `pushSpins` of Props/C19.lean needs two producers on one bounded
    queue, so it is unreachable in every pipeline run; with one producer the bound of both queues
    is hard (`C19.hard_bound_single_producer`).  The pool's work queue has several producers when
    several Readers share a pool, but nothing in the library ever shuts it down. -/
theorem reader_queues_single_producer (c : Cfg α) (s : State α) (h : (P c).Reachable s) :
    (∀ t ∈ s.inq.producers, t = tR) ∧ (∀ t ∈ s.outq.producers, t = tP) ∧
    s.inq.producers.length ≤ 1 ∧ s.outq.producers.length ≤ 1 ∧
    (∀ t, (s.inq.pc t = .sdEntered ∨ s.inq.pc t = .sdFlagged) → t = tP) ∧
    (∀ t, (s.outq.pc t = .sdEntered ∨ s.outq.pc t = .sdFlagged) → t = tC) ∧
    (∀ t, s.inq.pc t = .popWaiting → t = tP) ∧ (∀ t, s.outq.pc t = .popWaiting → t = tC) :=
  ⟨(inq_single_producer c s h).1, (outq_single_producer c s h).1, inq_producers_le_one c s h,
   outq_producers_le_one c s h, inq_sd_caller c s h, outq_sd_caller c s h, inq_consumer c s h, outq_consumer c s h⟩

/-! ## progress -/

/-- The read thread never blocks: until it has returned, one of its own steps is enabled (its only
    wait is the polling wait of the bounded push, which the model lets end at any time). -/
theorem read_thread_never_blocks (c : Cfg α) (s : State α) (h : (P c).Reachable s) (hr : s.rpc ≠ .done) :
    ∃ e s', e.isCall = false ∧ (P c).Step s e s' :=
  read_thread_enabled c s h hr

/-- The parser thread has an enabled step unless it is in one of three genuine wait states
    (blocked in wait_and_pop on the input queue, waiting for a future of the input queue, waiting
    for room in the pool's work queue). -/
theorem parser_enabled_or_waiting (c : Cfg α) (wf : c.WF) (s : State α) (h : (P c).Reachable s)
    (hp : s.ppc ≠ .done) :
    (∃ e s', Ev.isCall e = false ∧ (P c).Step s e s') ∨ Live.ParserWaiting c s :=
  Live.parser_enabled_or_waiting c s h (Live.run_data c wf s h) (Live.typed c s h) hp

/-- `no_stuck_state` (FULL): while an API call (header, read, close, destructor) is in progress
    some internal step of the pipeline is enabled — in every reachable state, for every fault, stop
    point, queue bound, pool size, with or without spurious wake-ups.  The proof is the complete
    wait-for case analysis over the consumer, the parser, the read thread and the workers, from the
    pc correspondence between the threads and the two queue machines, the wake-up lemmas of C19
    lifted to both queues, and invariants that are ALL proved for the reachable states (none is a
    hypothesis): the parser's data invariant `Live.run_data`, the typing of the queues `Live.typed`,
    "the parser has returned ⇒ the header promise is set" `Live.hdrSet`, the read thread / the
    parser set every promise before they return (`inq_fut_ready`, `Live.out_fut_ready`), the last
    thing each producer pushes is the end marker and its consumer stops popping after it
    (`inq_marker`, `Live.outq_marker`).  `c.WF`: the chunk/blob boundaries are those of the file
    and a configuration that uses the pool has a worker. -/
theorem no_stuck_state (c : Cfg α) (wf : c.WF) (s : State α) (h : (P c).Reachable s)
    (h1 : s.cpc ≠ .idle) (h2 : s.cpc ≠ .dead) :
    ∃ e s', e.isCall = false ∧ (P c).Step s e s' :=
  Pipeline.no_stuck_state c wf s h h1 h2

/-- `bounded_progress`: a ranking function.  Every internal step of the pipeline that is not a
    busy-wait iteration (`isStutter`: a bounded push that sees a full queue, its timed wait, a
    spurious wake-up that finds the predicate false) STRICTLY decreases the natural number
    `rank c s`; busy-wait iterations leave it unchanged; an API call of the client raises it by at
    most 10.  Hence between two API calls every run makes at most `rank` many steps that are not
    busy-wait iterations; combined with `no_stuck_state` below: `api_call_returns_or_spins`,
    `api_call_returns`. -/
theorem bounded_progress (c : Cfg α) (s s' : State α) (e : Ev α) (h : (P c).Reachable s)
    (hst : (P c).Step s e s') :
    (e.isCall = false → isStutter c s e = false → rank c s' < rank c s) ∧
    (isStutter c s e = true → rank c s' = rank c s) ∧
    (e.isCall = true → rank c s' ≤ rank c s + 10) :=
  ⟨fun hc hs => rank_decreases c s s' e h hst hc hs, fun hs => rank_stutter c s s' e h hst hs,
   fun hc => rank_call c s s' e hst hc⟩

/-- along any run without API-call events the number of steps that are not busy-wait iterations
    is bounded by the rank of its first state -/
theorem internal_work_bounded (c : Cfg α) (tr : List (Ev α)) (s s' : State α) (h : (P c).Reachable s)
    (hc : ∀ e ∈ tr, e.isCall = false) (hr : (P c).run? s tr 0 = .ok s') :
    (tr.filter fun e => !isStutter c s e).length + rank c s' ≤ rank c s :=
  internal_steps_bounded c tr s s' 0 h hc hr

/-! ## termination -/

/-- `api_call_returns_or_spins` (NO fairness assumption).  Take any MAXIMAL run without further API
    calls from a reachable state (`Term.MaxRun`: at every position an internal step is taken, or none
    is enabled and the run stays).  Either it reaches a state in which the call has returned
    (consumer between calls, or destructed): the first such position `n` exists, and up to it the
    run has made at most `rank c (σ 0)` steps that are not busy-wait iterations
    (`Term.work … n + rank c (σ n) ≤ rank c (σ 0)`); or the run is infinite and from some position
    on EVERY step is a busy-wait iteration (`isStutter`: a bounded push polling a full queue, its
    10 ms timed wait ending, a wake-up that finds the wait predicate false).  So the ONLY way an API
    call does not return is an endless busy wait. -/
theorem api_call_returns_or_spins (c : Cfg α) (wf : c.WF) (σ : Nat → State α) (ε : Nat → Option (Ev α))
    (hrun : Term.MaxRun c σ ε) (h0 : (P c).Reachable (σ 0)) :
    (∃ n, ¬ Term.InCall (σ n) ∧ (∀ i, i < n → Term.InCall (σ i)) ∧
        Term.work c σ ε n + rank c (σ n) ≤ rank c (σ 0)) ∨
    (∃ N, ∀ i, N ≤ i → ∃ e, ε i = some e ∧ isStutter c (σ i) e = true) :=
  Term.call_returns_or_spins c wf σ ε hrun h0

/-- `api_call_returns`: under the fairness assumption `Term.Fair` — busy-wait iterations do not
    repeat for ever — every maximal run without further API calls reaches a state in which the
    call has returned (header()/read()/close() returned or threw; the destructor finished), after
    at most `rank c (σ 0)` steps that are not busy-wait iterations. -/
theorem api_call_returns (c : Cfg α) (wf : c.WF) (σ : Nat → State α) (ε : Nat → Option (Ev α))
    (hrun : Term.MaxRun c σ ε) (h0 : (P c).Reachable (σ 0)) (hfair : Term.Fair c σ ε) :
    ∃ n, ¬ Term.InCall (σ n) ∧ (∀ i, i < n → Term.InCall (σ i)) ∧
      Term.work c σ ε n + rank c (σ n) ≤ rank c (σ 0) :=
  Term.call_returns c wf σ ε hrun h0 hfair

/-- `busy_wait_never_forced`: the endless busy wait that `api_call_returns_or_spins` leaves open is
    never FORCED by the pipeline.  In every reachable state in which an API call is in progress a
    step that is not a busy-wait iteration is enabled at once, or after one busy-wait step (the
    timed wait of a bounded push() ends and `size()` then sees room): there is a run of at most two
    internal steps that lowers the rank.  So `Term.Fair` can only fail if the scheduler / the 10 ms
    timed wait for ever withholds a step that is enabled.  Proof: the wait-for analysis of
    `no_stuck_state` refined by "who spins on a full queue", with five more invariants (a polling
    producer ⇒ bounded queue; header unset ⇒ nothing pushed; the future being pushed is neither
    queued nor held by the consumer — both queues; a completed shutdown() leaves a polling
    producer an EMPTY queue — both queues). -/
theorem busy_wait_never_forced (c : Cfg α) (wf : c.WF) (s : State α) (h : (P c).Reachable s)
    (h1 : s.cpc ≠ .idle) (h2 : s.cpc ≠ .dead) :
    ∃ tr s', tr.length ≤ 2 ∧ (∀ e ∈ tr, e.isCall = false) ∧ (P c).run? s tr 0 = .ok s' ∧
      rank c s' < rank c s :=
  Prog.progress_run c wf s h h1 h2

/-- … and a busy-wait step never DISABLES progress: if a step that is not a busy-wait iteration is
    enabled before a busy-wait step of any thread, one is enabled after it (the busy-wait step
    changes only the queue-pc, `sawSize` or wait-set entry of the thread that makes it). -/
theorem busy_wait_keeps_progress (c : Cfg α) (s s' : State α) (e : Ev α) (hst : (P c).Step s e s')
    (hs : isStutter c s e = true) (hcan : Prog.Can c s) : Prog.Can c s' :=
  Sched.can_frame c s s' e hst hs hcan

/-- `api_call_returns_weak_fair`: TERMINATION UNDER WEAK FAIRNESS.  Every maximal run without further
    API calls that is weakly fair (`Sched.WeakFair`, three conditions of the form "enabled at every
    position from some position on ⇒ eventually taken": (1) the steps that are not busy-wait
    iterations, taken together; (2) the end of the 10 ms timed wait of the read thread's push();
    (3) the same for the parser thread's push()) reaches a state in which the call has returned —
    header()/read()/close() returned or threw, the destructor finished — after at most
    `rank c (σ 0)` steps that are not busy-wait iterations. -/
theorem api_call_returns_weak_fair (c : Cfg α) (wf : c.WF) (σ : Nat → State α) (ε : Nat → Option (Ev α))
    (hrun : Term.MaxRun c σ ε) (h0 : (P c).Reachable (σ 0)) (hfair : Sched.WeakFair c σ ε) :
    ∃ n, ¬ Term.InCall (σ n) ∧ (∀ i, i < n → Term.InCall (σ i)) ∧
      Term.work c σ ε n + rank c (σ n) ≤ rank c (σ 0) :=
  Sched.call_returns_weak_fair c wf σ ε hrun h0 hfair

/-- A thread never has the choice between a busy-wait iteration and another step: if a thread can make
    a busy-wait step, every internal step it can make is one (inside the polling loop of push() or
    blocked in wait_and_pop() it can only make steps of that call, and which one is determined by the
    queue). -/
theorem busy_wait_is_not_a_choice (c : Cfg α) (wf : c.WF) (s : State α) (h : (P c).Reachable s)
    (e1 e2 : Ev α) (s1 s2 : State α) (t : Tid)
    (hst1 : (P c).Step s e1 s1) (hs1 : isStutter c s e1 = true) (ht1 : e1.thread = t)
    (hst2 : (P c).Step s e2 s2) (hc2 : e2.isCall = false) (ht2 : e2.thread = t) :
    isStutter c s e2 = true :=
  Sched.det c wf s h e1 e2 s1 s2 t hst1 hs1 ht1 hst2 hc2 ht2

/-- `api_call_returns_thread_fair`: TERMINATION UNDER WEAK FAIRNESS OF THE SCHEDULER.  `Sched.ThreadFair`:
    every thread (consumer, read thread, parser thread, each pool worker; `Ev.thread`) that has an
    enabled internal step at every position from some position on eventually takes a step — the end
    of the 10 ms timed wait of Queue::push() is a step of the waiting thread, so "the timed wait
    returns" is part of it.  Then every maximal run without further API calls reaches a state in
    which the call has returned — header()/read()/close() returned or threw, the destructor
    finished — after at most `rank c (σ 0)` steps that are not busy-wait iterations.  For every
    fault, stop point, queue bound, pool size, with or without spurious wake-ups. -/
theorem api_call_returns_thread_fair (c : Cfg α) (wf : c.WF) (σ : Nat → State α) (ε : Nat → Option (Ev α))
    (hrun : Term.MaxRun c σ ε) (h0 : (P c).Reachable (σ 0)) (hfair : Sched.ThreadFair c σ ε) :
    ∃ n, ¬ Term.InCall (σ n) ∧ (∀ i, i < n → Term.InCall (σ i)) ∧
      Term.work c σ ε n + rank c (σ n) ≤ rank c (σ 0) :=
  Sched.call_returns_thread_fair c wf σ ε hrun h0 hfair

/-- finite form: a finite run of internal steps that cannot be extended by an internal step ends in
    a state in which the call has returned, after at most `rank c s` steps that are not busy-wait
    iterations. -/
theorem maximal_finite_run_returns (c : Cfg α) (wf : c.WF) (tr : List (Ev α)) (s s' : State α)
    (h : (P c).Reachable s) (hc : ∀ e ∈ tr, e.isCall = false) (hr : (P c).run? s tr 0 = .ok s')
    (hmax : ∀ e s'', e.isCall = false → ¬ (P c).Step s' e s'') :
    (s'.cpc = .idle ∨ s'.cpc = .dead) ∧ (tr.filter fun e => !isStutter c s e).length + rank c s' ≤ rank c s :=
  Term.finite_maximal_run_returns c wf tr s s' h hc hr hmax

/-- `destructor_joins_all`: when the destructor has returned (`destroyed`, i.e. the consumer is
    `dead`) the read thread and the parser thread have returned — they were JOINED: the destructor
    only gets past `m_read_thread_manager.close()` / `~thread_handler` when they have — and both
    queues are shut down.  Already inside the destructor: after its close() the read thread has
    returned, after `~thread_handler` the parser thread has. -/
theorem destructor_joins_all (c : Cfg α) (s : State α) (h : (P c).Reachable s) :
    (s.destroyed = true ↔ s.cpc = .dead) ∧
    (s.destroyed = true → s.rpc = .done ∧ s.ppc = .done ∧ s.inq.inUse = false ∧ s.outq.inUse = false) ∧
    (Term.afterJoinR s.cpc = true → s.rpc = .done) ∧ (Term.afterJoinP s.cpc = true → s.ppc = .done) := by
  have hj := Term.joined c s h
  refine ⟨hj.jd, fun hd => ?_, hj.jr, hj.jp⟩
  have hc := hj.jd.mp hd
  have hp := hj.jp (by rw [hc]; rfl)
  exact ⟨hj.jr (by rw [hc]; rfl), hp, hj.ji hp, hj.jo hc⟩

/-- … and after that nothing of the Reader moves any more: the only steps left are pool workers
    running blob jobs that were submitted before (the pool is not the Reader's; such a job owns its
    input and its promise); the consumer stays destructed, both threads stay returned. -/
theorem after_destructor_only_pool_jobs (c : Cfg α) (s s' : State α) (e : Ev α) (h : (P c).Reachable s)
    (hd : s.destroyed = true) (hst : (P c).Step s e s') :
    (∃ w, e = .wStart w ∨ e = .wDone w) ∧ s'.cpc = .dead ∧ s'.rpc = .done ∧ s'.ppc = .done :=
  Term.dead_only_pool c s s' e h ((Term.joined c s h).jd.mp hd) hst

/-! ## the direct-fd configuration: a PBF FILE read by the parser thread through the file descriptor

`Direct.machineD c`: the SAME step function `step? c`, for a configuration with `Direct.IsDirect c`
(no input pieces: `chunkEnd = []`, the `DummyDecompressor` never throws), started in `Direct.initD c`
= `init` with `avail = file.length` and `inputDone = true` (the parser has the whole file and never
asks the input queue).  The read thread still runs: it pushes the end marker and returns; the
parser's `~queue_wrapper` shutdown drains it.  `Direct.fed c` is the modelled queue-fed
configuration with ONE input piece that holds the whole file. -/

/-- the direct-fd machine -/
abbrev D (c : Cfg α) := Direct.machineD c

/-- `direct_simulation`: every reachable state `sd` of the direct-fd machine corresponds to a reachable
    state `s` of the queue-fed machine `P (Direct.fed c)` that agrees with it in EVERY field except
    the input queue, the read thread's pc and counters (in `s` it has returned), `readsAtClose` and
    the futures of the input queue: same osmdata queue, parser / consumer / worker pcs, parser
    buffers, pool, status, back buffers, delivered objects, results, header promise, fault flag
    (`Direct.Sim`).  Steps of the read thread are matched by no step, every other step by the same
    event (`Direct.sim_step`).  So every invariant of the queue-fed model about those fields holds
    for the direct-fd configuration. -/
theorem direct_simulation (c : Cfg α) (hd : Direct.IsDirect c) (sd : State α) (h : (D c).Reachable sd) :
    ∃ s, (P (Direct.fed c)).Reachable s ∧ Direct.Sim sd s :=
  (Direct.sim c hd sd h).2

/-- safety theorems of this file for the direct-fd configuration: header promise set at most once and
    unset exactly as long as nobody has set it; the end marker reaches the caller only if no stage
    failed; after an error there are no back buffers -/
theorem direct_safety (c : Cfg α) (hd : Direct.IsDirect c) (wf : (Direct.fed c).WF) (sd : State α)
    (h : (D c).Reachable sd) :
    (sd.hdrSets ≤ 1 ∧ (sd.hdr = none ↔ sd.hdrSets = 0)) ∧
    (sd.sawEod = true → sd.faulted = false ∧ sd.status ≠ .okay ∧ c.nothing = false) ∧
    (sd.status = .error → sd.back = []) := by
  obtain ⟨s, hr, hs⟩ := direct_simulation c hd sd h
  have h1 := header_fulfilled_once (Direct.fed c) s hr
  rw [hs.hdrSets, hs.hdr] at h1
  refine ⟨⟨h1.1, h1.2.1⟩, fun he => ?_, fun he => ?_⟩
  · have := first_error_reported (Direct.fed c) wf s hr (by rw [hs.sawEod]; exact he)
    rw [hs.faulted, hs.status] at this
    exact this
  · have := (no_data_after_error (Direct.fed c) s hr (by rw [hs.status]; exact he)).1
    rw [hs.back] at this
    exact this

/-- `no_stuck_state` for the direct-fd configuration -/
theorem direct_no_stuck_state (c : Cfg α) (hd : Direct.IsDirect c) (wf : (Direct.fed c).WF) (sd : State α)
    (h : (D c).Reachable sd) (h1 : sd.cpc ≠ .idle) (h2 : sd.cpc ≠ .dead) :
    ∃ e sd', e.isCall = false ∧ (D c).Step sd e sd' :=
  Direct.no_stuck_state c hd wf sd h h1 h2

/-- `bounded_progress` for the direct-fd configuration -/
theorem direct_bounded_progress (c : Cfg α) (hd : Direct.IsDirect c) (sd sd' : State α) (e : Ev α)
    (h : (D c).Reachable sd) (hst : (D c).Step sd e sd') :
    (e.isCall = false → isStutter c sd e = false → rank c sd' < rank c sd) ∧
    (isStutter c sd e = true → rank c sd' = rank c sd) :=
  Direct.bounded_progress c hd sd sd' e h hst

/-- `api_call_returns_or_spins` and `api_call_returns` for the direct-fd configuration: every maximal
    run without further API calls from a reachable state reaches a state in which the call has
    returned after at most `rank` steps that are not busy-wait iterations, or ends in an endless busy
    wait; it returns if busy-wait iterations do not repeat for ever (`Term.Fair`).  (The
    weak-fairness refinements above are proved for the queue-fed machine only.) -/
theorem direct_api_call_returns (c : Cfg α) (hd : Direct.IsDirect c) (wf : (Direct.fed c).WF)
    (σ : Nat → State α) (ε : Nat → Option (Ev α)) (hrun : Term.MaxRun c σ ε) (h0 : (D c).Reachable (σ 0)) :
    ((∃ n, ¬ Term.InCall (σ n) ∧ (∀ i, i < n → Term.InCall (σ i)) ∧
        Term.work c σ ε n + rank c (σ n) ≤ rank c (σ 0)) ∨
      (∃ N, ∀ i, N ≤ i → ∃ e, ε i = some e ∧ isStutter c (σ i) e = true)) ∧
    (Term.Fair c σ ε → ∃ n, ¬ Term.InCall (σ n) ∧ (∀ i, i < n → Term.InCall (σ i)) ∧
        Term.work c σ ε n + rank c (σ n) ≤ rank c (σ 0)) :=
  ⟨Direct.call_returns_or_spins c hd wf σ ε hrun h0, Direct.call_returns c hd wf σ ε hrun h0⟩

/-- `destructor_joins_all` for the direct-fd configuration -/
theorem direct_destructor_joins_all (c : Cfg α) (hd : Direct.IsDirect c) (sd : State α)
    (h : (D c).Reachable sd) (hdes : sd.destroyed = true) :
    sd.cpc = .dead ∧ sd.rpc = .done ∧ sd.ppc = .done ∧ sd.outq.inUse = false :=
  Direct.destructor_joins_all c hd sd h hdes

/-! ## non-vacuity: a run with a fault, evaluated by the kernel -/

/-- the first decompressor.read() throws; unbounded queues -/
def faulty : Cfg Nat :=
  { file := [7], sel := fun _ => true, strip := id, chunkEnd := [1], pbf := false, blobEnd := [],
    usePool := false, workers := [], wqMax := 0, inqC := ⟨0, false⟩, outqC := ⟨0, false⟩, single := false,
    nothing := false, readFault := some 0, closeFault := false, parseFault := none, blobFault := none }

/-- read() of the caller gets the exception of the read thread (through both queues and the
    parser's catch block), then every call fails, then the Reader is destroyed -/
def faultyRun : List (Ev Nat) :=
  [.rTestDone false, .rRead (.exc 1), .qi (.pushEnter 1 0), .qi (.pushTest 1 true), .qi (.pushLocked 1 1 none), .rSet,
   .qi (.pushEnter 1 2), .qi (.pushTest 1 true), .qi (.pushLocked 1 2 none), .rSet,
   .pInUse true, .qi (.popNow 2 2 (some (1, 0))), .pGet (.exc 1), .pCatch,
   .qo (.pushEnter 2 1), .qo (.pushTest 2 true), .qo (.pushLocked 2 1 none), .pSet,
   .qo (.pushEnter 2 3), .qo (.pushTest 2 true), .qo (.pushLocked 2 2 none), .pSet,
   .qi (.sdEnter 2), .qi (.sdFlag 2), .qi (.sdLocked 2),
   .cRead, .cInUse true, .qo (.popNow 0 2 (some (2, 1))), .cGet (.exc 1),
   .qo (.sdEnter 0), .qo (.sdFlag 0), .qo (.sdLocked 0), .cJoinR, .cRet (.exc 1),
   .cRead, .cRet .ioError, .cHeader, .cRet .ioError,
   .cDtor, .qo (.sdEnter 0), .qo (.sdFlag 0), .qo (.sdLocked 0), .cJoinR, .cJoinP,
   .qo (.sdEnter 0), .qo (.sdFlag 0), .qo (.sdLocked 0)]

theorem foldlM_reachable (c : Cfg Nat) (tr : List (Ev Nat)) (s0 s : State Nat) (h0 : (P c).Reachable s0)
    (h : tr.foldlM (step? c) s0 = some s) : (P c).Reachable s := by
  induction tr generalizing s0 with
  | nil => simp at h; exact h ▸ h0
  | cons e rest ih =>
    simp only [List.foldlM_cons, Option.bind_eq_bind, Option.bind_eq_some_iff] at h
    obtain ⟨s1, h1, h2⟩ := h
    exact ih s1 (.step h0 h1) h2

theorem trace_witness (c : Cfg Nat) (tr : List (Ev Nat)) (Pr : State Nat → Bool)
    (h : (tr.foldlM (step? c) (init Nat)).map Pr = some true) : ∃ s, (P c).Reachable s ∧ Pr s = true := by
  simp only [Option.map_eq_some_iff] at h
  obtain ⟨s, hs, hp⟩ := h
  exact ⟨s, foldlM_reachable c tr _ s .init hs, hp⟩

/-- the failure is reported by the first read(), header promise holds the exception (set once),
    nothing was delivered, the Reader is destructed, close() recorded the number of reads -/
example : ∃ s, (P faulty).Reachable s ∧
    (s.destroyed && s.faulted && !s.sawEod && decide (s.results = [.exc 1, .ioError, .ioError])
      && decide (s.delivered = []) && decide (s.hdr = some (some 1)) && decide (s.hdrSets = 1)
      && decide (s.readsAtClose = some 1) && decide (s.reads = 1)) = true :=
  trace_witness faulty faultyRun _ (by decide)

/-- the hypothesis `status = error` of `no_data_after_error` is satisfiable -/
example : ∃ s, (P faulty).Reachable s ∧ decide (s.status = .error) = true :=
  trace_witness faulty (faultyRun.take 36) _ (by decide)

/-- the hypotheses of `api_call_returns`, `api_call_returns_weak_fair` and
    `api_call_returns_thread_fair` are satisfiable with a call in progress at the start: the run of
    the first read() above, from the state right after the call (`cRead`) to its return -/
example : ∃ σ ε, Term.MaxRun faulty σ ε ∧ (P faulty).Reachable (σ 0) ∧ Term.InCall (σ 0) ∧
    Term.Fair faulty σ ε ∧ Sched.WeakFair faulty σ ε ∧ Sched.ThreadFair faulty σ ε := by
  have hw := trace_witness faulty (faultyRun.take 26)
    (fun s : State Nat => decide (s.cpc = .readPop) &&
      (((faultyRun.drop 26).take 8).foldlM (step? faulty) s).any
        fun sf : State Nat => decide (sf.rpc = .done) && decide (sf.ppc = .done) && decide (sf.cpc = .idle))
    (by decide)
  obtain ⟨s0, hs0, hp0⟩ := hw
  simp only [Bool.and_eq_true, decide_eq_true_eq, Option.any_eq_true] at hp0
  obtain ⟨hc0, sf, hrun, ⟨hr, hp⟩, hc⟩ := hp0
  rw [← Term.runTr_eq_foldlM] at hrun
  have hsf := runTr_reachable faulty s0 sf _ hs0 hrun
  have hq := Term.quiescent faulty sf hsf hr hp (.inl hc) rfl
  obtain ⟨h1, h2, h3⟩ := Term.maxRun_of_trace faulty s0 sf _ hrun (by decide) hq
  exact ⟨_, _, h1, by rw [h3]; exact hs0, by rw [h3]; simp [Term.InCall, hc0], h2,
    Sched.weakFair_of_trace faulty s0 sf _ hrun hq, Sched.threadFair_of_trace faulty s0 sf _ hrun hq⟩

/-- `destroyed` is reachable (hypothesis of `after_destructor_only_pool_jobs`) -/
example : ∃ s, (P faulty).Reachable s ∧ s.destroyed = true :=
  trace_witness faulty faultyRun _ (by decide)

/-! ### non-vacuity for the direct-fd configuration -/

/-- a PBF file with one blob that holds one object, read directly through the fd; no pool, unbounded queues -/
def directCfg : Cfg Nat :=
  { file := [7], sel := fun _ => true, strip := id, chunkEnd := [], pbf := true, blobEnd := [1],
    usePool := false, workers := [], wqMax := 0, inqC := ⟨0, false⟩, outqC := ⟨0, false⟩, single := false,
    nothing := false, readFault := none, closeFault := false, parseFault := none, blobFault := none }

theorem directCfg_isDirect : Direct.IsDirect directCfg := ⟨rfl, rfl, rfl⟩

theorem directCfg_wf : (Direct.fed directCfg).WF := by
  constructor <;> simp [Direct.fed, directCfg, tC, tR, tP]

/-- the parser decodes the blob while the read thread pushes its end marker; the client reads the
    object, reads the end of data, destroys the Reader -/
def directRun : List (Ev Nat) :=
  [.pHeader, .pBlob [[7]], .qo (.pushEnter 2 1), .qo (.pushTest 2 true), .qo (.pushLocked 2 1 none), .pSet,
   .rTestDone false, .rRead .eod, .rCloseDec true, .qi (.pushEnter 1 0), .qi (.pushTest 1 true),
   .qi (.pushLocked 1 1 none), .rSet,
   .pRunEnd, .qo (.pushEnter 2 3), .qo (.pushTest 2 true), .qo (.pushLocked 2 2 none), .pSet,
   .qi (.sdEnter 2), .qi (.sdFlag 2), .qi (.sdLocked 2),
   .cRead, .cInUse true, .qo (.popNow 0 2 (some (2, 1))), .cGet (.buf [[7]]), .cRet (.data [7]),
   .cRead, .cInUse true, .qo (.popNow 0 1 (some (2, 3))), .cGet .eod, .qo (.sdEnter 0), .qo (.sdFlag 0),
   .qo (.sdLocked 0), .cJoinR, .cRet .eof,
   .cDtor, .qo (.sdEnter 0), .qo (.sdFlag 0), .qo (.sdLocked 0), .cJoinR, .cJoinP,
   .qo (.sdEnter 0), .qo (.sdFlag 0), .qo (.sdLocked 0)]

theorem direct_foldlM_reachable (c : Cfg Nat) (tr : List (Ev Nat)) (s0 s : State Nat) (h0 : (D c).Reachable s0)
    (h : tr.foldlM (step? c) s0 = some s) : (D c).Reachable s := by
  induction tr generalizing s0 with
  | nil => simp at h; exact h ▸ h0
  | cons e rest ih =>
    simp only [List.foldlM_cons, Option.bind_eq_bind, Option.bind_eq_some_iff] at h
    obtain ⟨s1, h1, h2⟩ := h
    exact ih s1 (.step h0 h1) h2

/-- the direct-fd machine has a complete run: the object is delivered, the end of data is seen, the
    Reader is destructed with both threads returned (and, during the second read(), a call is in
    progress: hypotheses of `direct_no_stuck_state`) -/
example : (∃ s, (D directCfg).Reachable s ∧
      (s.destroyed && s.sawEod && !s.faulted && decide (s.delivered = [7])
        && decide (s.results = [.data [7], .eof]) && decide (s.rpc = .done) && decide (s.ppc = .done)) = true) ∧
    (∃ s, (D directCfg).Reachable s ∧ decide (s.cpc = .readWaitPop) = true) := by
  constructor
  · have h : ((directRun.foldlM (step? directCfg) (Direct.initD directCfg)).map fun s : State Nat =>
        (s.destroyed && s.sawEod && !s.faulted && decide (s.delivered = [7])
          && decide (s.results = [.data [7], .eof]) && decide (s.rpc = .done) && decide (s.ppc = .done))) = some true := by
      decide
    simp only [Option.map_eq_some_iff] at h
    obtain ⟨s, hs, hp⟩ := h
    exact ⟨s, direct_foldlM_reachable directCfg directRun _ s .init hs, hp⟩
  · have h : (((directRun.take 28).foldlM (step? directCfg) (Direct.initD directCfg)).map fun s : State Nat =>
        decide (s.cpc = .readWaitPop)) = some true := by
      decide
    simp only [Option.map_eq_some_iff] at h
    obtain ⟨s, hs, hp⟩ := h
    exact ⟨s, direct_foldlM_reachable directCfg _ _ s .init hs, hp⟩

/-! ## the input ends early

Framing (`PbfFd`): `mhC`/`mbC` = max_blob_header_size / max_uncompressed_blob_size, `PbfFraming.blobSize` =
`decode_blob_header`.  `PbfFd.Fixes.current` = the code as it is (the repaired length field). -/

section Truncation

open Osmium.PbfFd
open Osmium.Wire (Bytes)

abbrev mhC : Nat := PbfFraming.maxBlobHeaderSize
abbrev mbC : Nat := PbfFraming.maxUncompressedBlobSize

theorem mhC_lt : mhC < 2 ^ 32 := by decide
theorem mhC_le_mbC : mhC ≤ mbC := by decide

/-- `pbf_truncation_reported`: for ALL valid PBF files `fs` (list of records) and ALL cut positions `k`, the
    record loop of the parser on the first `k` bytes ends in an exception — before the header is known
    (`errHeader`: header() reports it) or after the complete data blobs (`errData n`: read() reports it) —
    UNLESS `k` is the end of record `j ≥ 1` (a boundary behind the header blob); then it returns normally with
    exactly the records before `k`.  (On the concatenated bytes; the two readers follow.) -/
theorem pbf_truncation_reported : PbfTruncationReported Fixes.current mhC mbC PbfFraming.blobSize :=
  PbfFd.pbf_truncation_reported mhC mbC PbfFraming.blobSize mhC_lt

/-- … through the INPUT QUEUE, for every way the cut input arrives in (non-empty) chunks -/
theorem pbf_truncation_reported_queue (fs : List (Bytes × Bytes)) (k : Nat) (cs : List Bytes)
    (hok : FileOk mhC mbC PbfFraming.blobSize fs) (hk : k ≤ (fileBytes fs).length)
    (hne : ∀ c ∈ cs, c ≠ []) (hcs : cs.flatten = (fileBytes fs).take k) :
    let r := readAllQ Fixes.current mhC mbC PbfFraming.blobSize cs
    (∃ j, 1 ≤ j ∧ j ≤ fs.length ∧ k = boundary fs j ∧ r = (fs.take j, none) ∧ outcome r = .ok (j - 1)) ∨
    (outcome r).isError = true :=
  PbfFd.pbf_truncation_reported_queue mhC mbC PbfFraming.blobSize mhC_lt fs k cs hok hk hne hcs

/-- … through the FILE DESCRIPTOR (the parser's direct-fd path), for every sequence of short read(2) counts -/
theorem pbf_truncation_reported_direct_fd (fs : List (Bytes × Bytes)) (k : Nat) (sched : List Nat)
    (hok : FileOk mhC mbC PbfFraming.blobSize fs) (hk : k ≤ (fileBytes fs).length) :
    let r := readAllFd Fixes.current mhC mbC PbfFraming.blobSize ⟨(fileBytes fs).take k, sched⟩
    (∃ j, 1 ≤ j ∧ j ≤ fs.length ∧ k = boundary fs j ∧ r = (fs.take j, none) ∧ outcome r = .ok (j - 1)) ∨
    (outcome r).isError = true :=
  PbfFd.pbf_truncation_reported_fd mhC mbC PbfFraming.blobSize mhC_lt mhC_le_mbC fs k sched hok hk

/-- the two readers compute the same function of the bytes (every chunking, every short-read schedule) -/
theorem pbf_readers_agree (fx : Fixes) (cs : List Bytes) (hne : ∀ c ∈ cs, c ≠ []) (sched : List Nat) :
    readAllQ fx mhC mbC PbfFraming.blobSize cs = readAll fx mhC mbC PbfFraming.blobSize cs.flatten ∧
    readAllFd fx mhC mbC PbfFraming.blobSize ⟨cs.flatten, sched⟩ = readAll fx mhC mbC PbfFraming.blobSize cs.flatten :=
  ⟨PbfFd.readAllQ_eq fx mhC mbC PbfFraming.blobSize cs hne,
   PbfFd.readAllFd_eq fx mhC mbC PbfFraming.blobSize mhC_le_mbC ⟨cs.flatten, sched⟩⟩

/-- whatever the outcome: the records handed to the decoders are exactly the COMPLETE records before the
    cut (none invented, none dropped) — before and after the repair -/
theorem pbf_truncated_records_are_prefix (fx : Fixes) (fs : List (Bytes × Bytes)) (k : Nat)
    (hok : FileOk mhC mbC PbfFraming.blobSize fs) (hk : k ≤ (fileBytes fs).length) :
    ∃ j, j ≤ fs.length ∧ (readAll fx mhC mbC PbfFraming.blobSize ((fileBytes fs).take k)).1 = fs.take j ∧
      boundary fs j ≤ k :=
  PbfFd.pbf_truncation_prefix fx mhC mbC PbfFraming.blobSize mhC_lt fs hok k hk

/-- the files of the specification framing encoder (`PbfSpec.frame`: any field order, optional indexdata,
    unknown extra fields) are valid files in the sense of these theorems -/
theorem spec_encoder_files_are_valid (ch : PbfSpec.Choices) (hch : Pbf.ChoicesOk ch) (hp : Bytes) (dps : List Bytes)
    (hh : Pbf.FrameFits ch PbfFraming.osmHeader hp) (hd : ∀ p ∈ dps, Pbf.FrameFits ch PbfFraming.osmData p) :
    FileOk mhC mbC PbfFraming.blobSize
      ((Pbf.specHdr ch PbfFraming.osmHeader hp, Pbf.specBlob ch hp) ::
        dps.map fun p => (Pbf.specHdr ch PbfFraming.osmData p, Pbf.specBlob ch p)) :=
  PbfFd.spec_fileOk ch hch hp dps hh hd

/-- FINDING (found by the truncation sweep of tools/props/c07.py, repaired in /repo): with the length field
    read as before the repair — ANY short read of the 4 length bytes is `return 0; // EOF` — the clause is
    FALSE: a file cut 1..3 bytes behind a record is read as a complete file. -/
theorem pbf_length_prefix_cut_was_accepted :
    ¬ PbfTruncationReported Fixes.before mhC mbC PbfFraming.blobSize :=
  PbfFd.pbf_truncation_before_refuted

/-- … and that was the only hole: before the repair the clause holds for every cut that is not 1..3 bytes
    behind a record boundary -/
theorem pbf_truncation_before_partial (fs : List (Bytes × Bytes)) (k : Nat)
    (hok : FileOk mhC mbC PbfFraming.blobSize fs) (hk : k ≤ (fileBytes fs).length)
    (hcut : ∀ j, 1 ≤ j → j < fs.length → ¬ (boundary fs j < k ∧ k < boundary fs j + 4)) :
    let r := readAll Fixes.before mhC mbC PbfFraming.blobSize ((fileBytes fs).take k)
    (∃ j, 1 ≤ j ∧ j ≤ fs.length ∧ k = boundary fs j ∧ r = (fs.take j, none) ∧ outcome r = .ok (j - 1)) ∨
    (outcome r).isError = true :=
  PbfFd.pbf_truncation_before_partial mhC mbC PbfFraming.blobSize mhC_lt fs k hok hk hcut

/-- non-vacuity: valid files with a header record and two data records exist for the real limits and the
    real `decode_blob_header`; the witness of the finding, before and after the repair -/
example : (∃ fs, FileOk mhC mbC PbfFraming.blobSize fs ∧ fs.length ≥ 3) ∧
    readAll Fixes.before mhC mbC PbfFraming.blobSize ((fileBytes exFile2).take 19) = ([(exHdrH, [0])], none) ∧
    readAll Fixes.current mhC mbC PbfFraming.blobSize ((fileBytes exFile2).take 19) = ([(exHdrH, [0])], some .truncated) :=
  ⟨⟨[(exHdrH, [0]), (exHdrD, [1]), (exHdrD, [2])],
    ⟨exHdrH_ok 0, by
      intro d hd
      simp only [List.mem_cons, List.not_mem_nil, or_false] at hd
      rcases hd with rfl | rfl
      · exact exHdrD_ok 1
      · exact exHdrD_ok 2⟩, by decide⟩,
   exFile2_cut_before, exFile2_cut_current⟩

/-! ### the pipeline: a parser that throws at the end of what it was given -/

/-- `truncated_input_reported`: the parser throws when it reaches the end of the data it was given
    (`c.parseFault = some c.file.length`; `c.file` = the objects of the complete records of a truncated input).
    Then in EVERY reachable state, for every schedule, client, queue bound and pool size: read() has never
    unpacked the end-of-data marker, no read() has returned "end of data" and none is about to.  Since every
    API call returns (`api_call_returns_thread_fair`) and its result is data, `eof`, an io_error caused by an
    EARLIER error/close, or the exception of a stage, a caller that reads on gets the exception
    (`first_error_reported`, `no_data_after_error`). -/
theorem truncated_input_reported (c : Cfg α) (wf : c.WF) (hn : c.nothing = false)
    (hpf : c.parseFault = some c.file.length) (s : State α) (h : (P c).Reachable s) :
    s.sawEod = false ∧ Res.eof ∉ s.results ∧ s.cpc ≠ .ret .eof ∧ s.cpc ≠ .eofJoin :=
  Trunc.truncated_never_eof c wf hn hpf s h

/-- read() returns "end of data" only after it has popped the end-of-data marker from the osmdata queue (or
    with an empty entity mask) — never because a queue was shut down under it -/
theorem eof_only_after_end_marker (c : Cfg α) (wf : c.WF) (s : State α) (h : (P c).Reachable s)
    (he : s.cpc = .eofJoin ∨ s.cpc = .ret .eof ∨ Res.eof ∈ s.results) : s.sawEod = true ∨ c.nothing = true :=
  Trunc.eof_only_after_eod c wf s h he

/-- the same for a PBF file read directly through the fd -/
theorem direct_truncated_input_reported (c : Cfg α) (hd : Direct.IsDirect c) (wf : (Direct.fed c).WF)
    (hn : c.nothing = false) (hpf : c.parseFault = some c.file.length) (sd : State α) (h : (D c).Reachable sd) :
    sd.sawEod = false ∧ Res.eof ∉ sd.results :=
  Trunc.direct_truncated_never_eof c hd wf hn hpf sd h

/-- the parse fault of the pipeline configuration that reads an input whose record loop has outcome `o`: the
    parser throws behind the objects of the complete records iff the outcome is an exception -/
def faultOf (o : Outcome) (n : Nat) : Option Nat := if o.isError then some n else none

/-- `pbf_truncated_read_raises` — framing and pipeline together.  A valid PBF file cut at ANY position `k`
    that is not a record boundary behind the header blob, read by a Reader whose parser behaves as the record
    loop says (`c.parseFault = faultOf (outcome …) c.file.length`, `c.file` = the objects of the complete
    blobs): no schedule lets the caller see a regular end of data. -/
theorem pbf_truncated_read_raises (fs : List (Bytes × Bytes)) (k : Nat)
    (hok : FileOk mhC mbC PbfFraming.blobSize fs) (hk : k ≤ (fileBytes fs).length)
    (hnb : ¬ ∃ j, 1 ≤ j ∧ j ≤ fs.length ∧ k = boundary fs j)
    (c : Cfg α) (wf : c.WF) (hn : c.nothing = false)
    (hc : c.parseFault =
      faultOf (outcome (readAll Fixes.current mhC mbC PbfFraming.blobSize ((fileBytes fs).take k))) c.file.length)
    (s : State α) (h : (P c).Reachable s) : s.sawEod = false ∧ Res.eof ∉ s.results := by
  have hr := pbf_truncation_reported fs k hok hk
  simp only at hr
  rcases hr with ⟨j, h1, h2, h3, _⟩ | herr
  · exact absurd ⟨j, h1, h2, h3⟩ hnb
  · rw [faultOf, if_pos herr] at hc
    exact ⟨(truncated_input_reported c wf hn hc s h).1, (truncated_input_reported c wf hn hc s h).2.1⟩

/-- … and at a record boundary behind the header blob the record loop returns normally with exactly the
    records before the cut: such a prefix is a valid shorter file (its pipeline configuration has no parse
    fault, C05 `exactly_once_in_order` applies) -/
theorem pbf_boundary_cut_is_a_file (fs : List (Bytes × Bytes)) (j : Nat)
    (hok : FileOk mhC mbC PbfFraming.blobSize fs) (h1 : 1 ≤ j) (hj : j ≤ fs.length) :
    readAll Fixes.current mhC mbC PbfFraming.blobSize ((fileBytes fs).take (boundary fs j)) = (fs.take j, none) ∧
    faultOf (outcome (readAll Fixes.current mhC mbC PbfFraming.blobSize ((fileBytes fs).take (boundary fs j)))) 0 = none := by
  have hb := PbfFd.read_cut_boundary Fixes.current mhC mbC PbfFraming.blobSize mhC_lt fs hok j hj
  refine ⟨hb, ?_⟩
  rw [hb, faultOf, PbfFd.outcome_take_ok fs j h1 hj]
  rfl

/-! ### o5m and XML -/

/-- `o5m_truncation_reported`: the o5m parser (header check + dataset loop, C06's model `Chunks.o5mRun` on the
    concatenated stream) on the first `k` bytes of ANY well-formed dataset stream behind the 7-byte header:
    `headerTooShort` for k < 7, `premature` for a cut inside a dataset (after its type byte, inside its length
    or its payload), and at a dataset boundary the datasets before the cut WITHOUT an error — the reader does
    not require the 0xfe end marker, for it such a prefix is a valid shorter file (recorded assumption). -/
theorem o5m_truncation_reported (ds : List Chunks.Dataset) (hok : ∀ d ∈ ds, O5mTrunc.DatasetOk d) (k : Nat)
    (hk : k ≤ (O5mTrunc.hdr7 ++ O5mTrunc.encStream ds).length) :
    (k < 7 ∧ O5mTrunc.flatO5mRun ((O5mTrunc.hdr7 ++ O5mTrunc.encStream ds).take k) = ([], some .headerTooShort)) ∨
    (∃ j, j ≤ ds.length ∧ k = 7 + O5mTrunc.dsBoundary ds j ∧
      O5mTrunc.flatO5mRun ((O5mTrunc.hdr7 ++ O5mTrunc.encStream ds).take k) = (ds.take j, none)) ∨
    (∃ j off, ∃ hj : j < ds.length, 0 < off ∧ off < (O5mTrunc.encDataset ds[j]).length ∧
      k = 7 + O5mTrunc.dsBoundary ds j + off ∧
      O5mTrunc.flatO5mRun ((O5mTrunc.hdr7 ++ O5mTrunc.encStream ds).take k) = (ds.take j, some .premature)) :=
  O5mTrunc.o5m_truncation_reported ds hok k hk

/-- … so the o5m reader reports no error EXACTLY at the dataset boundaries behind the header — for every
    chunking of the cut input (`Chunks.o5mRun` = the reader over the chunks as they arrive) -/
theorem o5m_no_error_iff_dataset_boundary (ds : List Chunks.Dataset) (hok : ∀ d ∈ ds, O5mTrunc.DatasetOk d) (k : Nat)
    (hk : k ≤ (O5mTrunc.hdr7 ++ O5mTrunc.encStream ds).length) (cs : List Bytes) (hne : ∀ c ∈ cs, c ≠ [])
    (hcs : cs.flatten = (O5mTrunc.hdr7 ++ O5mTrunc.encStream ds).take k) :
    (Chunks.o5mRun cs).2 = none ↔ ∃ j, j ≤ ds.length ∧ k = 7 + O5mTrunc.dsBoundary ds j := by
  rw [O5mTrunc.o5m_chunking' cs hne, hcs]
  exact O5mTrunc.o5m_no_error_iff_boundary ds hok k hk

/-- `xml_final_call_always_made`: XMLParser::run hands every chunk to expat with `last = false` and then calls
    it EXACTLY ONCE with the empty string and `last = true` — the call in which expat checks that the document
    is complete (that check itself is not modelled). -/
theorem xml_final_call_always_made (cs : List Bytes) (hne : ∀ c ∈ cs, c ≠ []) :
    Chunks.xmlFeed cs = cs.map (fun c => (c, false)) ++ [([], true)] :=
  O5mTrunc.xml_final_call cs hne

end Truncation

end Osmium.C07
