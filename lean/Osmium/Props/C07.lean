/-
C07 — Reader pipeline always terminates and reports the first error to the caller.

Theorems over ALL reachable states of the pipeline machine of Model/Pipeline.lean (see
Props/C05.lean for the quantifier) with faults: `c.readFault` (the j-th decompressor.read()
throws), `c.closeFault` (decompressor.close() throws), `c.parseFault` (the parser throws at any
object, before or after the header), `c.blobFault` (a blob decode throws, in a pool worker or
inline); the consumer is an arbitrary client, so "stops after k reads and closes / destroys the
Reader, with or without header()" is every k.

Liveness, what is PROVED: `no_stuck_state` in full (no invariant is a hypothesis any more);
`bounded_progress` (ranking function); `api_call_returns_or_spins` (every maximal run without
further API calls reaches a state in which the call has returned after at most `rank` steps that
are not busy-wait iterations, OR it ends in an endless busy wait); `busy_wait_never_forced` (in
every state with a call in progress a non-busy-wait step is enabled at once or after one
busy-wait step), `busy_wait_keeps_progress` (a busy-wait step never disables progress),
`busy_wait_is_not_a_choice` (a thread never chooses between a busy-wait step and another step);
from these `api_call_returns_thread_fair`: TERMINATION under weak fairness of the scheduler towards
every thread; `destructor_joins_all`, `after_destructor_only_pool_jobs`.

What is ASSUMED, not proved — exactly ONE hypothesis about runs, `Sched.ThreadFair`: a thread that
has an enabled internal step at every position from some position on eventually takes a step
(textbook weak fairness of the OS scheduler; since the end of the 10 ms timed wait of
Queue::push() is a step of the waiting thread, it includes "the timed wait returns").
(`api_call_returns_weak_fair` and `api_call_returns` are the same conclusion from the intermediate
hypotheses `Sched.WeakFair` — weak fairness for the set of non-busy-wait steps and for the two
timed-wait-end events — and `Term.Fair` — busy-wait iterations do not repeat for ever.)
Outside the model: `std::thread::join` returns once the thread function has returned, mutex /
condition variable / future semantics as in Model/Mon.lean; thread and fd LEAKS are observed by the
monitors of tools/props/c07.py (/proc/self/task, /proc/self/fd), not proved; the pool is abstracted
to a FIFO work list (C19 proves the pool), and a blob job that is still queued when the Reader is
destructed is run later by the pool (`after_destructor_only_pool_jobs`).

THE DIRECT-FD PATH (a PBF FILE, not a memory buffer, is read by the parser thread directly through
the fd: reader.hpp `DummyDecompressor`, `fd_for_parser`; pbf_input_format.hpp
`read_exactly(m_fd, …)`) is covered by the last section.  On that path the read thread still runs but
its decompressor returns "" at once, so it pushes only the end marker and returns; the parser
never pops the input queue (the marker is drained by the `~queue_wrapper` shutdown), it has the
whole file from the start, stops when `output_queue_in_use()` is false (fix e0f0db9, third
disjunct of `pRunEnd`).  In terms of the model it is the SAME step function with `chunkEnd = []`
started in `Direct.initD c` (`avail = file.length`, `inputDone = true`), a state that is not
reachable from `init`; `Direct.machineD c` is that machine.  PROVED (Lemmas/PipelineDirect*.lean): a
simulation — every reachable state of `machineD c` corresponds to a reachable state of the
queue-fed machine of the configuration `Direct.fed c` (one input piece with the whole file) that
agrees with it in every field except the input queue, the read thread and the futures of the
input queue (`direct_simulation`) — hence the safety theorems (`direct_safety`; C05:
`direct_exactly_once_in_order`, `direct_delivered_is_prefix`), `direct_no_stuck_state`,
`direct_bounded_progress`, `direct_api_call_returns` (termination or endless busy wait;
termination under `Term.Fair`), `direct_destructor_joins_all`.  NOT transferred to `machineD`: the
weak-fairness refinements (`busy_wait_never_forced`, `api_call_returns_thread_fair`).  NOT in any
model here: the fd itself — that `close_fd()` runs on every exit path of the parser (fix ba026d4)
and that read(2) on the fd returns (a pipe from a `curl` child may block) are covered by the
file-input scenarios of tools/props/c07.py only (20 s watchdog, thread count, fd count
before/after, file offset at close() vs at the end; the two regression probes).
-/
import Osmium.Lemmas.PipelineBase
import Osmium.Lemmas.PipelineComplete
import Osmium.Lemmas.PipelineLive
import Osmium.Lemmas.PipelineRank
import Osmium.Lemmas.PipelineTerm
import Osmium.Lemmas.PipelineProg
import Osmium.Lemmas.PipelineFair
import Osmium.Lemmas.PipelineFairT
import Osmium.Lemmas.PipelineDirect6

namespace Osmium.C07

open Osmium.Mon Osmium Osmium.Pipeline

variable {α : Type} [DecidableEq α]

abbrev P (c : Cfg α) := machine c

/-! ## safety -/

/-- `header_fulfilled_once`: the header promise is set at most once (value or exception), it is
    unset exactly as long as nobody has set it, and once set it never changes. -/
theorem header_fulfilled_once (c : Cfg α) (s : State α) (h : (P c).Reachable s) :
    s.hdrSets ≤ 1 ∧ (s.hdr = none ↔ s.hdrSets = 0) ∧
    ∀ e s', (P c).Step s e s' → s.hdr ≠ none → s'.hdr = s.hdr :=
  ⟨(hdr_once c s h).1, (hdr_once c s h).2, fun e s' hst => hdr_stable c s s' e hst⟩

/-- … and a parser that failed before it set the header has produced no buffer at all: header()
    is the call that reports such a failure, no read() can have returned data before. -/
theorem header_failure_means_no_data (c : Cfg α) (s : State α) (h : (P c).Reachable s) :
    s.hdr ≠ some none → NoBuf s :=
  hdr_exc_no_data c s h

/-- `first_error_reported`: the end-of-data marker reaches the caller ONLY IF no stage has raised
    an exception (decompressor read or close, parser, blob decode in a worker or inline) — a
    failure is never swallowed: the future with the exception precedes the end marker in both
    queues (an exception future is followed directly by the end marker, which is the last thing
    each producer pushes), read() stops at it, closes the Reader and rethrows it; so a caller
    that keeps reading gets the exception of the FIRST failing stage in pipeline order, never a
    clean end.  After the end marker the status is never okay again. -/
theorem first_error_reported (c : Cfg α) (wf : c.WF) (s : State α) (h : (P c).Reachable s)
    (hd : s.sawEod = true) : s.faulted = false ∧ s.status ≠ .okay ∧ c.nothing = false :=
  ⟨eod_means_no_fault c wf s h hd, (after_eod c wf s h hd).1, eod_means_something_wanted c s h hd⟩

/-- … and every raised exception is on its way to the caller: in the hands of the read thread or
    the parser thread, or in a future handed to push() on one of the two queues. -/
theorem fault_is_on_its_way (c : Cfg α) (s : State α) (h : (P c).Reachable s) (hf : s.faulted = true) :
    InExc s ∨ Complete.EvP s :=
  (Complete.invZ c s h).z hf

/-- `no_data_after_error`: once an error has been reported (status error) there are no back
    buffers, no step delivers anything, every read() throws io_error, and the status stays error
    until the Reader is closed. -/
theorem no_data_after_error (c : Cfg α) (s : State α) (h : (P c).Reachable s) (he : s.status = .error) :
    s.back = [] ∧
    (∀ e s', (P c).Step s e s' → s'.delivered = s.delivered ∧ (s'.status = .error ∨ s'.status = .closed)) ∧
    (∀ s', (P c).Step s .cRead s' → s'.cpc = .ret .ioError) :=
  ⟨error_back_nil c s h he,
   fun e s' hst => ⟨no_data_after_error' c s h e s' hst he, error_is_final c s h e s' hst he⟩,
   fun s' hst => read_after_error' c s h s' hst he⟩

/-- `closed_reader_reads_nothing_more`: once close() (or the close() inside the destructor / an
    error path) has returned, the read thread has returned and the number of decompressor.read()
    calls never changes again.  (close() sets m_done and JOINS the read thread, so not even the
    read in flight is still running when it returns.) -/
theorem closed_reader_reads_nothing_more (c : Cfg α) (s : State α) (h : (P c).Reachable s) (n : Nat)
    (hc : s.readsAtClose = some n) : s.reads = n ∧ s.rpc = .done :=
  ⟨reads_after_close c s h n hc, (reads_after_close_inv c s h n hc).1⟩

/-- While the status is okay nobody has asked the read thread to stop and the osmdata queue is
    in use (except inside the shutdown that read() itself performs on the end marker). -/
theorem okay_means_running (c : Cfg α) (s : State α) (h : (P c).Reachable s) (ho : s.status = .okay) :
    s.stop = false ∧ (s.outq.inUse = true ∨ s.cpc = .eodSdRun) :=
  status_okay_stop c s h ho

/-! ## the C19 finding "push() spins after shutdown()" is not reachable from a Reader -/

/-- Each Reader queue has a SINGLE producer (input queue: the read thread; osmdata queue: the
    parser thread — pool workers only fulfil promises, they never push), a single consumer and a
    single thread that ever calls shutdown() (input queue: the parser thread; osmdata queue: the
    consumer).  The model witness `pushSpins` of Props/C19.lean needs two producers on one bounded
    queue, so it is unreachable in every pipeline run; with one producer the bound of both queues
    is hard (`C19.hard_bound_single_producer`).  The pool's work queue has several producers when
    several Readers share a pool, but nothing in the library ever shuts it down. -/
theorem reader_queues_single_producer (c : Cfg α) (s : State α) (h : (P c).Reachable s) :
    (∀ t ∈ s.inq.producers, t = tR) ∧ (∀ t ∈ s.outq.producers, t = tP) ∧
    s.inq.producers.length ≤ 1 ∧ s.outq.producers.length ≤ 1 ∧
    (∀ t, (s.inq.pc t = .sdEntered ∨ s.inq.pc t = .sdFlagged) → t = tP) ∧
    (∀ t, (s.outq.pc t = .sdEntered ∨ s.outq.pc t = .sdFlagged) → t = tC) ∧
    (∀ t, s.inq.pc t = .popWaiting → t = tP) ∧ (∀ t, s.outq.pc t = .popWaiting → t = tC) :=
  ⟨(inq_single_producer c s h).1, (outq_single_producer c s h).1, inq_producers_le_one c s h,
   outq_producers_le_one c s h, inq_sd_caller c s h, outq_sd_caller c s h, inq_consumer c s h, outq_consumer c s h⟩

/-! ## progress -/

/-- The read thread never blocks: until it has returned, one of its own steps is enabled (its only
    wait is the polling wait of the bounded push, which the model lets end at any time). -/
theorem read_thread_never_blocks (c : Cfg α) (s : State α) (h : (P c).Reachable s) (hr : s.rpc ≠ .done) :
    ∃ e s', e.isCall = false ∧ (P c).Step s e s' :=
  read_thread_enabled c s h hr

/-- The parser thread has an enabled step unless it is in one of three genuine wait states
    (blocked in wait_and_pop on the input queue, waiting for a future of the input queue, waiting
    for room in the pool's work queue). -/
theorem parser_enabled_or_waiting (c : Cfg α) (wf : c.WF) (s : State α) (h : (P c).Reachable s)
    (hp : s.ppc ≠ .done) :
    (∃ e s', Ev.isCall e = false ∧ (P c).Step s e s') ∨ Live.ParserWaiting c s :=
  Live.parser_enabled_or_waiting c s h (Live.run_data c wf s h) (Live.typed c s h) hp

/-- `no_stuck_state` (FULL): while an API call (header, read, close, destructor) is in progress
    some internal step of the pipeline is enabled — in every reachable state, for every fault, stop
    point, queue bound, pool size, with or without spurious wake-ups.  The proof is the complete
    wait-for case analysis over the consumer, the parser, the read thread and the workers, from the
    pc correspondence between the threads and the two queue machines, the wake-up lemmas of C19
    lifted to both queues, and invariants that are ALL proved for the reachable states (none is a
    hypothesis): the parser's data invariant `Live.run_data`, the typing of the queues `Live.typed`,
    "the parser has returned ⇒ the header promise is set" `Live.hdrSet`, the read thread / the
    parser set every promise before they return (`inq_fut_ready`, `Live.out_fut_ready`), the last
    thing each producer pushes is the end marker and its consumer stops popping after it
    (`inq_marker`, `Live.outq_marker`).  `c.WF`: the chunk/blob boundaries are those of the file
    and a configuration that uses the pool has a worker. -/
theorem no_stuck_state (c : Cfg α) (wf : c.WF) (s : State α) (h : (P c).Reachable s)
    (h1 : s.cpc ≠ .idle) (h2 : s.cpc ≠ .dead) :
    ∃ e s', e.isCall = false ∧ (P c).Step s e s' :=
  Pipeline.no_stuck_state c wf s h h1 h2

/-- `bounded_progress`: a ranking function.  Every internal step of the pipeline that is not a
    busy-wait iteration (`isStutter`: a bounded push that sees a full queue, its timed wait, a
    spurious wake-up that finds the predicate false) STRICTLY decreases the natural number
    `rank c s`; busy-wait iterations leave it unchanged; an API call of the client raises it by at
    most 10.  Hence between two API calls every run makes at most `rank` many steps that are not
    busy-wait iterations; combined with `no_stuck_state` below: `api_call_returns_or_spins`,
    `api_call_returns`. -/
theorem bounded_progress (c : Cfg α) (s s' : State α) (e : Ev α) (h : (P c).Reachable s)
    (hst : (P c).Step s e s') :
    (e.isCall = false → isStutter c s e = false → rank c s' < rank c s) ∧
    (isStutter c s e = true → rank c s' = rank c s) ∧
    (e.isCall = true → rank c s' ≤ rank c s + 10) :=
  ⟨fun hc hs => rank_decreases c s s' e h hst hc hs, fun hs => rank_stutter c s s' e h hst hs,
   fun hc => rank_call c s s' e hst hc⟩

/-- along any run without API-call events the number of steps that are not busy-wait iterations
    is bounded by the rank of its first state -/
theorem internal_work_bounded (c : Cfg α) (tr : List (Ev α)) (s s' : State α) (h : (P c).Reachable s)
    (hc : ∀ e ∈ tr, e.isCall = false) (hr : (P c).run? s tr 0 = .ok s') :
    (tr.filter fun e => !isStutter c s e).length + rank c s' ≤ rank c s :=
  internal_steps_bounded c tr s s' 0 h hc hr

/-! ## termination -/

/-- `api_call_returns_or_spins` (NO fairness assumption).  Take any MAXIMAL run without further API
    calls from a reachable state (`Term.MaxRun`: at every position an internal step is taken, or none
    is enabled and the run stays).  Either it reaches a state in which the call has returned
    (consumer between calls, or destructed): the first such position `n` exists, and up to it the
    run has made at most `rank c (σ 0)` steps that are not busy-wait iterations
    (`Term.work … n + rank c (σ n) ≤ rank c (σ 0)`); or the run is infinite and from some position
    on EVERY step is a busy-wait iteration (`isStutter`: a bounded push polling a full queue, its
    10 ms timed wait ending, a wake-up that finds the wait predicate false).  So the ONLY way an API
    call does not return is an endless busy wait. -/
theorem api_call_returns_or_spins (c : Cfg α) (wf : c.WF) (σ : Nat → State α) (ε : Nat → Option (Ev α))
    (hrun : Term.MaxRun c σ ε) (h0 : (P c).Reachable (σ 0)) :
    (∃ n, ¬ Term.InCall (σ n) ∧ (∀ i, i < n → Term.InCall (σ i)) ∧
        Term.work c σ ε n + rank c (σ n) ≤ rank c (σ 0)) ∨
    (∃ N, ∀ i, N ≤ i → ∃ e, ε i = some e ∧ isStutter c (σ i) e = true) :=
  Term.call_returns_or_spins c wf σ ε hrun h0

/-- `api_call_returns`: under the fairness assumption `Term.Fair` — busy-wait iterations do not
    repeat for ever — every maximal run without further API calls reaches a state in which the
    call has returned (header()/read()/close() returned or threw; the destructor finished), after
    at most `rank c (σ 0)` steps that are not busy-wait iterations. -/
theorem api_call_returns (c : Cfg α) (wf : c.WF) (σ : Nat → State α) (ε : Nat → Option (Ev α))
    (hrun : Term.MaxRun c σ ε) (h0 : (P c).Reachable (σ 0)) (hfair : Term.Fair c σ ε) :
    ∃ n, ¬ Term.InCall (σ n) ∧ (∀ i, i < n → Term.InCall (σ i)) ∧
      Term.work c σ ε n + rank c (σ n) ≤ rank c (σ 0) :=
  Term.call_returns c wf σ ε hrun h0 hfair

/-- `busy_wait_never_forced`: the endless busy wait that `api_call_returns_or_spins` leaves open is
    never FORCED by the pipeline.  In every reachable state in which an API call is in progress a
    step that is not a busy-wait iteration is enabled at once, or after one busy-wait step (the
    timed wait of a bounded push() ends and `size()` then sees room): there is a run of at most two
    internal steps that lowers the rank.  So `Term.Fair` can only fail if the scheduler / the 10 ms
    timed wait for ever withholds a step that is enabled.  Proof: the wait-for analysis of
    `no_stuck_state` refined by "who spins on a full queue", with five more invariants (a polling
    producer ⇒ bounded queue; header unset ⇒ nothing pushed; the future being pushed is neither
    queued nor held by the consumer — both queues; a completed shutdown() leaves a polling
    producer an EMPTY queue — both queues). -/
theorem busy_wait_never_forced (c : Cfg α) (wf : c.WF) (s : State α) (h : (P c).Reachable s)
    (h1 : s.cpc ≠ .idle) (h2 : s.cpc ≠ .dead) :
    ∃ tr s', tr.length ≤ 2 ∧ (∀ e ∈ tr, e.isCall = false) ∧ (P c).run? s tr 0 = .ok s' ∧
      rank c s' < rank c s :=
  Prog.progress_run c wf s h h1 h2

/-- … and a busy-wait step never DISABLES progress: if a step that is not a busy-wait iteration is
    enabled before a busy-wait step of any thread, one is enabled after it (the busy-wait step
    changes only the queue-pc, `sawSize` or wait-set entry of the thread that makes it). -/
theorem busy_wait_keeps_progress (c : Cfg α) (s s' : State α) (e : Ev α) (hst : (P c).Step s e s')
    (hs : isStutter c s e = true) (hcan : Prog.Can c s) : Prog.Can c s' :=
  Sched.can_frame c s s' e hst hs hcan

/-- `api_call_returns_weak_fair`: TERMINATION UNDER WEAK FAIRNESS.  Every maximal run without further
    API calls that is weakly fair (`Sched.WeakFair`, three conditions of the form "enabled at every
    position from some position on ⇒ eventually taken": (1) the steps that are not busy-wait
    iterations, taken together; (2) the end of the 10 ms timed wait of the read thread's push();
    (3) the same for the parser thread's push()) reaches a state in which the call has returned —
    header()/read()/close() returned or threw, the destructor finished — after at most
    `rank c (σ 0)` steps that are not busy-wait iterations. -/
theorem api_call_returns_weak_fair (c : Cfg α) (wf : c.WF) (σ : Nat → State α) (ε : Nat → Option (Ev α))
    (hrun : Term.MaxRun c σ ε) (h0 : (P c).Reachable (σ 0)) (hfair : Sched.WeakFair c σ ε) :
    ∃ n, ¬ Term.InCall (σ n) ∧ (∀ i, i < n → Term.InCall (σ i)) ∧
      Term.work c σ ε n + rank c (σ n) ≤ rank c (σ 0) :=
  Sched.call_returns_weak_fair c wf σ ε hrun h0 hfair

/-- A thread never has the choice between a busy-wait iteration and another step: if a thread can make
    a busy-wait step, every internal step it can make is one (inside the polling loop of push() or
    blocked in wait_and_pop() it can only make steps of that call, and which one is determined by the
    queue). -/
theorem busy_wait_is_not_a_choice (c : Cfg α) (wf : c.WF) (s : State α) (h : (P c).Reachable s)
    (e1 e2 : Ev α) (s1 s2 : State α) (t : Tid)
    (hst1 : (P c).Step s e1 s1) (hs1 : isStutter c s e1 = true) (ht1 : e1.thread = t)
    (hst2 : (P c).Step s e2 s2) (hc2 : e2.isCall = false) (ht2 : e2.thread = t) :
    isStutter c s e2 = true :=
  Sched.det c wf s h e1 e2 s1 s2 t hst1 hs1 ht1 hst2 hc2 ht2

/-- `api_call_returns_thread_fair`: TERMINATION UNDER WEAK FAIRNESS OF THE SCHEDULER.  `Sched.ThreadFair`:
    every thread (consumer, read thread, parser thread, each pool worker; `Ev.thread`) that has an
    enabled internal step at every position from some position on eventually takes a step — the end
    of the 10 ms timed wait of Queue::push() is a step of the waiting thread, so "the timed wait
    returns" is part of it.  Then every maximal run without further API calls reaches a state in
    which the call has returned — header()/read()/close() returned or threw, the destructor
    finished — after at most `rank c (σ 0)` steps that are not busy-wait iterations.  For every
    fault, stop point, queue bound, pool size, with or without spurious wake-ups. -/
theorem api_call_returns_thread_fair (c : Cfg α) (wf : c.WF) (σ : Nat → State α) (ε : Nat → Option (Ev α))
    (hrun : Term.MaxRun c σ ε) (h0 : (P c).Reachable (σ 0)) (hfair : Sched.ThreadFair c σ ε) :
    ∃ n, ¬ Term.InCall (σ n) ∧ (∀ i, i < n → Term.InCall (σ i)) ∧
      Term.work c σ ε n + rank c (σ n) ≤ rank c (σ 0) :=
  Sched.call_returns_thread_fair c wf σ ε hrun h0 hfair

/-- finite form: a finite run of internal steps that cannot be extended by an internal step ends in
    a state in which the call has returned, after at most `rank c s` steps that are not busy-wait
    iterations. -/
theorem maximal_finite_run_returns (c : Cfg α) (wf : c.WF) (tr : List (Ev α)) (s s' : State α)
    (h : (P c).Reachable s) (hc : ∀ e ∈ tr, e.isCall = false) (hr : (P c).run? s tr 0 = .ok s')
    (hmax : ∀ e s'', e.isCall = false → ¬ (P c).Step s' e s'') :
    (s'.cpc = .idle ∨ s'.cpc = .dead) ∧ (tr.filter fun e => !isStutter c s e).length + rank c s' ≤ rank c s :=
  Term.finite_maximal_run_returns c wf tr s s' h hc hr hmax

/-- `destructor_joins_all`: when the destructor has returned (`destroyed`, i.e. the consumer is
    `dead`) the read thread and the parser thread have returned — they were JOINED: the destructor
    only gets past `m_read_thread_manager.close()` / `~thread_handler` when they have — and both
    queues are shut down.  Already inside the destructor: after its close() the read thread has
    returned, after `~thread_handler` the parser thread has. -/
theorem destructor_joins_all (c : Cfg α) (s : State α) (h : (P c).Reachable s) :
    (s.destroyed = true ↔ s.cpc = .dead) ∧
    (s.destroyed = true → s.rpc = .done ∧ s.ppc = .done ∧ s.inq.inUse = false ∧ s.outq.inUse = false) ∧
    (Term.afterJoinR s.cpc = true → s.rpc = .done) ∧ (Term.afterJoinP s.cpc = true → s.ppc = .done) := by
  have hj := Term.joined c s h
  refine ⟨hj.jd, fun hd => ?_, hj.jr, hj.jp⟩
  have hc := hj.jd.mp hd
  have hp := hj.jp (by rw [hc]; rfl)
  exact ⟨hj.jr (by rw [hc]; rfl), hp, hj.ji hp, hj.jo hc⟩

/-- … and after that nothing of the Reader moves any more: the only steps left are pool workers
    running blob jobs that were submitted before (the pool is not the Reader's; such a job owns its
    input and its promise); the consumer stays destructed, both threads stay returned. -/
theorem after_destructor_only_pool_jobs (c : Cfg α) (s s' : State α) (e : Ev α) (h : (P c).Reachable s)
    (hd : s.destroyed = true) (hst : (P c).Step s e s') :
    (∃ w, e = .wStart w ∨ e = .wDone w) ∧ s'.cpc = .dead ∧ s'.rpc = .done ∧ s'.ppc = .done :=
  Term.dead_only_pool c s s' e h ((Term.joined c s h).jd.mp hd) hst

/-! ## the direct-fd configuration: a PBF FILE read by the parser thread through the file descriptor

`Direct.machineD c`: the SAME step function `step? c`, for a configuration with `Direct.IsDirect c`
(no input pieces: `chunkEnd = []`, the `DummyDecompressor` never throws), started in `Direct.initD c`
= `init` with `avail = file.length` and `inputDone = true` (the parser has the whole file and never
asks the input queue).  The read thread still runs: it pushes the end marker and returns; the
parser's `~queue_wrapper` shutdown drains it.  `Direct.fed c` is the modelled queue-fed
configuration with ONE input piece that holds the whole file. -/

/-- the direct-fd machine -/
abbrev D (c : Cfg α) := Direct.machineD c

/-- `direct_simulation`: every reachable state `sd` of the direct-fd machine corresponds to a reachable
    state `s` of the queue-fed machine `P (Direct.fed c)` that agrees with it in EVERY field except
    the input queue, the read thread's pc and counters (in `s` it has returned), `readsAtClose` and
    the futures of the input queue: same osmdata queue, parser / consumer / worker pcs, parser
    buffers, pool, status, back buffers, delivered objects, results, header promise, fault flag
    (`Direct.Sim`).  Steps of the read thread are matched by no step, every other step by the same
    event (`Direct.sim_step`).  So every invariant of the queue-fed model about those fields holds
    for the direct-fd configuration. -/
theorem direct_simulation (c : Cfg α) (hd : Direct.IsDirect c) (sd : State α) (h : (D c).Reachable sd) :
    ∃ s, (P (Direct.fed c)).Reachable s ∧ Direct.Sim sd s :=
  (Direct.sim c hd sd h).2

/-- safety theorems of this file for the direct-fd configuration: header promise set at most once and
    unset exactly as long as nobody has set it; the end marker reaches the caller only if no stage
    failed; after an error there are no back buffers -/
theorem direct_safety (c : Cfg α) (hd : Direct.IsDirect c) (wf : (Direct.fed c).WF) (sd : State α)
    (h : (D c).Reachable sd) :
    (sd.hdrSets ≤ 1 ∧ (sd.hdr = none ↔ sd.hdrSets = 0)) ∧
    (sd.sawEod = true → sd.faulted = false ∧ sd.status ≠ .okay ∧ c.nothing = false) ∧
    (sd.status = .error → sd.back = []) := by
  obtain ⟨s, hr, hs⟩ := direct_simulation c hd sd h
  have h1 := header_fulfilled_once (Direct.fed c) s hr
  rw [hs.hdrSets, hs.hdr] at h1
  refine ⟨⟨h1.1, h1.2.1⟩, fun he => ?_, fun he => ?_⟩
  · have := first_error_reported (Direct.fed c) wf s hr (by rw [hs.sawEod]; exact he)
    rw [hs.faulted, hs.status] at this
    exact this
  · have := (no_data_after_error (Direct.fed c) s hr (by rw [hs.status]; exact he)).1
    rw [hs.back] at this
    exact this

/-- `no_stuck_state` for the direct-fd configuration -/
theorem direct_no_stuck_state (c : Cfg α) (hd : Direct.IsDirect c) (wf : (Direct.fed c).WF) (sd : State α)
    (h : (D c).Reachable sd) (h1 : sd.cpc ≠ .idle) (h2 : sd.cpc ≠ .dead) :
    ∃ e sd', e.isCall = false ∧ (D c).Step sd e sd' :=
  Direct.no_stuck_state c hd wf sd h h1 h2

/-- `bounded_progress` for the direct-fd configuration -/
theorem direct_bounded_progress (c : Cfg α) (hd : Direct.IsDirect c) (sd sd' : State α) (e : Ev α)
    (h : (D c).Reachable sd) (hst : (D c).Step sd e sd') :
    (e.isCall = false → isStutter c sd e = false → rank c sd' < rank c sd) ∧
    (isStutter c sd e = true → rank c sd' = rank c sd) :=
  Direct.bounded_progress c hd sd sd' e h hst

/-- `api_call_returns_or_spins` and `api_call_returns` for the direct-fd configuration: every maximal
    run without further API calls from a reachable state reaches a state in which the call has
    returned after at most `rank` steps that are not busy-wait iterations, or ends in an endless busy
    wait; it returns if busy-wait iterations do not repeat for ever (`Term.Fair`).  (The
    weak-fairness refinements above are proved for the queue-fed machine only.) -/
theorem direct_api_call_returns (c : Cfg α) (hd : Direct.IsDirect c) (wf : (Direct.fed c).WF)
    (σ : Nat → State α) (ε : Nat → Option (Ev α)) (hrun : Term.MaxRun c σ ε) (h0 : (D c).Reachable (σ 0)) :
    ((∃ n, ¬ Term.InCall (σ n) ∧ (∀ i, i < n → Term.InCall (σ i)) ∧
        Term.work c σ ε n + rank c (σ n) ≤ rank c (σ 0)) ∨
      (∃ N, ∀ i, N ≤ i → ∃ e, ε i = some e ∧ isStutter c (σ i) e = true)) ∧
    (Term.Fair c σ ε → ∃ n, ¬ Term.InCall (σ n) ∧ (∀ i, i < n → Term.InCall (σ i)) ∧
        Term.work c σ ε n + rank c (σ n) ≤ rank c (σ 0)) :=
  ⟨Direct.call_returns_or_spins c hd wf σ ε hrun h0, Direct.call_returns c hd wf σ ε hrun h0⟩

/-- `destructor_joins_all` for the direct-fd configuration -/
theorem direct_destructor_joins_all (c : Cfg α) (hd : Direct.IsDirect c) (sd : State α)
    (h : (D c).Reachable sd) (hdes : sd.destroyed = true) :
    sd.cpc = .dead ∧ sd.rpc = .done ∧ sd.ppc = .done ∧ sd.outq.inUse = false :=
  Direct.destructor_joins_all c hd sd h hdes

/-! ## non-vacuity: a run with a fault, evaluated by the kernel -/

/-- the first decompressor.read() throws; unbounded queues -/
def faulty : Cfg Nat :=
  { file := [7], sel := fun _ => true, strip := id, chunkEnd := [1], pbf := false, blobEnd := [],
    usePool := false, workers := [], wqMax := 0, inqC := ⟨0, false⟩, outqC := ⟨0, false⟩, single := false,
    nothing := false, readFault := some 0, closeFault := false, parseFault := none, blobFault := none }

/-- read() of the caller gets the exception of the read thread (through both queues and the
    parser's catch block), then every call fails, then the Reader is destroyed -/
def faultyRun : List (Ev Nat) :=
  [.rTestDone false, .rRead (.exc 1), .qi (.pushEnter 1 0), .qi (.pushTest 1 true), .qi (.pushLocked 1 1 none), .rSet,
   .qi (.pushEnter 1 2), .qi (.pushTest 1 true), .qi (.pushLocked 1 2 none), .rSet,
   .pInUse true, .qi (.popNow 2 2 (some (1, 0))), .pGet (.exc 1), .pCatch,
   .qo (.pushEnter 2 1), .qo (.pushTest 2 true), .qo (.pushLocked 2 1 none), .pSet,
   .qo (.pushEnter 2 3), .qo (.pushTest 2 true), .qo (.pushLocked 2 2 none), .pSet,
   .qi (.sdEnter 2), .qi (.sdFlag 2), .qi (.sdLocked 2),
   .cRead, .cInUse true, .qo (.popNow 0 2 (some (2, 1))), .cGet (.exc 1),
   .qo (.sdEnter 0), .qo (.sdFlag 0), .qo (.sdLocked 0), .cJoinR, .cRet (.exc 1),
   .cRead, .cRet .ioError, .cHeader, .cRet .ioError,
   .cDtor, .qo (.sdEnter 0), .qo (.sdFlag 0), .qo (.sdLocked 0), .cJoinR, .cJoinP,
   .qo (.sdEnter 0), .qo (.sdFlag 0), .qo (.sdLocked 0)]

theorem foldlM_reachable (c : Cfg Nat) (tr : List (Ev Nat)) (s0 s : State Nat) (h0 : (P c).Reachable s0)
    (h : tr.foldlM (step? c) s0 = some s) : (P c).Reachable s := by
  induction tr generalizing s0 with
  | nil => simp at h; exact h ▸ h0
  | cons e rest ih =>
    simp only [List.foldlM_cons, Option.bind_eq_bind, Option.bind_eq_some_iff] at h
    obtain ⟨s1, h1, h2⟩ := h
    exact ih s1 (.step h0 h1) h2

theorem trace_witness (c : Cfg Nat) (tr : List (Ev Nat)) (Pr : State Nat → Bool)
    (h : (tr.foldlM (step? c) (init Nat)).map Pr = some true) : ∃ s, (P c).Reachable s ∧ Pr s = true := by
  simp only [Option.map_eq_some_iff] at h
  obtain ⟨s, hs, hp⟩ := h
  exact ⟨s, foldlM_reachable c tr _ s .init hs, hp⟩

/-- the failure is reported by the first read(), header promise holds the exception (set once),
    nothing was delivered, the Reader is destructed, close() recorded the number of reads -/
example : ∃ s, (P faulty).Reachable s ∧
    (s.destroyed && s.faulted && !s.sawEod && decide (s.results = [.exc 1, .ioError, .ioError])
      && decide (s.delivered = []) && decide (s.hdr = some (some 1)) && decide (s.hdrSets = 1)
      && decide (s.readsAtClose = some 1) && decide (s.reads = 1)) = true :=
  trace_witness faulty faultyRun _ (by decide)

/-- the hypothesis `status = error` of `no_data_after_error` is satisfiable -/
example : ∃ s, (P faulty).Reachable s ∧ decide (s.status = .error) = true :=
  trace_witness faulty (faultyRun.take 36) _ (by decide)

/-- the hypotheses of `api_call_returns`, `api_call_returns_weak_fair` and
    `api_call_returns_thread_fair` are satisfiable with a call in progress at the start: the run of
    the first read() above, from the state right after the call (`cRead`) to its return -/
example : ∃ σ ε, Term.MaxRun faulty σ ε ∧ (P faulty).Reachable (σ 0) ∧ Term.InCall (σ 0) ∧
    Term.Fair faulty σ ε ∧ Sched.WeakFair faulty σ ε ∧ Sched.ThreadFair faulty σ ε := by
  have hw := trace_witness faulty (faultyRun.take 26)
    (fun s : State Nat => decide (s.cpc = .readPop) &&
      (((faultyRun.drop 26).take 8).foldlM (step? faulty) s).any
        fun sf : State Nat => decide (sf.rpc = .done) && decide (sf.ppc = .done) && decide (sf.cpc = .idle))
    (by decide)
  obtain ⟨s0, hs0, hp0⟩ := hw
  simp only [Bool.and_eq_true, decide_eq_true_eq, Option.any_eq_true] at hp0
  obtain ⟨hc0, sf, hrun, ⟨hr, hp⟩, hc⟩ := hp0
  rw [← Term.runTr_eq_foldlM] at hrun
  have hsf := runTr_reachable faulty s0 sf _ hs0 hrun
  have hq := Term.quiescent faulty sf hsf hr hp (.inl hc) rfl
  obtain ⟨h1, h2, h3⟩ := Term.maxRun_of_trace faulty s0 sf _ hrun (by decide) hq
  exact ⟨_, _, h1, by rw [h3]; exact hs0, by rw [h3]; simp [Term.InCall, hc0], h2,
    Sched.weakFair_of_trace faulty s0 sf _ hrun hq, Sched.threadFair_of_trace faulty s0 sf _ hrun hq⟩

/-- `destroyed` is reachable (hypothesis of `after_destructor_only_pool_jobs`) -/
example : ∃ s, (P faulty).Reachable s ∧ s.destroyed = true :=
  trace_witness faulty faultyRun _ (by decide)

/-! ### non-vacuity for the direct-fd configuration -/

/-- a PBF file with one blob that holds one object, read directly through the fd; no pool, unbounded queues -/
def directCfg : Cfg Nat :=
  { file := [7], sel := fun _ => true, strip := id, chunkEnd := [], pbf := true, blobEnd := [1],
    usePool := false, workers := [], wqMax := 0, inqC := ⟨0, false⟩, outqC := ⟨0, false⟩, single := false,
    nothing := false, readFault := none, closeFault := false, parseFault := none, blobFault := none }

theorem directCfg_isDirect : Direct.IsDirect directCfg := ⟨rfl, rfl, rfl⟩

theorem directCfg_wf : (Direct.fed directCfg).WF := by
  constructor <;> simp [Direct.fed, directCfg, tC, tR, tP]

/-- the parser decodes the blob while the read thread pushes its end marker; the client reads the
    object, reads the end of data, destroys the Reader -/
def directRun : List (Ev Nat) :=
  [.pHeader, .pBlob [[7]], .qo (.pushEnter 2 1), .qo (.pushTest 2 true), .qo (.pushLocked 2 1 none), .pSet,
   .rTestDone false, .rRead .eod, .rCloseDec true, .qi (.pushEnter 1 0), .qi (.pushTest 1 true),
   .qi (.pushLocked 1 1 none), .rSet,
   .pRunEnd, .qo (.pushEnter 2 3), .qo (.pushTest 2 true), .qo (.pushLocked 2 2 none), .pSet,
   .qi (.sdEnter 2), .qi (.sdFlag 2), .qi (.sdLocked 2),
   .cRead, .cInUse true, .qo (.popNow 0 2 (some (2, 1))), .cGet (.buf [[7]]), .cRet (.data [7]),
   .cRead, .cInUse true, .qo (.popNow 0 1 (some (2, 3))), .cGet .eod, .qo (.sdEnter 0), .qo (.sdFlag 0),
   .qo (.sdLocked 0), .cJoinR, .cRet .eof,
   .cDtor, .qo (.sdEnter 0), .qo (.sdFlag 0), .qo (.sdLocked 0), .cJoinR, .cJoinP,
   .qo (.sdEnter 0), .qo (.sdFlag 0), .qo (.sdLocked 0)]

theorem direct_foldlM_reachable (c : Cfg Nat) (tr : List (Ev Nat)) (s0 s : State Nat) (h0 : (D c).Reachable s0)
    (h : tr.foldlM (step? c) s0 = some s) : (D c).Reachable s := by
  induction tr generalizing s0 with
  | nil => simp at h; exact h ▸ h0
  | cons e rest ih =>
    simp only [List.foldlM_cons, Option.bind_eq_bind, Option.bind_eq_some_iff] at h
    obtain ⟨s1, h1, h2⟩ := h
    exact ih s1 (.step h0 h1) h2

/-- the direct-fd machine has a complete run: the object is delivered, the end of data is seen, the
    Reader is destructed with both threads returned (and, during the second read(), a call is in
    progress: hypotheses of `direct_no_stuck_state`) -/
example : (∃ s, (D directCfg).Reachable s ∧
      (s.destroyed && s.sawEod && !s.faulted && decide (s.delivered = [7])
        && decide (s.results = [.data [7], .eof]) && decide (s.rpc = .done) && decide (s.ppc = .done)) = true) ∧
    (∃ s, (D directCfg).Reachable s ∧ decide (s.cpc = .readWaitPop) = true) := by
  constructor
  · have h : ((directRun.foldlM (step? directCfg) (Direct.initD directCfg)).map fun s : State Nat =>
        (s.destroyed && s.sawEod && !s.faulted && decide (s.delivered = [7])
          && decide (s.results = [.data [7], .eof]) && decide (s.rpc = .done) && decide (s.ppc = .done))) = some true := by
      decide
    simp only [Option.map_eq_some_iff] at h
    obtain ⟨s, hs, hp⟩ := h
    exact ⟨s, direct_foldlM_reachable directCfg directRun _ s .init hs, hp⟩
  · have h : (((directRun.take 28).foldlM (step? directCfg) (Direct.initD directCfg)).map fun s : State Nat =>
        decide (s.cpc = .readWaitPop)) = some true := by
      decide
    simp only [Option.map_eq_some_iff] at h
    obtain ⟨s, hs, hp⟩ := h
    exact ⟨s, direct_foldlM_reachable directCfg _ _ s .init hs, hp⟩

end Osmium.C07
