/-
C07 — Reader pipeline always terminates and reports the first error to the caller.

Theorems over ALL reachable states of the pipeline machine of Model/Pipeline.lean (see
Props/C05.lean for the quantifier) with faults: `c.readFault` (the j-th decompressor.read()
throws), `c.closeFault` (decompressor.close() throws), `c.parseFault` (the parser throws at any
object, before or after the header), `c.blobFault` (a blob decode throws, in a pool worker or
inline); the consumer is an arbitrary client, so "stops after k reads and closes / destroys the
Reader, with or without header()" is every k.

What is ASSUMED, not proved (liveness): the OS scheduler is weakly fair (every thread with an
enabled step eventually moves), the 10 ms timed wait of Queue::push returns, threads that
returned are joinable; thread and fd LEAKS are observed by the monitors of tools/props/c07.py
(/proc/self/task, /proc/self/fd), not proved.  The model covers the queue-fed path; a PBF file
that the parser thread reads directly through the fd is covered by the monitors only.
-/
import Osmium.Lemmas.PipelineBase
import Osmium.Lemmas.PipelineComplete
import Osmium.Lemmas.PipelineLive
import Osmium.Lemmas.PipelineRank

namespace Osmium.C07

open Osmium.Mon Osmium Osmium.Pipeline

variable {α : Type} [DecidableEq α]

abbrev P (c : Cfg α) := machine c

/-! ## safety -/

/-- `header_fulfilled_once`: the header promise is set at most once (value or exception), it is
    unset exactly as long as nobody has set it, and once set it never changes. -/
theorem header_fulfilled_once (c : Cfg α) (s : State α) (h : (P c).Reachable s) :
    s.hdrSets ≤ 1 ∧ (s.hdr = none ↔ s.hdrSets = 0) ∧
    ∀ e s', (P c).Step s e s' → s.hdr ≠ none → s'.hdr = s.hdr :=
  ⟨(hdr_once c s h).1, (hdr_once c s h).2, fun e s' hst => hdr_stable c s s' e hst⟩

/-- … and a parser that failed before it set the header has produced no buffer at all: header()
    is the call that reports such a failure, no read() can have returned data before. -/
theorem header_failure_means_no_data (c : Cfg α) (s : State α) (h : (P c).Reachable s) :
    s.hdr ≠ some none → NoBuf s :=
  hdr_exc_no_data c s h

/-- `first_error_reported`: the end-of-data marker reaches the caller ONLY IF no stage has raised
    an exception (decompressor read or close, parser, blob decode in a worker or inline) — a
    failure is never swallowed: the future with the exception precedes the end marker in both
    queues (an exception future is followed directly by the end marker, which is the last thing
    each producer pushes), read() stops at it, closes the Reader and rethrows it; so a caller
    that keeps reading gets the exception of the FIRST failing stage in pipeline order, never a
    clean end.  After the end marker the status is never okay again. -/
theorem first_error_reported (c : Cfg α) (wf : c.WF) (s : State α) (h : (P c).Reachable s)
    (hd : s.sawEod = true) : s.faulted = false ∧ s.status ≠ .okay ∧ c.nothing = false :=
  ⟨eod_means_no_fault c wf s h hd, (after_eod c wf s h hd).1, eod_means_something_wanted c s h hd⟩

/-- … and every raised exception is on its way to the caller: in the hands of the read thread or
    the parser thread, or in a future handed to push() on one of the two queues. -/
theorem fault_is_on_its_way (c : Cfg α) (s : State α) (h : (P c).Reachable s) (hf : s.faulted = true) :
    InExc s ∨ Complete.EvP s :=
  (Complete.invZ c s h).z hf

/-- `no_data_after_error`: once an error has been reported (status error) there are no back
    buffers, no step delivers anything, every read() throws io_error, and the status stays error
    until the Reader is closed. -/
theorem no_data_after_error (c : Cfg α) (s : State α) (h : (P c).Reachable s) (he : s.status = .error) :
    s.back = [] ∧
    (∀ e s', (P c).Step s e s' → s'.delivered = s.delivered ∧ (s'.status = .error ∨ s'.status = .closed)) ∧
    (∀ s', (P c).Step s .cRead s' → s'.cpc = .ret .ioError) :=
  ⟨error_back_nil c s h he,
   fun e s' hst => ⟨no_data_after_error' c s h e s' hst he, error_is_final c s h e s' hst he⟩,
   fun s' hst => read_after_error' c s h s' hst he⟩

/-- `closed_reader_reads_nothing_more`: once close() (or the close() inside the destructor / an
    error path) has returned, the read thread has returned and the number of decompressor.read()
    calls never changes again.  (close() sets m_done and JOINS the read thread, so not even the
    read in flight is still running when it returns.) -/
theorem closed_reader_reads_nothing_more (c : Cfg α) (s : State α) (h : (P c).Reachable s) (n : Nat)
    (hc : s.readsAtClose = some n) : s.reads = n ∧ s.rpc = .done :=
  ⟨reads_after_close c s h n hc, (reads_after_close_inv c s h n hc).1⟩

/-- While the status is okay nobody has asked the read thread to stop and the osmdata queue is
    in use (except inside the shutdown that read() itself performs on the end marker). -/
theorem okay_means_running (c : Cfg α) (s : State α) (h : (P c).Reachable s) (ho : s.status = .okay) :
    s.stop = false ∧ (s.outq.inUse = true ∨ s.cpc = .eodSdRun) :=
  status_okay_stop c s h ho

/-! ## the C19 finding "push() spins after shutdown()" is not reachable from a Reader -/

/-- Each Reader queue has a SINGLE producer (input queue: the read thread; osmdata queue: the
    parser thread — pool workers only fulfil promises, they never push), a single consumer and a
    single thread that ever calls shutdown() (input queue: the parser thread; osmdata queue: the
    consumer).  The model witness `pushSpins` of Props/C19.lean needs two producers on one bounded
    queue, so it is unreachable in every pipeline run; with one producer the bound of both queues
    is hard (`C19.hard_bound_single_producer`).  The pool's work queue has several producers when
    several Readers share a pool, but nothing in the library ever shuts it down. -/
theorem reader_queues_single_producer (c : Cfg α) (s : State α) (h : (P c).Reachable s) :
    (∀ t ∈ s.inq.producers, t = tR) ∧ (∀ t ∈ s.outq.producers, t = tP) ∧
    s.inq.producers.length ≤ 1 ∧ s.outq.producers.length ≤ 1 ∧
    (∀ t, (s.inq.pc t = .sdEntered ∨ s.inq.pc t = .sdFlagged) → t = tP) ∧
    (∀ t, (s.outq.pc t = .sdEntered ∨ s.outq.pc t = .sdFlagged) → t = tC) ∧
    (∀ t, s.inq.pc t = .popWaiting → t = tP) ∧ (∀ t, s.outq.pc t = .popWaiting → t = tC) :=
  ⟨(inq_single_producer c s h).1, (outq_single_producer c s h).1, inq_producers_le_one c s h,
   outq_producers_le_one c s h, inq_sd_caller c s h, outq_sd_caller c s h, inq_consumer c s h, outq_consumer c s h⟩

/-! ## progress -/

/-- The read thread never blocks: until it has returned, one of its own steps is enabled (its only
    wait is the polling wait of the bounded push, which the model lets end at any time). -/
theorem read_thread_never_blocks (c : Cfg α) (s : State α) (h : (P c).Reachable s) (hr : s.rpc ≠ .done) :
    ∃ e s', e.isCall = false ∧ (P c).Step s e s' :=
  read_thread_enabled c s h hr

/-- The parser thread has an enabled step unless it is in one of three genuine wait states
    (blocked in wait_and_pop on the input queue, waiting for a future of the input queue, waiting
    for room in the pool's work queue) — under the data invariant `RunData` and the typing of the
    queues `Typed` (hypotheses; both are consequences of the order invariants of C05 for
    well-formed configurations, not proved here). -/
theorem parser_enabled_or_waiting (c : Cfg α) (s : State α) (h : (P c).Reachable s)
    (hd : Live.RunData c s) (hty : Live.Typed s) (hp : s.ppc ≠ .done) :
    (∃ e s', Ev.isCall e = false ∧ (P c).Step s e s') ∨ Live.ParserWaiting c s :=
  Live.parser_enabled_or_waiting c s h hd hty hp

/-- `no_stuck_state`, `_partial`: while an API call (header, read, close, destructor) is in
    progress some internal step of the pipeline is enabled — for every fault, stop point, queue
    bound, pool size, with or without spurious wake-ups.  PROVED: the complete wait-for case
    analysis over the consumer, the parser, the read thread and the workers, the pc correspondence
    between the threads and the two queue machines, "the parser has returned ⇒ the header promise
    is set", the wake-up lemmas of C19 lifted to both queues.  ASSUMED (hypotheses): the data
    invariant `RunData`, the typing `Typed`, and four wait-for invariants — the read thread /
    parser set every promise before they return (`InqFutReady`, `OutFutReady`), the last thing
    each producer pushes is the end marker and its consumer stops popping after it (`InqMarker`,
    `OutqMarker`).  A ranking function (`bounded_progress`) is NOT proved. -/
theorem no_stuck_state_partial (c : Cfg α) (wf : c.WF) (s : State α) (h : (P c).Reachable s)
    (hd : Live.RunData c s) (hty : Live.Typed s) (i1 : Live.InqFutReady s) (i2 : Live.InqMarker s)
    (i4 : Live.OutqMarker s) (i5 : Live.OutFutReady c s)
    (h1 : s.cpc ≠ .idle) (h2 : s.cpc ≠ .dead) :
    ∃ e s', e.isCall = false ∧ (P c).Step s e s' :=
  Pipeline.no_stuck_state_partial c wf s h hd hty i1 i2 i4 i5 h1 h2

/-- `bounded_progress`: a ranking function.  Every internal step of the pipeline that is not a
    busy-wait iteration (`isStutter`: a bounded push that sees a full queue, its timed wait, a
    spurious wake-up that finds the predicate false) STRICTLY decreases the natural number
    `rank c s`; busy-wait iterations leave it unchanged; an API call of the client raises it by at
    most 10.  Hence between two API calls every run makes at most `rank` many steps that are not
    busy-wait iterations; with `no_stuck_state` every API call returns and the destructor joins
    all threads, PROVIDED busy waits end — they end when the other side moves, which is what the
    fairness of the OS scheduler and the 10 ms timed wait (assumptions, see the header) give. -/
theorem bounded_progress (c : Cfg α) (s s' : State α) (e : Ev α) (h : (P c).Reachable s)
    (hst : (P c).Step s e s') :
    (e.isCall = false → isStutter c s e = false → rank c s' < rank c s) ∧
    (isStutter c s e = true → rank c s' = rank c s) ∧
    (e.isCall = true → rank c s' ≤ rank c s + 10) :=
  ⟨fun hc hs => rank_decreases c s s' e h hst hc hs, fun hs => rank_stutter c s s' e h hst hs,
   fun hc => rank_call c s s' e hst hc⟩

/-- along any run without API-call events the number of steps that are not busy-wait iterations
    is bounded by the rank of its first state -/
theorem internal_work_bounded (c : Cfg α) (tr : List (Ev α)) (s s' : State α) (h : (P c).Reachable s)
    (hc : ∀ e ∈ tr, e.isCall = false) (hr : (P c).run? s tr 0 = .ok s') :
    (tr.filter fun e => !isStutter c s e).length + rank c s' ≤ rank c s :=
  internal_steps_bounded c tr s s' 0 h hc hr

/-! ## non-vacuity: a run with a fault, evaluated by the kernel -/

/-- the first decompressor.read() throws; unbounded queues -/
def faulty : Cfg Nat :=
  { file := [7], sel := fun _ => true, strip := id, chunkEnd := [1], pbf := false, blobEnd := [],
    usePool := false, workers := [], wqMax := 0, inqC := ⟨0, false⟩, outqC := ⟨0, false⟩, single := false,
    nothing := false, readFault := some 0, closeFault := false, parseFault := none, blobFault := none }

/-- read() of the caller gets the exception of the read thread (through both queues and the
    parser's catch block), then every call fails, then the Reader is destroyed -/
def faultyRun : List (Ev Nat) :=
  [.rTestDone false, .rRead (.exc 1), .qi (.pushEnter 1 0), .qi (.pushTest 1 true), .qi (.pushLocked 1 1 none), .rSet,
   .qi (.pushEnter 1 2), .qi (.pushTest 1 true), .qi (.pushLocked 1 2 none), .rSet,
   .pInUse true, .qi (.popNow 2 2 (some (1, 0))), .pGet (.exc 1), .pCatch,
   .qo (.pushEnter 2 1), .qo (.pushTest 2 true), .qo (.pushLocked 2 1 none), .pSet,
   .qo (.pushEnter 2 3), .qo (.pushTest 2 true), .qo (.pushLocked 2 2 none), .pSet,
   .qi (.sdEnter 2), .qi (.sdFlag 2), .qi (.sdLocked 2),
   .cRead, .cInUse true, .qo (.popNow 0 2 (some (2, 1))), .cGet (.exc 1),
   .qo (.sdEnter 0), .qo (.sdFlag 0), .qo (.sdLocked 0), .cJoinR, .cRet (.exc 1),
   .cRead, .cRet .ioError, .cHeader, .cRet .ioError,
   .cDtor, .qo (.sdEnter 0), .qo (.sdFlag 0), .qo (.sdLocked 0), .cJoinR, .cJoinP,
   .qo (.sdEnter 0), .qo (.sdFlag 0), .qo (.sdLocked 0)]

theorem foldlM_reachable (c : Cfg Nat) (tr : List (Ev Nat)) (s0 s : State Nat) (h0 : (P c).Reachable s0)
    (h : tr.foldlM (step? c) s0 = some s) : (P c).Reachable s := by
  induction tr generalizing s0 with
  | nil => simp at h; exact h ▸ h0
  | cons e rest ih =>
    simp only [List.foldlM_cons, Option.bind_eq_bind, Option.bind_eq_some_iff] at h
    obtain ⟨s1, h1, h2⟩ := h
    exact ih s1 (.step h0 h1) h2

theorem trace_witness (c : Cfg Nat) (tr : List (Ev Nat)) (Pr : State Nat → Bool)
    (h : (tr.foldlM (step? c) (init Nat)).map Pr = some true) : ∃ s, (P c).Reachable s ∧ Pr s = true := by
  simp only [Option.map_eq_some_iff] at h
  obtain ⟨s, hs, hp⟩ := h
  exact ⟨s, foldlM_reachable c tr _ s .init hs, hp⟩

/-- the failure is reported by the first read(), header promise holds the exception (set once),
    nothing was delivered, the Reader is destructed, close() recorded the number of reads -/
example : ∃ s, (P faulty).Reachable s ∧
    (s.destroyed && s.faulted && !s.sawEod && decide (s.results = [.exc 1, .ioError, .ioError])
      && decide (s.delivered = []) && decide (s.hdr = some (some 1)) && decide (s.hdrSets = 1)
      && decide (s.readsAtClose = some 1) && decide (s.reads = 1)) = true :=
  trace_witness faulty faultyRun _ (by decide)

/-- the hypothesis `status = error` of `no_data_after_error` is satisfiable -/
example : ∃ s, (P faulty).Reachable s ∧ decide (s.status = .error) = true :=
  trace_witness faulty (faultyRun.take 36) _ (by decide)

end Osmium.C07
