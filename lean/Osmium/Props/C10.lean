/-
C10 — Assembled areas are valid multipolygons that cover exactly the input's region.

PARTIAL BY DESIGN (DESIGN.md §3 C10).  Proved here, for ALL inputs of the model
(lean/Osmium/Model/Area.lean, tied to the C++ by the correspondence check tools/props/c10.py):

  * the exact-integer geometric core: the decision of `calculate_intersection` is correct
    (`intersect_correct`, `intersect_symm`), no int64 intermediate can overflow for coordinates
    within ±2^29 (`no_overflow`);
  * `operator<` of segments is a strict weak order — indeed a strict total order up to `==` — on
    every segment the library creates (`seg_lt_strict_weak_order`, `seg_lt_total`), hence the sorted
    segment list is a function of the segment multiset (`sort_function_of_multiset`);
  * `erase_duplicate_segments` on the sorted list leaves exactly the segments of odd multiplicity,
    each once (`erase_duplicates_parity`): the even-odd rule;
  * the intersection sweep with its `break` finds an intersection iff some pair intersects and
    counts every intersecting pair exactly once (`sweep_complete`, `sweep_counts`), so the
    pre-check of `create_rings()` rejects exactly the inputs whose odd-multiplicity segments
    cross or overlap (`precheck_rejects_crossings`);
  * `find_split_locations()` finds an open ring iff some node has odd degree (`open_rings_rejected`);
    together: the pre-check lets an input through iff its odd-multiplicity segments are non-empty,
    non-crossing and of even degree everywhere (`precheck_accepts_iff`) — the REJECTION half of C10;
  * ring direction: `reverse()` negates the shoelace sum, `fix_direction()` makes outer rings
    counter-clockwise and inner rings clockwise (`shoelace_reverse`, `fix_direction_orients`);
  * the specification `Valid` and its even-odd target are functions of the segment multiset:
    invariant under member order, way reversal and re-cutting (`spec_permutation_invariant`,
    `segments_invariant_*`).

  * RING BUILDING, stage A (`create_locations_list`, `find_split_locations` with the slocations
    the code sorts and scans): `m_locations` is THE stable-sorted list of all (item, reverse) pairs
    (`locations_list_spec`, `locations_list_unique`); for every segment list the reported open ends
    are the nodes of odd degree and `m_split_locations` is exactly the ascending list of the nodes
    of degree ≥ 4 (`find_split_locations_spec`, `split_locations_exact`);
  * stage B (`get_next_segment`, `add_new_ring`, `create_rings_simple_case`), for every segment
    list in which every node has degree 2 and for EVERY function in the place of
    `find_enclosing_ring`: the loops terminate with the measure "segments not yet in a ring" and
    without assertion failure (`add_new_ring_loop_terminates`, `simple_case_terminates`), every ring
    is a closed chain (`simple_rings_closed`) of ≥ 3 segments / ≥ 4 points (`simple_rings_min3`),
    the rings contain every segment exactly once (`simple_rings_partition`) — with
    `erase_duplicates_parity` that is the even-odd fill (`simple_rings_even_odd`) —, the rings are
    the connected components of the segment graph (`simple_rings_are_components`) and therefore do
    not depend on the order/direction in which the segments were listed
    (`simple_case_order_independent`, `simple_case_input_order_independent`);
  * stage C: rings leave `add_new_ring` with outer = counter-clockwise, inner = clockwise
    (`simple_rings_oriented`) and the ring containing the overall minimum segment is the first ring
    and is outer (`first_ring_outer`);
  * stage D (`add_new_ring_complex` and the two loops of `create_rings_complex_case` that cut the
    segments into partial rings): termination, every partial ring is a chain that is closed or joins
    two split locations and passes through none, the partial rings contain every segment exactly
    once (`complex_pieces_partition`).

NOT PROVED (listed in tools/manifest.d/C10.json): `find_enclosing_ring` (which outer ring an inner
ring is attached to: it compares `double`s; modelled executably in `findEnclosingRing`, checked
against the real code on every run, and the theorems above hold for ANY answer it gives), and the
complex case after the cutting (`try_to_merge`, `join_connected_rings`, `find_candidates`,
`find_inner_outer_complex`).  Those parts are validated on generated inputs: the executable `Valid`
(this file's spec, run by lean/Driver/C10.lean) and an independent oracle judge every area the real
assembler produces.
-/
import Osmium.Lemmas.AreaGeom
import Osmium.Lemmas.AreaOrder
import Osmium.Lemmas.AreaList
import Osmium.Lemmas.AreaSplit
import Osmium.Lemmas.AreaRing7
import Osmium.Lemmas.SrcTie

namespace Osmium.Area.C10

open Osmium.Area

/-! ### int64 arithmetic -/

/-- Every int64 intermediate of `calculate_intersection` (`d`, `na`, `nb`, the collinearity test),
    of `operator<` (products of coordinate differences), of `find_enclosing_ring`'s `z` (same
    shape as `d`) and of `det()` stays inside the int64 range when all coordinates are within
    ±2^29 — so the C++ arithmetic is the mathematical one the model uses. -/
theorem no_overflow (p0 p1 q0 q1 : Vec) (h0 : p0.inRange = true) (h1 : p1.inRange = true)
    (h2 : q0.inRange = true) (h3 : q1.inRange = true) :
    I64 ((p1.x - p0.x) * (q1.y - q0.y)) ∧ I64 ((p1.y - p0.y) * (q1.x - q0.x)) ∧
    I64 ((p1.sub p0).cross (q1.sub q0)) ∧
    I64 ((q1.x - q0.x) * (p0.y - q0.y)) ∧ I64 ((q1.y - q0.y) * (p0.x - q0.x)) ∧
    I64 ((q1.x - q0.x) * (p0.y - q0.y) - (q1.y - q0.y) * (p0.x - q0.x)) ∧
    I64 ((p1.x - p0.x) * (p0.y - q0.y)) ∧ I64 ((p1.y - p0.y) * (p0.x - q0.x)) ∧
    I64 ((p1.x - p0.x) * (p0.y - q0.y) - (p1.y - p0.y) * (p0.x - q0.x)) ∧
    I64 ((p1.sub p0).cross (q0.sub p0)) ∧ I64 (p0.cross p1) :=
  no_overflow_cross p0 p1 q0 q1 h0 h1 h2 h3

example : (⟨536870912, -536870912⟩ : Vec).inRange = true := by decide

/-! ### the intersection decision -/

/-- `calculate_intersection` returns a defined location exactly when the two closed segments
    share a point that is not merely a common end point (rational parameters, exact). -/
theorem intersect_correct (s t : Seg) (hs : s.wf = true) (ht : t.wf = true) (hne : s ≠ t) :
    s.intersect? t = true ↔ Meets s t :=
  Osmium.Area.intersect_correct s t hs ht hne

/-- identical segments are reported as not intersecting (they are removed before the sweep) -/
theorem intersect_self (s : Seg) : s.intersect? s = false := Osmium.Area.intersect_self s

/-- the decision does not depend on the order of the arguments -/
theorem intersect_symm (s t : Seg) (hs : s.wf = true) (ht : t.wf = true) :
    s.intersect? t = t.intersect? s :=
  Osmium.Area.intersect_symm s t hs ht

-- non-vacuity: a crossing, a T junction, an overlap, a touch, a miss
example : (Seg.ofEnds ⟨0, 0⟩ ⟨4, 4⟩).intersect? (Seg.ofEnds ⟨0, 4⟩ ⟨4, 0⟩) = true := by decide
example : (Seg.ofEnds ⟨0, 0⟩ ⟨4, 0⟩).intersect? (Seg.ofEnds ⟨2, 0⟩ ⟨2, 3⟩) = true := by decide
example : (Seg.ofEnds ⟨0, 0⟩ ⟨4, 4⟩).intersect? (Seg.ofEnds ⟨2, 2⟩ ⟨6, 6⟩) = true := by decide
example : (Seg.ofEnds ⟨0, 0⟩ ⟨2, 2⟩).intersect? (Seg.ofEnds ⟨2, 2⟩ ⟨4, 0⟩) = false := by decide
example : (Seg.ofEnds ⟨0, 0⟩ ⟨2, 2⟩).intersect? (Seg.ofEnds ⟨2, 2⟩ ⟨4, 4⟩) = false := by decide
example : (Seg.ofEnds ⟨0, 0⟩ ⟨1, 0⟩).intersect? (Seg.ofEnds ⟨0, 1⟩ ⟨1, 1⟩) = false := by decide
example : (Seg.ofEnds ⟨0, 0⟩ ⟨4, 4⟩).wf = true ∧ Seg.ofEnds ⟨0, 0⟩ ⟨4, 4⟩ ≠ Seg.ofEnds ⟨0, 4⟩ ⟨4, 0⟩ := by decide

/-! ### the segment order -/

/-- a strict weak ordering on the carrier `S` (what `std::sort` requires) -/
structure StrictWeakOn {α : Type} (S : α → Prop) (lt : α → α → Bool) : Prop where
  irrefl : ∀ a, S a → lt a a = false
  asymm : ∀ a b, S a → S b → lt a b = true → lt b a = false
  trans : ∀ a b c, S a → S b → S c → lt a b = true → lt b c = true → lt a c = true
  incomp_trans : ∀ a b c, S a → S b → S c →
    lt a b = false → lt b a = false → lt b c = false → lt c b = false →
    lt a c = false ∧ lt c a = false

/-- `operator<(NodeRefSegment, NodeRefSegment)` is a strict weak ordering on the segments the
    library creates (first end point strictly before the second, i.e. non-zero length) — on ALL of
    them, not only on those sharing their first point. -/
theorem seg_lt_strict_weak_order : StrictWeakOn (fun s : Seg => s.wf = true) Seg.lt where
  irrefl a _ := seg_lt_irrefl a
  asymm a b ha hb := seg_lt_asymm a b ha hb
  trans a b c ha hb hc := seg_lt_trans a b c ha hb hc
  incomp_trans a b c ha hb hc := seg_lt_incomp_trans a b c ha hb hc

/-- ... and it is total up to `==`: incomparable segments are equal. -/
theorem seg_lt_total (a b : Seg) (ha : a.wf = true) (hb : b.wf = true) :
    a.lt b = false → b.lt a = false → a = b :=
  Osmium.Area.seg_lt_total a b ha hb

/-- every segment made from two different locations is in the domain -/
theorem segments_are_wf (w : List Node) : ∀ s ∈ extractSegments w, s.wf = true :=
  extractSegments_wf w

/-- The sorted segment list is a function of the segment MULTISET: whatever order the members
    and their nodes arrive in, `sort()` produces the same list. -/
theorem sort_function_of_multiset (l l' : List Seg) (hwf : ∀ s ∈ l, s.wf = true) (hp : l.Perm l') :
    sortSegs l = sortSegs l' :=
  sortSegs_perm_invariant l l' hwf hp

theorem sort_sorted (l : List Seg) (hwf : ∀ s ∈ l, s.wf = true) :
    SortedSegs (sortSegs l) ∧ (sortSegs l).Perm l :=
  ⟨sortSegs_sorted l hwf, sortSegs_perm l⟩

/-! ### duplicate cancellation = even-odd rule -/

/-- `erase_duplicate_segments` applied to the sorted list leaves exactly the distinct segments
    of odd multiplicity: every segment occurs `count mod 2` times in the result. -/
theorem erase_duplicates_parity (l : List Seg) (hwf : ∀ s ∈ l, s.wf = true) (s : Seg) :
    (eraseDuplicates (sortSegs l)).count s = l.count s % 2 := by
  have hp := sortSegs_perm l
  have hwf' : ∀ x ∈ sortSegs l, x.wf = true := fun x hx => hwf x (hp.mem_iff.1 hx)
  rw [erase_parity_of_sorted (sortSegs l) (sortSegs_sorted l hwf)
    (fun a ha b hb h1 h2 => Osmium.Area.seg_lt_total a b (hwf' a ha) (hwf' b hb) h1 h2) s, hp.count_eq]

/-- ... in particular the result has no duplicates, -/
theorem erase_duplicates_nodup (l : List Seg) (hwf : ∀ s ∈ l, s.wf = true) :
    (eraseDuplicates (sortSegs l)).Nodup := by
  have hp := sortSegs_perm l
  have hwf' : ∀ x ∈ sortSegs l, x.wf = true := fun x hx => hwf x (hp.mem_iff.1 hx)
  exact erase_nodup_of_sorted (sortSegs l) (sortSegs_sorted l hwf)
    (fun a ha b hb h1 h2 => Osmium.Area.seg_lt_total a b (hwf' a ha) (hwf' b hb) h1 h2)

/-- ... its members are exactly the segments of odd multiplicity (the spec's `oddIn`), -/
theorem erase_duplicates_mem (l : List Seg) (hwf : ∀ s ∈ l, s.wf = true) (s : Seg) :
    s ∈ eraseDuplicates (sortSegs l) ↔ oddIn l s = true := by
  rw [← List.count_pos_iff, erase_duplicates_parity l hwf s]
  simp only [oddIn, beq_iff_eq]
  omega

/-- ... it is still sorted, and the parity statement also holds without any sortedness
    hypothesis (every round removes two copies of one segment). -/
theorem erase_duplicates_sorted (l : List Seg) (hwf : ∀ s ∈ l, s.wf = true) :
    SortedSegs (eraseDuplicates (sortSegs l)) :=
  List.Pairwise.sublist (eraseDuplicates_sublist _) (sortSegs_sorted l hwf)

theorem erase_duplicates_parity_any (l : List Seg) (s : Seg) :
    (eraseDuplicates l).count s % 2 = l.count s % 2 :=
  eraseDuplicates_count_mod2 l s

-- non-vacuity: three copies leave one, two copies leave none
example : eraseDuplicates (sortSegs [⟨⟨0, 0⟩, ⟨1, 0⟩⟩, ⟨⟨0, 0⟩, ⟨0, 1⟩⟩, ⟨⟨0, 0⟩, ⟨1, 0⟩⟩, ⟨⟨0, 0⟩, ⟨1, 0⟩⟩,
    ⟨⟨0, 0⟩, ⟨0, 1⟩⟩]) = [⟨⟨0, 0⟩, ⟨1, 0⟩⟩] := by decide

/-! ### the intersection sweep -/

/-- Soundness and completeness of `find_intersections` on the sorted list: the `break` at the
    first segment outside the x range and the y-range pre-test lose nothing — the sweep returns 0
    exactly when no two segments of the list intersect. -/
theorem sweep_complete (l : List Seg) (hwf : ∀ s ∈ l, s.wf = true) (hs : SortedSegs l) :
    findIntersections l = 0 ↔ l.Pairwise (fun a b => a.intersect? b = false) :=
  sweep_complete_of l hs (fun s hs' t ht h => intersect_ranges s t (hwf s hs') (hwf t ht) h)

/-- ... and it counts every intersecting pair exactly once. -/
theorem sweep_counts (l : List Seg) (hwf : ∀ s ∈ l, s.wf = true) (hs : SortedSegs l) :
    findIntersections l = countPairs l :=
  sweep_counts_of l hs (fun s hs' t ht h => intersect_ranges s t (hwf s hs') (hwf t ht) h)

/-- The pre-check of `create_rings()` (sort, erase duplicates, sweep) finds no intersection exactly
    when no two DIFFERENT segments of odd multiplicity share a point other than a common end
    point: inputs with crossing or overlapping segments are rejected, and only those. -/
theorem precheck_rejects_crossings (l : List Seg) (hwf : ∀ s ∈ l, s.wf = true) :
    findIntersections (eraseDuplicates (sortSegs l)) = 0 ↔
      ∀ s t, oddIn l s = true → oddIn l t = true → s ≠ t → ¬ Meets s t := by
  have hsub : ∀ x ∈ eraseDuplicates (sortSegs l), x.wf = true := fun x hx =>
    hwf x ((sortSegs_perm l).mem_iff.1 ((eraseDuplicates_sublist _).subset hx))
  rw [sweep_complete _ hsub (erase_duplicates_sorted l hwf)]
  have hnd := erase_duplicates_nodup l hwf
  constructor
  · intro hp s t hs ht hne hm
    have hs' := (erase_duplicates_mem l hwf s).2 hs
    have ht' := (erase_duplicates_mem l hwf t).2 ht
    have hi : s.intersect? t = true := (intersect_correct s t (hsub s hs') (hsub t ht') hne).2 hm
    -- one of the two orders occurs in the pairwise relation
    rcases List.mem_iff_getElem.1 hs' with ⟨i, hi', rfl⟩
    rcases List.mem_iff_getElem.1 ht' with ⟨j, hj', rfl⟩
    have hij : i ≠ j := fun e => hne (by subst e; rfl)
    rcases Nat.lt_or_gt_of_ne hij with h | h
    · have := List.pairwise_iff_getElem.1 hp i j hi' hj' h
      rw [this] at hi; exact absurd hi (by decide)
    · have := List.pairwise_iff_getElem.1 hp j i hj' hi' h
      rw [intersect_symm _ _ (hsub _ hs') (hsub _ ht')] at hi
      rw [this] at hi; exact absurd hi (by decide)
  · intro h
    rw [List.pairwise_iff_getElem]
    intro i j hi hj hij
    have hne : (eraseDuplicates (sortSegs l))[i] ≠ (eraseDuplicates (sortSegs l))[j] := by
      intro e
      have := (List.getElem_inj hnd).1 e
      omega
    have hmi := List.getElem_mem hi
    have hmj := List.getElem_mem hj
    cases hc : (eraseDuplicates (sortSegs l))[i].intersect? (eraseDuplicates (sortSegs l))[j] with
    | false => rfl
    | true =>
      exact absurd ((intersect_correct _ _ (hsub _ hmi) (hsub _ hmj) hne).1 hc)
        (h _ _ ((erase_duplicates_mem l hwf _).1 hmi) ((erase_duplicates_mem l hwf _).1 hmj) hne)

-- non-vacuity: a sorted list where the `break` fires, with and without an intersection
example : findIntersections (sortSegs [Seg.ofEnds ⟨0, 0⟩ ⟨4, 4⟩, Seg.ofEnds ⟨0, 4⟩ ⟨4, 0⟩, Seg.ofEnds ⟨5, 0⟩ ⟨6, 0⟩]) = 1 := by decide
example : findIntersections (sortSegs [Seg.ofEnds ⟨0, 0⟩ ⟨4, 0⟩, Seg.ofEnds ⟨0, 4⟩ ⟨4, 4⟩, Seg.ofEnds ⟨5, 0⟩ ⟨6, 0⟩]) = 0 := by decide

/-! ### open rings -/

/-- `find_split_locations()` reports no open ring exactly when every location is an end point of an
    even number of the remaining segments (every node has even degree); otherwise the input is
    rejected (and each odd location is reported with `report_ring_not_closed`). -/
theorem open_rings_rejected (segs : List Seg) :
    (openAndSplit segs).1 = 0 ↔ ∀ v, (endpoints segs).count v % 2 = 0 :=
  open_rings_zero_iff segs

/-- ... and when there is none, the number of touching points it reports (`touching_rings`, the
    bound of 100 in the property's quantifier) is the number of locations where more than two
    segment ends meet. -/
theorem touching_points_count (segs : List Seg) (h : (openAndSplit segs).1 = 0) :
    (openAndSplit segs).2 =
      ((endpoints segs).eraseDups.filter fun v => decide ((endpoints segs).count v ≥ 4)).length :=
  split_count segs h

example : openAndSplit [Seg.ofEnds ⟨0, 0⟩ ⟨1, 0⟩, Seg.ofEnds ⟨1, 0⟩ ⟨1, 1⟩] = (2, 0) := by decide

/-- THE REJECTION HALF OF C10, proved for the model: everything `create_rings()` does before
    building rings (sort, cancel duplicates, intersection sweep, open-ring scan) lets an input
    through exactly when (1) some segment has odd multiplicity, (2) no two different segments of
    odd multiplicity cross or overlap, and (3) every node has even degree in the list `E` of
    odd-multiplicity segments (`E = eraseDuplicates (sortSegs l)` contains each of them once:
    `erase_duplicates_mem`, `erase_duplicates_nodup`).  Inputs with crossing segments or open rings
    never reach ring building. -/
theorem precheck_accepts_iff (l : List Seg) (hwf : ∀ s ∈ l, s.wf = true) :
    ((preCheck l).remaining > 0 ∧ (preCheck l).intersections = 0 ∧ (preCheck l).openRings = 0) ↔
    ((∃ s, oddIn l s = true) ∧
     (∀ s t, oddIn l s = true → oddIn l t = true → s ≠ t → ¬ Meets s t) ∧
     (∀ v, (endpoints (eraseDuplicates (sortSegs l))).count v % 2 = 0)) := by
  have hmem := erase_duplicates_mem l hwf
  have hcross := precheck_rejects_crossings l hwf
  have hne : (eraseDuplicates (sortSegs l)).isEmpty = false ↔ ∃ s, oddIn l s = true := by
    constructor
    · intro h
      cases hl : eraseDuplicates (sortSegs l) with
      | nil => simp [hl] at h
      | cons a t => exact ⟨a, (hmem a).1 (by simp [hl])⟩
    · rintro ⟨s, hs⟩
      have := (hmem s).2 hs
      cases hl : eraseDuplicates (sortSegs l) with
      | nil => simp [hl] at this
      | cons a t => rfl
  rw [← hcross, ← open_rings_zero_iff, ← hne]
  have hE : ∀ x, (eraseDuplicatesFull x).1 = eraseDuplicates x := fun _ => rfl
  unfold preCheck
  simp only [hE]
  generalize eraseDuplicates (sortSegs l) = E
  cases hemp : E.isEmpty with
  | true => simp
  | false =>
    have hlen : E.length > 0 := by
      cases E with
      | nil => simp at hemp
      | cons a t => simp
    simp only [Bool.false_eq_true, if_false]
    by_cases hix : findIntersections E > 0
    · simp only [hix, if_true]
      constructor
      · rintro ⟨_, h, _⟩; omega
      · rintro ⟨_, h, _⟩; omega
    · simp only [hix, if_false]
      have h0 : findIntersections E = 0 := by omega
      constructor
      · rintro ⟨_, _, h⟩; exact ⟨trivial, h0, h⟩
      · rintro ⟨_, _, h⟩; exact ⟨hlen, h0, h⟩

-- non-vacuity: a square passes, a bow-tie without a node at the crossing and an open path do not
example : (preCheck (pointSegs [⟨0, 0⟩, ⟨4, 0⟩, ⟨4, 4⟩, ⟨0, 4⟩, ⟨0, 0⟩])).remaining = 4 ∧
    (preCheck (pointSegs [⟨0, 0⟩, ⟨4, 0⟩, ⟨4, 4⟩, ⟨0, 4⟩, ⟨0, 0⟩])).intersections = 0 ∧
    (preCheck (pointSegs [⟨0, 0⟩, ⟨4, 0⟩, ⟨4, 4⟩, ⟨0, 4⟩, ⟨0, 0⟩])).openRings = 0 := by decide
example : (preCheck (pointSegs [⟨0, 0⟩, ⟨4, 4⟩, ⟨4, 0⟩, ⟨0, 4⟩, ⟨0, 0⟩])).intersections = 1 := by decide
example : (preCheck (pointSegs [⟨0, 0⟩, ⟨4, 0⟩, ⟨4, 4⟩])).openRings = 2 := by decide

/-! ### ring direction -/

/-- `ProtoRing::reverse()` sets `m_sum = -m_sum`: that IS the shoelace sum of the reversed ring. -/
theorem shoelace_reverse (r : Ring) : (Ring.reverse r).sum = - r.sum := Osmium.Area.shoelace_reverse r

/-- the same for the point sequence the spec looks at -/
theorem shoelace_reverse_points (pts : List Vec) : shoelace pts.reverse = - shoelace pts :=
  Osmium.Area.shoelace_reverse_points pts

/-- the ring model (directed segments with reverse flags) and the point-sequence shoelace formula
    of the spec agree -/
theorem ring_sum_is_shoelace (pts : List Vec) : (ringOfPoints pts).sum = shoelace pts :=
  ringOfPoints_sum pts

/-- After `fix_direction()` an outer ring has positive shoelace sum (counter-clockwise) and an
    inner ring negative (clockwise) — fixed and opposite orientation — for every ring that
    encloses a non-zero area. -/
theorem fix_direction_orients (r : Ring) (h : r.sum ≠ 0) :
    (r.fixDirection true).sum > 0 ∧ (r.fixDirection false).sum < 0 :=
  Osmium.Area.fix_direction_orients r h

theorem fix_direction_idempotent (r : Ring) (o : Bool) (h : r.sum ≠ 0) :
    (r.fixDirection o).fixDirection o = r.fixDirection o :=
  Osmium.Area.fix_direction_idempotent r o h

example : (ringOfPoints [⟨0, 0⟩, ⟨0, 4⟩, ⟨4, 4⟩, ⟨4, 0⟩, ⟨0, 0⟩]).sum = -32 := by decide
example : ((ringOfPoints [⟨0, 0⟩, ⟨0, 4⟩, ⟨4, 4⟩, ⟨4, 0⟩, ⟨0, 0⟩]).fixDirection true).points =
    [⟨0, 0⟩, ⟨4, 0⟩, ⟨4, 4⟩, ⟨0, 4⟩, ⟨0, 0⟩] := by decide

/-! ### the specification depends on the segment multiset only -/

/-- member order: permuting the ways permutes the extracted segments -/
theorem segments_invariant_member_order (ws ws' : List (List Node)) (h : ws.Perm ws') :
    (allSegments ws).Perm (allSegments ws') := allSegments_perm ws ws' h

/-- way direction: reversing one way gives the same segment multiset -/
theorem segments_invariant_way_reversal (ws1 ws2 : List (List Node)) (w : List Node) :
    (allSegments (ws1 ++ w.reverse :: ws2)).Perm (allSegments (ws1 ++ w :: ws2)) :=
  allSegments_reverse_one ws1 ws2 w

/-- re-cutting: cutting one way in two at a node with a valid location (or joining two ways that
    share that node) gives the same segment multiset -/
theorem segments_invariant_recut (ws1 ws2 : List (List Node)) (u v : List Node) (n : Node)
    (hn : n.loc.valid = true) :
    (allSegments (ws1 ++ (u ++ [n]) :: (n :: v) :: ws2)).Perm (allSegments (ws1 ++ (u ++ n :: v) :: ws2)) :=
  allSegments_cut_one ws1 ws2 u v n hn

/-- `Valid` (every clause of it) and the even-odd target are invariant under every rearrangement
    of the input that preserves the segment multiset — in particular under member order, way
    reversal and re-cutting (the three lemmas above) — and so is everything the modelled part of
    the assembler computes before ring building (sorted list, cancelled list, intersections). -/
theorem spec_permutation_invariant (l l' : List Seg) (mp : MP) (h : l.Perm l')
    (hwf : ∀ s ∈ l, s.wf = true) :
    Valid l mp = Valid l' mp ∧ judge l mp = judge l' mp ∧ (∀ s, oddIn l s = oddIn l' s) ∧
    eraseDuplicates (sortSegs l) = eraseDuplicates (sortSegs l') ∧ preCheck l = preCheck l' := by
  have hs := sortSegs_perm_invariant l l' hwf h
  refine ⟨valid_perm l l' mp h, judge_perm l l' mp h, oddIn_perm l l' h, by rw [hs], ?_⟩
  simp only [preCheck, hs, h.length_eq]

/-- instance: all three rearrangements at the level of ways -/
theorem valid_invariant_ways (ws ws' : List (List Node)) (mp : MP) (h : ws.Perm ws') :
    Valid (allSegments ws) mp = Valid (allSegments ws') mp :=
  valid_perm _ _ mp (allSegments_perm ws ws' h)

theorem valid_invariant_reversal (ws1 ws2 : List (List Node)) (w : List Node) (mp : MP) :
    Valid (allSegments (ws1 ++ w.reverse :: ws2)) mp = Valid (allSegments (ws1 ++ w :: ws2)) mp :=
  valid_perm _ _ mp (allSegments_reverse_one ws1 ws2 w)

theorem valid_invariant_recut (ws1 ws2 : List (List Node)) (u v : List Node) (n : Node)
    (hn : n.loc.valid = true) (mp : MP) :
    Valid (allSegments (ws1 ++ (u ++ [n]) :: (n :: v) :: ws2)) mp =
      Valid (allSegments (ws1 ++ (u ++ n :: v) :: ws2)) mp :=
  valid_perm _ _ mp (allSegments_cut_one ws1 ws2 u v n hn)

/-! ### the specification is satisfiable and discriminating (non-vacuity) -/

/-- a square with a square hole, given as two ways, and the area the assembler makes of it -/
def exampleInput : List Seg :=
  allSegments [[⟨1, ⟨0, 0⟩⟩, ⟨2, ⟨10, 0⟩⟩, ⟨3, ⟨10, 10⟩⟩, ⟨4, ⟨0, 10⟩⟩, ⟨1, ⟨0, 0⟩⟩],
               [⟨5, ⟨2, 2⟩⟩, ⟨6, ⟨4, 2⟩⟩, ⟨7, ⟨4, 4⟩⟩, ⟨8, ⟨2, 4⟩⟩, ⟨5, ⟨2, 2⟩⟩]]

def exampleArea : MP :=
  [⟨[⟨0, 0⟩, ⟨10, 0⟩, ⟨10, 10⟩, ⟨0, 10⟩, ⟨0, 0⟩], [[⟨2, 2⟩, ⟨2, 4⟩, ⟨4, 4⟩, ⟨4, 2⟩, ⟨2, 2⟩]]⟩]

example : Valid exampleInput exampleArea = true := by decide
-- the hole as a second outer ring, a wrongly oriented ring, a missing hole: all rejected
example : Valid exampleInput [⟨[⟨0, 0⟩, ⟨10, 0⟩, ⟨10, 10⟩, ⟨0, 10⟩, ⟨0, 0⟩], []⟩,
    ⟨[⟨2, 2⟩, ⟨4, 2⟩, ⟨4, 4⟩, ⟨2, 4⟩, ⟨2, 2⟩], []⟩] = false := by decide
example : Valid exampleInput [⟨[⟨0, 0⟩, ⟨0, 10⟩, ⟨10, 10⟩, ⟨10, 0⟩, ⟨0, 0⟩],
    [[⟨2, 2⟩, ⟨2, 4⟩, ⟨4, 4⟩, ⟨4, 2⟩, ⟨2, 2⟩]]⟩] = false := by decide
example : Valid exampleInput [⟨[⟨0, 0⟩, ⟨10, 0⟩, ⟨10, 10⟩, ⟨0, 10⟩, ⟨0, 0⟩], []⟩] = false := by decide


/-! ## RING BUILDING

`segs` is `m_segment_list` when ring building starts.  In `create_rings()` that is
`eraseDuplicates (sortSegs input)`: well-formed (`wfSegs_of_erase`), duplicate-free
(`erase_duplicates_nodup`), sorted (`erase_duplicates_sorted`). -/

/-! ### stage A: `m_locations` and `find_split_locations` -/

/-- `create_locations_list()` : `m_locations` contains every (segment, end) pair exactly once, every
    entry refers to an existing segment, and the list is sorted by location with equal locations in
    push order — the contract of `std::stable_sort`. -/
theorem locations_list_spec (segs : List Seg) :
    (locationsList segs).Perm (allSLocs segs.length) ∧ StableSorted segs (locationsList segs) ∧
    (∀ x ∈ locationsList segs, x.item < segs.length) ∧
    (locationsList segs).map (SLoc.loc segs) = endpointList segs :=
  ⟨locationsList_perm segs, locations_stable segs, locations_items_lt segs, locationsList_map_loc segs⟩

/-- ... and that contract determines the list: whatever stable sorting algorithm the library uses,
    it produces `locationsList`. -/
theorem locations_list_unique (segs : List Seg) (l : List SLoc) (hp : l.Perm (allSLocs segs.length))
    (hs : StableSorted segs l) : l = locationsList segs :=
  stableSorted_unique segs l _ (hp.trans (locationsList_perm segs).symm) hs (locations_stable segs)

/-- `find_split_locations()` for EVERY segment list (valid locations): the locations it reports with
    `report_ring_not_closed` are exactly the nodes with an odd number of segment ends, each once, in
    ascending order; it returns `false` (some report) iff there is such a node. -/
theorem find_split_locations_spec (segs : List Seg) (hu : undefinedLoc ∉ endpoints segs) :
    ((findSplitLocations segs).1.map (SLoc.loc segs) =
        runsWith (fun c => c % 2 == 1) (endpointList segs)) ∧
    (∀ v, v ∈ (findSplitLocations segs).1.map (SLoc.loc segs) ↔ (endpoints segs).count v % 2 = 1) ∧
    ((findSplitLocations segs).1 = [] ↔ ∀ v, (endpoints segs).count v % 2 = 0) := by
  have h := (findSplitLocations_eq segs hu).1
  have hmem : ∀ v, v ∈ (findSplitLocations segs).1.map (SLoc.loc segs) ↔ (endpoints segs).count v % 2 = 1 := by
    intro v
    rw [h, mem_runsWith, (endpointList_perm segs).mem_iff, (endpointList_perm segs).count_eq]
    simp only [beq_iff_eq]
    constructor
    · exact fun h => h.2
    · intro h1
      refine ⟨?_, h1⟩
      apply Classical.byContradiction
      intro hn
      rw [List.count_eq_zero_of_not_mem hn] at h1
      omega
  refine ⟨h, hmem, ?_⟩
  constructor
  · intro he v
    have := (hmem v).not
    rw [he] at this
    simp only [List.map_nil, List.not_mem_nil, not_false_eq_true, true_iff] at this
    omega
  · intro hall
    cases hl : (findSplitLocations segs).1 with
    | nil => rfl
    | cons a t =>
      have := (hmem (a.loc segs)).mp (by rw [hl]; simp)
      have := hall (a.loc segs)
      omega

/-- `m_split_locations` for EVERY segment list (valid locations, open rings or not): exactly the
    nodes where four or more segment ends meet, each once, in strictly ascending order. -/
theorem split_locations_exact (segs : List Seg) (hu : undefinedLoc ∉ endpoints segs) :
    ((findSplitLocations segs).2 = runsWith (fun c => decide (c ≥ 4)) (endpointList segs)) ∧
    (∀ v, v ∈ (findSplitLocations segs).2 ↔ 4 ≤ (endpoints segs).count v) ∧
    (findSplitLocations segs).2.Pairwise (fun a b => a.lt b = true) := by
  have h := (findSplitLocations_eq segs hu).2
  refine ⟨h, ?_, ?_⟩
  · intro v
    rw [h, mem_runsWith, (endpointList_perm segs).mem_iff, (endpointList_perm segs).count_eq]
    simp only [ge_iff_le, decide_eq_true_eq]
    constructor
    · exact fun h => h.2
    · intro h4
      refine ⟨?_, h4⟩
      apply Classical.byContradiction
      intro hn
      rw [List.count_eq_zero_of_not_mem hn] at h4
      omega
  · rw [h]; exact runsWith_strict _ _ (endpointList_sorted segs)

/-- the hypothesis of the two theorems above holds for every segment list the assembler builds:
    `extract_segments_from_way` skips invalid locations, and the default-constructed location that
    `find_split_locations` uses as initial `previous_location` is not `valid()` -/
theorem segment_ends_never_undefined (ws : List (List Node)) :
    undefinedLoc ∉ endpoints (eraseDuplicates (sortSegs (allSegments ws))) :=
  undefined_not_endpoint ws

/-- the counting scan used by `preCheck` is this scan -/
theorem find_split_locations_precheck (segs : List Seg) (hu : undefinedLoc ∉ endpoints segs) :
    openAndSplit segs = ((findSplitLocations segs).1.length, (findSplitLocations segs).2.length) :=
  openAndSplit_eq_findSplit segs hu

/-- two triangles and a square through (1,1), one spike: the odd nodes (1,4) and (2,4) are reported,
    (1,1) — degree 6 — is the split location -/
def splitExample : List Seg :=
  [⟨⟨0, 0⟩, ⟨1, 1⟩⟩, ⟨⟨0, 0⟩, ⟨0, 1⟩⟩, ⟨⟨0, 1⟩, ⟨1, 1⟩⟩, ⟨⟨1, 1⟩, ⟨2, 2⟩⟩, ⟨⟨1, 1⟩, ⟨2, 1⟩⟩, ⟨⟨2, 1⟩, ⟨2, 2⟩⟩,
   ⟨⟨1, 1⟩, ⟨1, 3⟩⟩, ⟨⟨1, 1⟩, ⟨0, 3⟩⟩, ⟨⟨0, 3⟩, ⟨1, 3⟩⟩, ⟨⟨1, 4⟩, ⟨2, 4⟩⟩]

example : undefinedLoc ∉ endpoints splitExample := by decide
example : (findSplitLocations splitExample).1.map (SLoc.loc splitExample) = [⟨1, 4⟩, ⟨2, 4⟩] ∧
    (findSplitLocations splitExample).2 = [⟨1, 1⟩] := by decide
example : locationsList [⟨⟨0, 0⟩, ⟨1, 0⟩⟩, ⟨⟨0, 0⟩, ⟨0, 1⟩⟩] = [⟨0, false⟩, ⟨1, false⟩, ⟨1, true⟩, ⟨0, true⟩] := by decide

/-! ### stage B: the simple case -/

/-- THE LOOP OF `add_new_ring` TERMINATES.  Measure: the number of segments that are not in a ring.
    Started with the ring's first and last location having one end in a ring each and `fuel` at
    least that measure, the loop ends without an assertion failure of `get_next_segment`, the ring
    is a closed chain extending the initial chain by segments that were not in a ring, and
    afterwards no location has exactly one of its ends in a ring. -/
theorem add_new_ring_loop_terminates (segs : List Seg) (hw : WfSegs segs) (h2 : Deg2 segs)
    (fuel : Nat) (first last : Vec) (ds : List Nat) (cur : List SLoc)
    (hd : DoneOk segs ds) (hfuel : segs.length - ds.length ≤ fuel)
    (hopen : OpenAt segs ds first last) (hpath : IsPath segs first cur last) :
    ∃ ds' ext, ringLoop segs (locationsList segs) fuel first last ds cur = some (ds', cur ++ ext) ∧
      DoneOk segs ds' ∧ Closed segs ds' ∧ IsPath segs first (cur ++ ext) first ∧
      ds' = (ext.map SLoc.item).reverse ++ ds :=
  ringLoop_spec segs hw h2 fuel first last ds cur hd (by omega) (Or.inr hopen) hpath

/-- `create_rings_simple_case()` TERMINATES on every segment list in which every node has degree 2
    (no open ring, no split location), whatever `find_enclosing_ring` answers — as long as it
    answers (its own `assert` is the only way to fail). -/
theorem simple_case_terminates (enc : Enclosing) (segs : List Seg) (hw : WfSegs segs) (h2 : Deg2 segs)
    (henc : ∀ rings i, enc rings i ≠ none) : ∃ rings ds, createRingsSimple enc segs = some (rings, ds) := by
  rcases createRingsSimple_spec enc segs hw h2 with ⟨rings, ds, h, _⟩ | ⟨_, rs, i, hf⟩
  · exact ⟨rings, ds, h⟩
  · exact absurd hf (henc rs i)

/-- what `createRingsSimple` returns satisfies the ring invariants -/
theorem simple_case_result (enc : Enclosing) (segs : List Seg) (hw : WfSegs segs) (h2 : Deg2 segs)
    (rings : List PRing) (ds : List Nat) (h : createRingsSimple enc segs = some (rings, ds)) :
    (∀ r ∈ rings, RingOk segs r.segs) ∧ (allItems rings).Perm (List.range segs.length) := by
  rcases createRingsSimple_spec enc segs hw h2 with ⟨rings', ds', h', hok, hp, _⟩ | ⟨hn, _⟩
  · rw [h] at h'
    simp only [Option.some.injEq, Prod.mk.injEq] at h'
    rw [h'.1]; exact ⟨hok, hp⟩
  · rw [h] at hn; cases hn

/-- EVERY RING IS CLOSED: a chain in which every segment starts where the previous one stopped and
    the last one stops where the first one starts; the node sequence written to the area has equal
    first and last node. -/
theorem simple_rings_closed (enc : Enclosing) (segs : List Seg) (hw : WfSegs segs) (h2 : Deg2 segs)
    (rings : List PRing) (ds : List Nat) (h : createRingsSimple enc segs = some (rings, ds)) :
    ∀ r ∈ rings, (∃ a, IsPath segs a r.segs a) ∧ ringClosed ((ringOf segs r.segs).points) = true := by
  intro r hr
  have hok := (simple_case_result enc segs hw h2 rings ds h).1 r hr
  obtain ⟨a, ha⟩ := hok.closed
  exact ⟨⟨a, ha⟩, points_closed segs r.segs a ha hok.nonempty⟩

/-- EVERY RING HAS AT LEAST 3 SEGMENTS, HENCE AT LEAST 4 POINTS, when the list has no duplicate and
    no zero-length segment (which `erase_duplicate_segments` / `extract_segments_from_way` ensure). -/
theorem simple_rings_min3 (enc : Enclosing) (segs : List Seg) (hw : WfSegs segs) (hnd : segs.Nodup)
    (h2 : Deg2 segs) (rings : List PRing) (ds : List Nat)
    (h : createRingsSimple enc segs = some (rings, ds)) :
    ∀ r ∈ rings, 3 ≤ r.segs.length ∧ 4 ≤ ((ringOf segs r.segs).points).length := by
  intro r hr
  have hok := (simple_case_result enc segs hw h2 rings ds h).1 r hr
  have h3 := ring_min3 segs hw hnd r.segs hok
  refine ⟨h3, ?_⟩
  rw [points_length segs r.segs hok.nonempty]; omega

/-- THE RINGS PARTITION THE SEGMENT LIST: every segment is in exactly one ring, exactly once. -/
theorem simple_rings_partition (enc : Enclosing) (segs : List Seg) (hw : WfSegs segs) (h2 : Deg2 segs)
    (rings : List PRing) (ds : List Nat) (h : createRingsSimple enc segs = some (rings, ds)) :
    (allItems rings).Perm (List.range segs.length) ∧ (allRingSegs segs rings).Perm segs := by
  have hp := (simple_case_result enc segs hw h2 rings ds h).2
  exact ⟨hp, allRingSegs_perm segs rings hp⟩

/-- ... so, for the list `create_rings()` hands to ring building, the segments of the rings are the
    input segments of odd multiplicity, each once: the region covered is the EVEN-ODD FILL of the
    input segments (simple case). -/
theorem simple_rings_even_odd (enc : Enclosing) (l : List Seg) (hwf : ∀ s ∈ l, s.wf = true)
    (h2 : Deg2 (eraseDuplicates (sortSegs l))) (rings : List PRing) (ds : List Nat)
    (h : createRingsSimple enc (eraseDuplicates (sortSegs l)) = some (rings, ds)) (s : Seg) :
    (allRingSegs (eraseDuplicates (sortSegs l)) rings).count s = l.count s % 2 := by
  rw [(simple_rings_partition enc _ (wfSegs_of_erase l hwf) h2 rings ds h).2.count_eq]
  exact erase_duplicates_parity l hwf s

/-- THE RINGS ARE THE CONNECTED COMPONENTS of the graph whose vertices are the segments and whose
    edges join segments sharing an end point: a segment is in a ring iff it is connected to (any
    segment of) that ring. -/
theorem simple_rings_are_components (enc : Enclosing) (segs : List Seg) (hw : WfSegs segs) (h2 : Deg2 segs)
    (rings : List PRing) (ds : List Nat) (h : createRingsSimple enc segs = some (rings, ds))
    (r : PRing) (hr : r ∈ rings) (s : Seg) (hs : s ∈ ringSegs segs r.segs) (t : Seg) :
    t ∈ ringSegs segs r.segs ↔ Conn segs s t :=
  ring_is_component segs h2 r.segs ((simple_case_result enc segs hw h2 rings ds h).1 r hr) s hs t

/-- ORDER INDEPENDENCE.  Take the same segments in any other order (`segs'` a permutation of `segs`:
    other member order, other way directions, other cuts — and hence other segment numbers, another
    tie order in `m_locations`, other starting points and directions of the rings) and any other
    `find_enclosing_ring`: two segments end up in the same ring in one run iff they do in the other.
    Each ring being a closed chain through all of its segments in a graph of degree 2, the rings are
    the same cyclic sequences up to rotation and reversal. -/
theorem simple_case_order_independent (enc enc' : Enclosing) (segs segs' : List Seg) (hp : segs.Perm segs')
    (hw : WfSegs segs) (h2 : Deg2 segs) (rings rings' : List PRing) (ds ds' : List Nat)
    (h : createRingsSimple enc segs = some (rings, ds))
    (h' : createRingsSimple enc' segs' = some (rings', ds')) (s t : Seg) :
    SameRing segs rings s t ↔ SameRing segs' rings' s t := by
  have hw' := wfSegs_perm hp hw
  have h2' := deg2_perm hp h2
  have r1 := simple_case_result enc segs hw h2 rings ds h
  have r2 := simple_case_result enc' segs' hw' h2' rings' ds' h'
  rw [sameRing_iff_conn segs h2 rings r1.1 r1.2, sameRing_iff_conn segs' h2' rings' r2.1 r2.2]
  exact ⟨Conn.of_mem_iff (fun x => hp.mem_iff), Conn.of_mem_iff (fun x => hp.mem_iff.symm)⟩

/-- A RING IS DETERMINED BY THE SET OF ITS SEGMENTS: in a duplicate-free list in which every node has
    degree 2, two closed chains of distinct segments over the same segment set are rotations of each
    other, or one is a rotation of the other one reversed. -/
theorem ring_determined_by_segments (segs : List Seg) (hw : WfSegs segs)
    (h2 : ∀ v, (endpoints segs).count v = 0 ∨ (endpoints segs).count v = 2)
    (g g' : Ring) (hg : GeoRing segs g) (hg' : GeoRing segs g')
    (hset : ∀ s, s ∈ g.map DSeg.seg ↔ s ∈ g'.map DSeg.seg) :
    Rot g g' ∨ Rot (Ring.reverse g) g' :=
  geo_unique segs hw h2 g g' hg hg' hset

/-- ORDER INDEPENDENCE, cyclic form: list the same segments in any other order (and with any other
    `find_enclosing_ring`); then every ring of the first run occurs in the second run as the same
    cyclic sequence of directed segments, up to rotation and reversal. -/
theorem simple_case_order_independent_cyclic (enc enc' : Enclosing) (segs segs' : List Seg)
    (hp : segs.Perm segs') (hw : WfSegs segs) (hnd : segs.Nodup) (h2 : Deg2 segs)
    (rings rings' : List PRing) (ds ds' : List Nat)
    (h : createRingsSimple enc segs = some (rings, ds))
    (h' : createRingsSimple enc' segs' = some (rings', ds')) :
    ∀ r ∈ rings, ∃ r' ∈ rings', Rot (ringOf segs r.segs) (ringOf segs' r'.segs) ∨
      Rot (Ring.reverse (ringOf segs r.segs)) (ringOf segs' r'.segs) := by
  have r1 := simple_case_result enc segs hw h2 rings ds h
  have r2 := simple_case_result enc' segs' (wfSegs_perm hp hw) (deg2_perm hp h2) rings' ds' h'
  exact rings_cyclic_of_perm segs segs' hp hw hnd h2 rings rings' r1.1 r2.1 r2.2

/-- ... and in the pipeline of `create_rings()` the dependence on the input order disappears even
    earlier: the list handed to ring building is the same list. -/
theorem simple_case_input_order_independent (enc : Enclosing) (l l' : List Seg)
    (hwf : ∀ s ∈ l, s.wf = true) (hp : l.Perm l') :
    createRingsSimple enc (eraseDuplicates (sortSegs l)) = createRingsSimple enc (eraseDuplicates (sortSegs l')) := by
  rw [sort_function_of_multiset l l' hwf hp]

/-- a square with a square hole (two rings, every node of degree 2) -/
def simpleExample : List Seg := eraseDuplicates (sortSegs exampleInput)

example : WfSegs simpleExample ∧ simpleExample.Nodup ∧ deg2Check simpleExample = true := by
  unfold WfSegs; decide
example : Deg2 simpleExample := deg2_of_check _ (by decide)
example : (createRingsSimple (fun _ _ => some (some 0)) simpleExample).map (·.1) =
    some [⟨[⟨1, false⟩, ⟨7, false⟩, ⟨2, true⟩, ⟨0, true⟩], none⟩,
          ⟨[⟨3, false⟩, ⟨5, false⟩, ⟨6, true⟩, ⟨4, true⟩], some 0⟩] := by decide
-- the loop invariant is satisfiable: after the first segment of the outer ring
example : OpenAt simpleExample [1] ⟨0, 0⟩ ⟨10, 0⟩ ∧ DoneOk simpleExample [1] ∧
    IsPath simpleExample ⟨0, 0⟩ [⟨1, false⟩] ⟨10, 0⟩ := by
  refine ⟨⟨by decide, by decide, by decide, ?_⟩, by unfold DoneOk; decide, by simp only [IsPath]; decide⟩
  intro v h1 h2
  have hb : dc simpleExample [1] v = (if (⟨0, 0⟩ : Vec) = v then 1 else 0) + (if (⟨10, 0⟩ : Vec) = v then 1 else 0) := by
    have := dc_cons simpleExample [] 1 (by simp) (by decide) v
    rw [dc_nil] at this
    rw [this]; simp [simpleExample, segAt]; rfl
  rw [hb]
  simp [Ne.symm h1, Ne.symm h2]
-- the same segments listed backwards: other numbers, other starting points — the same cyclic sequences
example : simpleExample.Perm (simpleExample.reverse) := (List.reverse_perm _).symm
example : (createRingsSimple (fun _ _ => some none) simpleExample.reverse).map (fun p => p.1.map (·.segs)) =
    some [[⟨6, false⟩, ⟨0, false⟩, ⟨5, true⟩, ⟨7, true⟩], [⟨3, false⟩, ⟨1, false⟩, ⟨2, true⟩, ⟨4, true⟩]] := by decide
example : Rot (ringOf simpleExample [⟨1, false⟩, ⟨7, false⟩, ⟨2, true⟩, ⟨0, true⟩])
    (ringOf simpleExample.reverse [⟨6, false⟩, ⟨0, false⟩, ⟨5, true⟩, ⟨7, true⟩]) :=
  ⟨[], _, rfl, by decide⟩
example : GeoRing simpleExample (ringOf simpleExample [⟨1, false⟩, ⟨7, false⟩, ⟨2, true⟩, ⟨0, true⟩]) :=
  ⟨by decide, ⟨⟨0, 0⟩, by simp only [ringOf, List.map, DPath]; decide⟩, by decide, by decide⟩

/-! ### stage C: orientation, the first ring -/

/-- EVERY RING LEAVES `add_new_ring` ORIENTED: an outer ring has shoelace sum ≥ 0, an inner ring
    ≤ 0 — strictly when the ring encloses a non-zero area — whatever `find_enclosing_ring` said. -/
theorem simple_rings_oriented (enc : Enclosing) (segs : List Seg) (rings : List PRing) (ds : List Nat)
    (h : createRingsSimple enc segs = some (rings, ds)) (r : PRing) (hr : r ∈ rings) :
    (r.outer = none → 0 ≤ (ringOf segs r.segs).sum) ∧ (r.outer ≠ none → (ringOf segs r.segs).sum ≤ 0) ∧
    ((ringOf segs r.segs).sum ≠ 0 → (r.outer = none → 0 < (ringOf segs r.segs).sum) ∧
      (r.outer ≠ none → (ringOf segs r.segs).sum < 0)) := by
  obtain ⟨more, hm, hor⟩ := simpleFor_shape enc segs _ _ _ _ _ _ _ h
  rw [List.nil_append] at hm
  have := hor r (hm ▸ hr)
  refine ⟨this.1, this.2, fun hne => ⟨fun ho => ?_, fun ho => ?_⟩⟩
  · have := this.1 ho; omega
  · have := this.2 ho; omega

/-- THE RING CONTAINING THE OVERALL MINIMUM SEGMENT IS THE FIRST RING AND IT IS OUTER
    (`find_enclosing_ring` is not consulted for it), on the sorted list `create_rings()` builds. -/
theorem first_ring_outer (enc : Enclosing) (segs : List Seg) (hw : WfSegs segs) (hs : SortedSegs segs)
    (hne : 0 < segs.length) (rings : List PRing) (ds : List Nat)
    (h : createRingsSimple enc segs = some (rings, ds)) :
    ∃ r more, rings = r :: more ∧ r.outer = none ∧ 0 ∈ ringItems r.segs ∧ 0 ≤ (ringOf segs r.segs).sum := by
  obtain ⟨r, more, hr, ho, h0⟩ := first_ring_outer_of enc segs hw hs hne rings ds h
  exact ⟨r, more, hr, ho, h0, (simple_rings_oriented enc segs rings ds h r (by rw [hr]; simp)).1 ho⟩

example : SortedSegs simpleExample ∧ 0 < simpleExample.length := by
  exact ⟨erase_duplicates_sorted _ (by decide), by decide⟩
example : ((ringOf simpleExample [⟨1, false⟩, ⟨7, false⟩, ⟨2, true⟩, ⟨0, true⟩]).sum,
    (ringOf simpleExample [⟨3, false⟩, ⟨5, false⟩, ⟨6, true⟩, ⟨4, true⟩]).sum) = (200, -8) := by decide

/-! ### stage D: the complex case is cut into partial rings -/

/-- THE PARTIAL RINGS OF THE COMPLEX CASE.  When every node has even degree and `splits` are the
    nodes of degree ≥ 4 (what `find_split_locations` delivers: `split_locations_exact`), the two
    loops of `create_rings_complex_case()` around `add_new_ring_complex()` terminate without an
    assertion failure, and: every partial ring is a chain that is closed or runs from a split
    location to a split location, touching no split location in between; the partial rings contain
    every segment exactly once. -/
theorem complex_pieces_partition (segs : List Seg) (splits : List Vec) (hw : WfSegs segs)
    (hsp : SplitsOk segs splits) :
    ∃ pieces ds, createPieces segs splits = some (pieces, ds) ∧
      (∀ p ∈ pieces, PieceOk segs splits p) ∧ (allPieceItems pieces).Perm (List.range segs.length) :=
  createPieces_spec segs splits hw hsp

/-- ... instantiated with the split locations the model of `find_split_locations` computes -/
theorem complex_pieces_partition_found (segs : List Seg) (hw : WfSegs segs)
    (hu : undefinedLoc ∉ endpoints segs) (heven : ∀ v, (endpoints segs).count v % 2 = 0) :
    ∃ pieces ds, createPieces segs (findSplitLocations segs).2 = some (pieces, ds) ∧
      (∀ p ∈ pieces, PieceOk segs (findSplitLocations segs).2 p) ∧
      (allPieceItems pieces).Perm (List.range segs.length) := by
  apply createPieces_spec segs _ hw
  constructor
  · intro v; rw [deg_eq_count]; exact heven v
  · intro v; rw [deg_eq_count]; exact (split_locations_exact segs hu).2.1 v

/-- two triangles touching in (2,0): one split location, two partial rings -/
def touchExample : List Seg :=
  [⟨⟨0, 0⟩, ⟨1, 2⟩⟩, ⟨⟨0, 0⟩, ⟨2, 0⟩⟩, ⟨⟨1, 2⟩, ⟨2, 0⟩⟩, ⟨⟨2, 0⟩, ⟨3, 2⟩⟩, ⟨⟨2, 0⟩, ⟨4, 0⟩⟩, ⟨⟨3, 2⟩, ⟨4, 0⟩⟩]

example : WfSegs touchExample ∧ splitsCheck touchExample [⟨2, 0⟩] = true ∧
    (findSplitLocations touchExample).2 = [⟨2, 0⟩] := by
  unfold WfSegs; decide
example : SplitsOk touchExample [⟨2, 0⟩] := splitsOk_of_check _ _ (by decide)
example : (createPieces touchExample [⟨2, 0⟩]).map (·.1) =
    some [[⟨1, true⟩, ⟨0, false⟩, ⟨2, false⟩], [⟨3, false⟩, ⟨5, false⟩, ⟨4, true⟩]] := by decide

/-! ### what the unproved part gets wrong today (finding recorded by the check)

corpus/C10/enclosing-tie.ops, first line: a pentagon with a triangular hole, and a square touching
the pentagon's bottom node straight below the hole's minimum node.  The real assembler attaches the
hole to the SQUARE (`find_enclosing_ring` computes the same height for the two segments starting in
the shared node).  The specification rejects that area and accepts the correct one. -/

def tieInput : List Seg :=
  allSegments [[⟨1, ⟨0, 0⟩⟩, ⟨2, ⟨3, 1⟩⟩, ⟨3, ⟨3, 5⟩⟩, ⟨4, ⟨-3, 5⟩⟩, ⟨5, ⟨-3, 1⟩⟩, ⟨1, ⟨0, 0⟩⟩],
               [⟨6, ⟨0, 2⟩⟩, ⟨7, ⟨2, 3⟩⟩, ⟨8, ⟨0, 3⟩⟩, ⟨6, ⟨0, 2⟩⟩],
               [⟨1, ⟨0, 0⟩⟩, ⟨9, ⟨3, 0⟩⟩, ⟨10, ⟨3, -3⟩⟩, ⟨11, ⟨0, -3⟩⟩, ⟨1, ⟨0, 0⟩⟩]]

/-- the area libosmium produces today -/
def tieProduced : MP :=
  [⟨[⟨0, 0⟩, ⟨3, 1⟩, ⟨3, 5⟩, ⟨-3, 5⟩, ⟨-3, 1⟩, ⟨0, 0⟩], []⟩,
   ⟨[⟨0, 0⟩, ⟨0, -3⟩, ⟨3, -3⟩, ⟨3, 0⟩, ⟨0, 0⟩], [[⟨0, 2⟩, ⟨0, 3⟩, ⟨2, 3⟩, ⟨0, 2⟩]]⟩]

/-- the area it should produce -/
def tieExpected : MP :=
  [⟨[⟨0, 0⟩, ⟨3, 1⟩, ⟨3, 5⟩, ⟨-3, 5⟩, ⟨-3, 1⟩, ⟨0, 0⟩], [[⟨0, 2⟩, ⟨0, 3⟩, ⟨2, 3⟩, ⟨0, 2⟩]]⟩,
   ⟨[⟨0, 0⟩, ⟨0, -3⟩, ⟨3, -3⟩, ⟨3, 0⟩, ⟨0, 0⟩], []⟩]

example : Valid tieInput tieProduced = false ∧ (judge tieInput tieProduced).innerInOuter = false := by decide
example : Valid tieInput tieExpected = true := by decide

/-! ### source ties (tools/cxx2lean.py): the functions REGENERATED from /repo's C++ source on every run
    (Osmium/Generated/Src.lean) equal the hand-written model functions the theorems above are about.
    `SrcTie.segOfSrc` reads the two locations of the translated `NodeRefSegment` record, `vecOfLoc` / `vecOfSrc`
    the two coordinates of a `Location` / `vec`.  The translated arithmetic is exact `Int` arithmetic with the
    int64 no-overflow side condition in `*_defined`; `src_defined_*` discharge it on the property's domain ±2^29. -/

section SrcTies
open Osmium.Generated Osmium.CxxSem Osmium.SrcTie

/-- `Location::valid()` = `Vec.valid` -/
theorem src_tie_location_valid (l : Src.Location.Location) :
    Src.Location.Location.valid l = (vecOfLoc l).valid := by
  dsimp only [Vec.valid, vecOfLoc]
  rw [Bool.eq_iff_iff]
  simp [Src.Location.Location.valid, Src.Location.Location.precision, Src.Location.coordinate_precision] <;> omega

/-- `operator<(Location, Location)` = `Vec.lt`, `operator==` = structural equality, `Location()` = `undefinedLoc` -/
theorem src_tie_location_lt (a b : Src.Location.Location) :
    Src.Location.op_lt_Location_Location a b = (vecOfLoc a).lt (vecOfLoc b) ∧
    (Src.Location.op_eq_Location_Location a b = true ↔ vecOfLoc a = vecOfLoc b) ∧
    vecOfLoc Src.Location.Location.ctor = undefinedLoc := by
  refine ⟨?_, ?_, by decide⟩
  · dsimp only [Vec.lt, vecOfLoc]
    rw [Bool.eq_iff_iff]
    simp [Src.Location.op_lt_Location_Location, Src.Location.Location.x, Src.Location.Location.y]
  · simp [Src.Location.op_eq_Location_Location, Src.Location.Location.x, Src.Location.Location.y, vecOfLoc]

/-- `outside_x_range(s1, s2)` -/
theorem src_tie_outside_x_range (s1 s2 : Src.NodeRefSegment.NodeRefSegment) :
    Src.NodeRefSegment.outside_x_range s1 s2 = (segOfSrc s1).outsideXRange (segOfSrc s2) := by
  dsimp only [Seg.outsideXRange, segOfSrc, vecOfLoc]
  rw [Bool.eq_iff_iff]
  simp [Src.NodeRefSegment.outside_x_range, Src.NodeRefSegment.NodeRefSegment.first,
    Src.NodeRefSegment.NodeRefSegment.second, Src.NodeRef.NodeRef.location, Src.Location.Location.x]

/-- `y_range_overlap(s1, s2)` (the two `std::minmax` pairs) -/
theorem src_tie_y_range_overlap (s1 s2 : Src.NodeRefSegment.NodeRefSegment) :
    Src.NodeRefSegment.y_range_overlap s1 s2 = (segOfSrc s1).yRangeOverlap (segOfSrc s2) := by
  dsimp only [Seg.yRangeOverlap, segOfSrc, vecOfLoc]
  rw [Bool.eq_iff_iff]
  simp [Src.NodeRefSegment.y_range_overlap, Src.NodeRefSegment.NodeRefSegment.first,
    Src.NodeRefSegment.NodeRefSegment.second, Src.NodeRef.NodeRef.location, Src.Location.Location.y] <;> omega

/-- `operator<(NodeRefSegment, NodeRefSegment)` = `Seg.lt` (for all coordinates: the model computes in `Int`) -/
theorem src_tie_segment_lt (l r : Src.NodeRefSegment.NodeRefSegment) :
    Src.NodeRefSegment.op_lt_NodeRefSegment_NodeRefSegment l r = (segOfSrc l).lt (segOfSrc r) := by
  dsimp only [Seg.lt, segOfSrc, vecOfLoc, Vec.sub, Vec.lt]
  dsimp only [Src.NodeRefSegment.op_lt_NodeRefSegment_NodeRefSegment, Src.Location.op_eq_Location_Location,
    Src.Location.op_lt_Location_Location, Src.NodeRefSegment.NodeRefSegment.first, Src.NodeRefSegment.NodeRefSegment.second,
    Src.NodeRef.NodeRef.location, Src.Location.Location.x, Src.Location.Location.y, Src.Vector.vec.ctor_Location,
    Src.Vector.op_sub_vec_vec, Src.Vector.vec.ctor_i64_i64]
  rw [Bool.eq_iff_iff]
  by_cases h1 : l.m_first.m_location.m_x = r.m_first.m_location.m_x <;>
  by_cases h2 : l.m_first.m_location.m_y = r.m_first.m_location.m_y <;>
  simp [h1, h2]
  all_goals ((repeat' split) <;> first | rfl | omega | (exfalso; omega))

/-- `calculate_intersection(s1, s2)`: the model's decision tree is the one assembled from the translated pieces —
    the conditions of its first five `if`s and the initialisers of `pd`, `d`, `na`, `nb` (the floating-point
    intersection point and the `std::sort` of the collinear case are outside the translated subset) -/
theorem src_tie_calculate_intersection (p0 p1 q0 q1 : Src.Vector.vec) :
    Seg.intersectCase ⟨vecOfSrc p0, vecOfSrc p1⟩ ⟨vecOfSrc q0, vecOfSrc q1⟩ =
      if Src.NodeRefSegment.calculate_intersection_cond_same p0 p1 q0 q1 then IsectCase.same
      else
        let pd := Src.NodeRefSegment.calculate_intersection_pd p0 p1
        let d := Src.NodeRefSegment.calculate_intersection_d q0 q1 pd
        if Src.NodeRefSegment.calculate_intersection_cond_not_collinear d then
          if Src.NodeRefSegment.calculate_intersection_cond_touch p0 p1 q0 q1 then IsectCase.endpointTouch
          else if Src.NodeRefSegment.calculate_intersection_cond_cross d
              (Src.NodeRefSegment.calculate_intersection_na p0 q0 q1)
              (Src.NodeRefSegment.calculate_intersection_nb p0 p1 q0) then IsectCase.cross
          else IsectCase.miss
        else if Src.NodeRefSegment.calculate_intersection_cond_same_line p0 q0 pd then
          collinearCase (vecOfSrc p0) (vecOfSrc p1) (vecOfSrc q0) (vecOfSrc q1)
        else IsectCase.parallel := by
  obtain ⟨a0, b0⟩ := p0; obtain ⟨a1, b1⟩ := p1; obtain ⟨c0, d0⟩ := q0; obtain ⟨c1, d1⟩ := q1
  dsimp only [Seg.intersectCase, vecOfSrc, Vec.sub, Vec.cross]
  dsimp only [Src.NodeRefSegment.calculate_intersection_cond_same, Src.NodeRefSegment.calculate_intersection_pd,
    Src.NodeRefSegment.calculate_intersection_d, Src.NodeRefSegment.calculate_intersection_cond_not_collinear,
    Src.NodeRefSegment.calculate_intersection_cond_touch, Src.NodeRefSegment.calculate_intersection_cond_cross,
    Src.NodeRefSegment.calculate_intersection_na, Src.NodeRefSegment.calculate_intersection_nb,
    Src.NodeRefSegment.calculate_intersection_cond_same_line, Src.Vector.op_eq_vec_vec, Src.Vector.op_sub_vec_vec,
    Src.Vector.op_mul_vec_vec, Src.Vector.vec.ctor_i64_i64]
  simp [CxxSem.eq, CxxSem.ne, CxxSem.lt, CxxSem.le, CxxSem.gt, CxxSem.ge]

/-- no int64 overflow in any translated piece of `calculate_intersection` for coordinates within ±2^29 -/
theorem src_defined_calculate_intersection (p0 p1 q0 q1 : Src.Vector.vec)
    (h0 : (vecOfSrc p0).inRange = true) (h1 : (vecOfSrc p1).inRange = true)
    (h2 : (vecOfSrc q0).inRange = true) (h3 : (vecOfSrc q1).inRange = true) :
    Src.NodeRefSegment.calculate_intersection_pd_defined p0 p1 = true ∧
    Src.NodeRefSegment.calculate_intersection_d_defined q0 q1 (Src.NodeRefSegment.calculate_intersection_pd p0 p1) = true ∧
    Src.NodeRefSegment.calculate_intersection_na_defined p0 q0 q1 = true ∧
    Src.NodeRefSegment.calculate_intersection_nb_defined p0 p1 q0 = true ∧
    Src.NodeRefSegment.calculate_intersection_cond_same_line_defined p0 q0 (Src.NodeRefSegment.calculate_intersection_pd p0 p1) = true := by
  have b0 := inRange_bounds _ h0
  have b1 := inRange_bounds _ h1
  have b2 := inRange_bounds _ h2
  have b3 := inRange_bounds _ h3
  obtain ⟨a0, b0'⟩ := p0; obtain ⟨a1, b1'⟩ := p1; obtain ⟨c0, d0⟩ := q0; obtain ⟨c1, d1⟩ := q1
  dsimp only [vecOfSrc] at b0 b1 b2 b3
  have m1 := mul_bound (a1 - a0) (d1 - d0) (by omega) (by omega)
  have m2 := mul_bound (b1' - b0') (c1 - c0) (by omega) (by omega)
  have m3 := mul_bound (c1 - c0) (b0' - d0) (by omega) (by omega)
  have m4 := mul_bound (d1 - d0) (a0 - c0) (by omega) (by omega)
  have m5 := mul_bound (a1 - a0) (b0' - d0) (by omega) (by omega)
  have m6 := mul_bound (b1' - b0') (a0 - c0) (by omega) (by omega)
  have m7 := mul_bound (a1 - a0) (d0 - b0') (by omega) (by omega)
  have m8 := mul_bound (b1' - b0') (c0 - a0) (by omega) (by omega)
  simp only [Src.NodeRefSegment.calculate_intersection_pd_defined, Src.NodeRefSegment.calculate_intersection_d_defined,
    Src.NodeRefSegment.calculate_intersection_na_defined, Src.NodeRefSegment.calculate_intersection_nb_defined,
    Src.NodeRefSegment.calculate_intersection_cond_same_line_defined, Src.NodeRefSegment.calculate_intersection_pd,
    Src.Vector.op_sub_vec_vec_defined, Src.Vector.op_mul_vec_vec_defined, Src.Vector.op_sub_vec_vec, Src.Vector.vec.ctor_i64_i64,
    Bool.and_eq_true, inS_iff]
  omega

/-- no int64 overflow in `operator<(NodeRefSegment, NodeRefSegment)` for coordinates within ±2^29 -/
theorem src_defined_segment_lt (l r : Src.NodeRefSegment.NodeRefSegment)
    (h0 : (segOfSrc l).first.inRange = true) (h1 : (segOfSrc l).second.inRange = true)
    (h2 : (segOfSrc r).first.inRange = true) (h3 : (segOfSrc r).second.inRange = true) :
    Src.NodeRefSegment.op_lt_NodeRefSegment_NodeRefSegment_defined l r = true := by
  have b0 := inRange_bounds _ h0
  have b1 := inRange_bounds _ h1
  have b2 := inRange_bounds _ h2
  have b3 := inRange_bounds _ h3
  dsimp only [segOfSrc, vecOfLoc] at b0 b1 b2 b3
  have m1 := mul_bound (l.m_second.m_location.m_y - l.m_first.m_location.m_y) (r.m_second.m_location.m_x - r.m_first.m_location.m_x)
    (by omega) (by omega)
  have m2 := mul_bound (r.m_second.m_location.m_y - r.m_first.m_location.m_y) (l.m_second.m_location.m_x - l.m_first.m_location.m_x)
    (by omega) (by omega)
  dsimp only [Src.NodeRefSegment.op_lt_NodeRefSegment_NodeRefSegment_defined, Src.NodeRefSegment.NodeRefSegment.first,
    Src.NodeRefSegment.NodeRefSegment.second, Src.NodeRef.NodeRef.location, Src.Vector.vec.ctor_Location, Src.Location.Location.x,
    Src.Location.Location.y, Src.Vector.op_sub_vec_vec_defined, Src.Vector.op_sub_vec_vec, Src.Vector.vec.ctor_i64_i64]
  have i1 : inS 64 (l.m_second.m_location.m_x - l.m_first.m_location.m_x) = true := inS_iff.mpr (by omega)
  have i2 : inS 64 (l.m_second.m_location.m_y - l.m_first.m_location.m_y) = true := inS_iff.mpr (by omega)
  have i3 : inS 64 (r.m_second.m_location.m_x - r.m_first.m_location.m_x) = true := inS_iff.mpr (by omega)
  have i4 : inS 64 (r.m_second.m_location.m_y - r.m_first.m_location.m_y) = true := inS_iff.mpr (by omega)
  have i5 : inS 64 ((l.m_second.m_location.m_y - l.m_first.m_location.m_y) *
      (r.m_second.m_location.m_x - r.m_first.m_location.m_x)) = true := inS_iff.mpr (by omega)
  have i6 : inS 64 ((r.m_second.m_location.m_y - r.m_first.m_location.m_y) *
      (l.m_second.m_location.m_x - l.m_first.m_location.m_x)) = true := inS_iff.mpr (by omega)
  simp [i1, i2, i3, i4, i5, i6]

example : (vecOfSrc ⟨536870912, -536870912⟩).inRange = true := by decide

end SrcTies

end Osmium.Area.C10
