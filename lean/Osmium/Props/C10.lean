/-
C10 — Assembled areas are valid multipolygons that cover exactly the input's region.

PARTIAL BY DESIGN (DESIGN.md §3 C10).  Proved here, for ALL inputs of the model
(lean/Osmium/Model/Area.lean, tied to the C++ by the correspondence check tools/props/c10.py):

  * the exact-integer geometric core: the decision of `calculate_intersection` is correct
    (`intersect_correct`, `intersect_symm`), no int64 intermediate can overflow for coordinates
    within ±2^29 (`no_overflow`);
  * `operator<` of segments is a strict weak order — indeed a strict total order up to `==` — on
    every segment the library creates (`seg_lt_strict_weak_order`, `seg_lt_total`), hence the sorted
    segment list is a function of the segment multiset (`sort_function_of_multiset`);
  * `erase_duplicate_segments` on the sorted list leaves exactly the segments of odd multiplicity,
    each once (`erase_duplicates_parity`): the even-odd rule;
  * the intersection sweep with its `break` finds an intersection iff some pair intersects and
    counts every intersecting pair exactly once (`sweep_complete`, `sweep_counts`), so the
    pre-check of `create_rings()` rejects exactly the inputs whose odd-multiplicity segments
    cross or overlap (`precheck_rejects_crossings`);
  * `find_split_locations()` finds an open ring iff some node has odd degree (`open_rings_rejected`);
    together: the pre-check lets an input through iff its odd-multiplicity segments are non-empty,
    non-crossing and of even degree everywhere (`precheck_accepts_iff`) — the REJECTION half of C10;
  * ring direction: `reverse()` negates the shoelace sum, `fix_direction()` makes outer rings
    counter-clockwise and inner rings clockwise (`shoelace_reverse`, `fix_direction_orients`);
  * the specification `Valid` and its even-odd target are functions of the segment multiset:
    invariant under member order, way reversal and re-cutting (`spec_permutation_invariant`,
    `segments_invariant_*`).

NOT PROVED (listed in tools/manifest.d/C10.json): that the ring-building search of
basic_assembler.hpp (`add_new_ring`, `add_new_ring_complex`, `find_candidates`,
`join_connected_rings`, `find_enclosing_ring`, `find_inner_outer_complex`) always finds a valid
arrangement when one exists, nests rings correctly and produces an area with `Valid = true`.
That part is validated on generated inputs: the executable `Valid` (this file's spec, run by
lean/Driver/C10.lean) and an independent oracle judge every area the real assembler produces.
-/
import Osmium.Lemmas.AreaGeom
import Osmium.Lemmas.AreaOrder
import Osmium.Lemmas.AreaList
import Osmium.Lemmas.AreaSplit

namespace Osmium.Area.C10

open Osmium.Area

/-! ### int64 arithmetic -/

/-- Every int64 intermediate of `calculate_intersection` (`d`, `na`, `nb`, the collinearity test),
    of `operator<` (products of coordinate differences), of `find_enclosing_ring`'s `z` (same
    shape as `d`) and of `det()` stays inside the int64 range when all coordinates are within
    ±2^29 — so the C++ arithmetic is the mathematical one the model uses. -/
theorem no_overflow (p0 p1 q0 q1 : Vec) (h0 : p0.inRange = true) (h1 : p1.inRange = true)
    (h2 : q0.inRange = true) (h3 : q1.inRange = true) :
    I64 ((p1.x - p0.x) * (q1.y - q0.y)) ∧ I64 ((p1.y - p0.y) * (q1.x - q0.x)) ∧
    I64 ((p1.sub p0).cross (q1.sub q0)) ∧
    I64 ((q1.x - q0.x) * (p0.y - q0.y)) ∧ I64 ((q1.y - q0.y) * (p0.x - q0.x)) ∧
    I64 ((q1.x - q0.x) * (p0.y - q0.y) - (q1.y - q0.y) * (p0.x - q0.x)) ∧
    I64 ((p1.x - p0.x) * (p0.y - q0.y)) ∧ I64 ((p1.y - p0.y) * (p0.x - q0.x)) ∧
    I64 ((p1.x - p0.x) * (p0.y - q0.y) - (p1.y - p0.y) * (p0.x - q0.x)) ∧
    I64 ((p1.sub p0).cross (q0.sub p0)) ∧ I64 (p0.cross p1) :=
  no_overflow_cross p0 p1 q0 q1 h0 h1 h2 h3

example : (⟨536870912, -536870912⟩ : Vec).inRange = true := by decide

/-! ### the intersection decision -/

/-- `calculate_intersection` returns a defined location exactly when the two closed segments
    share a point that is not merely a common end point (rational parameters, exact). -/
theorem intersect_correct (s t : Seg) (hs : s.wf = true) (ht : t.wf = true) (hne : s ≠ t) :
    s.intersect? t = true ↔ Meets s t :=
  Osmium.Area.intersect_correct s t hs ht hne

/-- identical segments are reported as not intersecting (they are removed before the sweep) -/
theorem intersect_self (s : Seg) : s.intersect? s = false := Osmium.Area.intersect_self s

/-- the decision does not depend on the order of the arguments -/
theorem intersect_symm (s t : Seg) (hs : s.wf = true) (ht : t.wf = true) :
    s.intersect? t = t.intersect? s :=
  Osmium.Area.intersect_symm s t hs ht

-- non-vacuity: a crossing, a T junction, an overlap, a touch, a miss
example : (Seg.ofEnds ⟨0, 0⟩ ⟨4, 4⟩).intersect? (Seg.ofEnds ⟨0, 4⟩ ⟨4, 0⟩) = true := by decide
example : (Seg.ofEnds ⟨0, 0⟩ ⟨4, 0⟩).intersect? (Seg.ofEnds ⟨2, 0⟩ ⟨2, 3⟩) = true := by decide
example : (Seg.ofEnds ⟨0, 0⟩ ⟨4, 4⟩).intersect? (Seg.ofEnds ⟨2, 2⟩ ⟨6, 6⟩) = true := by decide
example : (Seg.ofEnds ⟨0, 0⟩ ⟨2, 2⟩).intersect? (Seg.ofEnds ⟨2, 2⟩ ⟨4, 0⟩) = false := by decide
example : (Seg.ofEnds ⟨0, 0⟩ ⟨2, 2⟩).intersect? (Seg.ofEnds ⟨2, 2⟩ ⟨4, 4⟩) = false := by decide
example : (Seg.ofEnds ⟨0, 0⟩ ⟨1, 0⟩).intersect? (Seg.ofEnds ⟨0, 1⟩ ⟨1, 1⟩) = false := by decide
example : (Seg.ofEnds ⟨0, 0⟩ ⟨4, 4⟩).wf = true ∧ Seg.ofEnds ⟨0, 0⟩ ⟨4, 4⟩ ≠ Seg.ofEnds ⟨0, 4⟩ ⟨4, 0⟩ := by decide

/-! ### the segment order -/

/-- a strict weak ordering on the carrier `S` (what `std::sort` requires) -/
structure StrictWeakOn {α : Type} (S : α → Prop) (lt : α → α → Bool) : Prop where
  irrefl : ∀ a, S a → lt a a = false
  asymm : ∀ a b, S a → S b → lt a b = true → lt b a = false
  trans : ∀ a b c, S a → S b → S c → lt a b = true → lt b c = true → lt a c = true
  incomp_trans : ∀ a b c, S a → S b → S c →
    lt a b = false → lt b a = false → lt b c = false → lt c b = false →
    lt a c = false ∧ lt c a = false

/-- `operator<(NodeRefSegment, NodeRefSegment)` is a strict weak ordering on the segments the
    library creates (first end point strictly before the second, i.e. non-zero length) — on ALL of
    them, not only on those sharing their first point. -/
theorem seg_lt_strict_weak_order : StrictWeakOn (fun s : Seg => s.wf = true) Seg.lt where
  irrefl a _ := seg_lt_irrefl a
  asymm a b ha hb := seg_lt_asymm a b ha hb
  trans a b c ha hb hc := seg_lt_trans a b c ha hb hc
  incomp_trans a b c ha hb hc := seg_lt_incomp_trans a b c ha hb hc

/-- ... and it is total up to `==`: incomparable segments are equal. -/
theorem seg_lt_total (a b : Seg) (ha : a.wf = true) (hb : b.wf = true) :
    a.lt b = false → b.lt a = false → a = b :=
  Osmium.Area.seg_lt_total a b ha hb

/-- every segment made from two different locations is in the domain -/
theorem segments_are_wf (w : List Node) : ∀ s ∈ extractSegments w, s.wf = true :=
  extractSegments_wf w

/-- The sorted segment list is a function of the segment MULTISET: whatever order the members
    and their nodes arrive in, `sort()` produces the same list. -/
theorem sort_function_of_multiset (l l' : List Seg) (hwf : ∀ s ∈ l, s.wf = true) (hp : l.Perm l') :
    sortSegs l = sortSegs l' :=
  sortSegs_perm_invariant l l' hwf hp

theorem sort_sorted (l : List Seg) (hwf : ∀ s ∈ l, s.wf = true) :
    SortedSegs (sortSegs l) ∧ (sortSegs l).Perm l :=
  ⟨sortSegs_sorted l hwf, sortSegs_perm l⟩

/-! ### duplicate cancellation = even-odd rule -/

/-- `erase_duplicate_segments` applied to the sorted list leaves exactly the distinct segments
    of odd multiplicity: every segment occurs `count mod 2` times in the result. -/
theorem erase_duplicates_parity (l : List Seg) (hwf : ∀ s ∈ l, s.wf = true) (s : Seg) :
    (eraseDuplicates (sortSegs l)).count s = l.count s % 2 := by
  have hp := sortSegs_perm l
  have hwf' : ∀ x ∈ sortSegs l, x.wf = true := fun x hx => hwf x (hp.mem_iff.1 hx)
  rw [erase_parity_of_sorted (sortSegs l) (sortSegs_sorted l hwf)
    (fun a ha b hb h1 h2 => Osmium.Area.seg_lt_total a b (hwf' a ha) (hwf' b hb) h1 h2) s, hp.count_eq]

/-- ... in particular the result has no duplicates, -/
theorem erase_duplicates_nodup (l : List Seg) (hwf : ∀ s ∈ l, s.wf = true) :
    (eraseDuplicates (sortSegs l)).Nodup := by
  have hp := sortSegs_perm l
  have hwf' : ∀ x ∈ sortSegs l, x.wf = true := fun x hx => hwf x (hp.mem_iff.1 hx)
  exact erase_nodup_of_sorted (sortSegs l) (sortSegs_sorted l hwf)
    (fun a ha b hb h1 h2 => Osmium.Area.seg_lt_total a b (hwf' a ha) (hwf' b hb) h1 h2)

/-- ... its members are exactly the segments of odd multiplicity (the spec's `oddIn`), -/
theorem erase_duplicates_mem (l : List Seg) (hwf : ∀ s ∈ l, s.wf = true) (s : Seg) :
    s ∈ eraseDuplicates (sortSegs l) ↔ oddIn l s = true := by
  rw [← List.count_pos_iff, erase_duplicates_parity l hwf s]
  simp only [oddIn, beq_iff_eq]
  omega

/-- ... it is still sorted, and the parity statement also holds without any sortedness
    hypothesis (every round removes two copies of one segment). -/
theorem erase_duplicates_sorted (l : List Seg) (hwf : ∀ s ∈ l, s.wf = true) :
    SortedSegs (eraseDuplicates (sortSegs l)) :=
  List.Pairwise.sublist (eraseDuplicates_sublist _) (sortSegs_sorted l hwf)

theorem erase_duplicates_parity_any (l : List Seg) (s : Seg) :
    (eraseDuplicates l).count s % 2 = l.count s % 2 :=
  eraseDuplicates_count_mod2 l s

-- non-vacuity: three copies leave one, two copies leave none
example : eraseDuplicates (sortSegs [⟨⟨0, 0⟩, ⟨1, 0⟩⟩, ⟨⟨0, 0⟩, ⟨0, 1⟩⟩, ⟨⟨0, 0⟩, ⟨1, 0⟩⟩, ⟨⟨0, 0⟩, ⟨1, 0⟩⟩,
    ⟨⟨0, 0⟩, ⟨0, 1⟩⟩]) = [⟨⟨0, 0⟩, ⟨1, 0⟩⟩] := by decide

/-! ### the intersection sweep -/

/-- Soundness and completeness of `find_intersections` on the sorted list: the `break` at the
    first segment outside the x range and the y-range pre-test lose nothing — the sweep returns 0
    exactly when no two segments of the list intersect. -/
theorem sweep_complete (l : List Seg) (hwf : ∀ s ∈ l, s.wf = true) (hs : SortedSegs l) :
    findIntersections l = 0 ↔ l.Pairwise (fun a b => a.intersect? b = false) :=
  sweep_complete_of l hs (fun s hs' t ht h => intersect_ranges s t (hwf s hs') (hwf t ht) h)

/-- ... and it counts every intersecting pair exactly once. -/
theorem sweep_counts (l : List Seg) (hwf : ∀ s ∈ l, s.wf = true) (hs : SortedSegs l) :
    findIntersections l = countPairs l :=
  sweep_counts_of l hs (fun s hs' t ht h => intersect_ranges s t (hwf s hs') (hwf t ht) h)

/-- The pre-check of `create_rings()` (sort, erase duplicates, sweep) finds no intersection exactly
    when no two DIFFERENT segments of odd multiplicity share a point other than a common end
    point: inputs with crossing or overlapping segments are rejected, and only those. -/
theorem precheck_rejects_crossings (l : List Seg) (hwf : ∀ s ∈ l, s.wf = true) :
    findIntersections (eraseDuplicates (sortSegs l)) = 0 ↔
      ∀ s t, oddIn l s = true → oddIn l t = true → s ≠ t → ¬ Meets s t := by
  have hsub : ∀ x ∈ eraseDuplicates (sortSegs l), x.wf = true := fun x hx =>
    hwf x ((sortSegs_perm l).mem_iff.1 ((eraseDuplicates_sublist _).subset hx))
  rw [sweep_complete _ hsub (erase_duplicates_sorted l hwf)]
  have hnd := erase_duplicates_nodup l hwf
  constructor
  · intro hp s t hs ht hne hm
    have hs' := (erase_duplicates_mem l hwf s).2 hs
    have ht' := (erase_duplicates_mem l hwf t).2 ht
    have hi : s.intersect? t = true := (intersect_correct s t (hsub s hs') (hsub t ht') hne).2 hm
    -- one of the two orders occurs in the pairwise relation
    rcases List.mem_iff_getElem.1 hs' with ⟨i, hi', rfl⟩
    rcases List.mem_iff_getElem.1 ht' with ⟨j, hj', rfl⟩
    have hij : i ≠ j := fun e => hne (by subst e; rfl)
    rcases Nat.lt_or_gt_of_ne hij with h | h
    · have := List.pairwise_iff_getElem.1 hp i j hi' hj' h
      rw [this] at hi; exact absurd hi (by decide)
    · have := List.pairwise_iff_getElem.1 hp j i hj' hi' h
      rw [intersect_symm _ _ (hsub _ hs') (hsub _ ht')] at hi
      rw [this] at hi; exact absurd hi (by decide)
  · intro h
    rw [List.pairwise_iff_getElem]
    intro i j hi hj hij
    have hne : (eraseDuplicates (sortSegs l))[i] ≠ (eraseDuplicates (sortSegs l))[j] := by
      intro e
      have := (List.getElem_inj hnd).1 e
      omega
    have hmi := List.getElem_mem hi
    have hmj := List.getElem_mem hj
    cases hc : (eraseDuplicates (sortSegs l))[i].intersect? (eraseDuplicates (sortSegs l))[j] with
    | false => rfl
    | true =>
      exact absurd ((intersect_correct _ _ (hsub _ hmi) (hsub _ hmj) hne).1 hc)
        (h _ _ ((erase_duplicates_mem l hwf _).1 hmi) ((erase_duplicates_mem l hwf _).1 hmj) hne)

-- non-vacuity: a sorted list where the `break` fires, with and without an intersection
example : findIntersections (sortSegs [Seg.ofEnds ⟨0, 0⟩ ⟨4, 4⟩, Seg.ofEnds ⟨0, 4⟩ ⟨4, 0⟩, Seg.ofEnds ⟨5, 0⟩ ⟨6, 0⟩]) = 1 := by decide
example : findIntersections (sortSegs [Seg.ofEnds ⟨0, 0⟩ ⟨4, 0⟩, Seg.ofEnds ⟨0, 4⟩ ⟨4, 4⟩, Seg.ofEnds ⟨5, 0⟩ ⟨6, 0⟩]) = 0 := by decide

/-! ### open rings -/

/-- `find_split_locations()` reports no open ring exactly when every location is an end point of an
    even number of the remaining segments (every node has even degree); otherwise the input is
    rejected (and each odd location is reported with `report_ring_not_closed`). -/
theorem open_rings_rejected (segs : List Seg) :
    (openAndSplit segs).1 = 0 ↔ ∀ v, (endpoints segs).count v % 2 = 0 :=
  open_rings_zero_iff segs

/-- ... and when there is none, the number of touching points it reports (`touching_rings`, the
    bound of 100 in the property's quantifier) is the number of locations where more than two
    segment ends meet. -/
theorem touching_points_count (segs : List Seg) (h : (openAndSplit segs).1 = 0) :
    (openAndSplit segs).2 =
      ((endpoints segs).eraseDups.filter fun v => decide ((endpoints segs).count v ≥ 4)).length :=
  split_count segs h

example : openAndSplit [Seg.ofEnds ⟨0, 0⟩ ⟨1, 0⟩, Seg.ofEnds ⟨1, 0⟩ ⟨1, 1⟩] = (2, 0) := by decide

/-- THE REJECTION HALF OF C10, proved for the model: everything `create_rings()` does before
    building rings (sort, cancel duplicates, intersection sweep, open-ring scan) lets an input
    through exactly when (1) some segment has odd multiplicity, (2) no two different segments of
    odd multiplicity cross or overlap, and (3) every node has even degree in the list `E` of
    odd-multiplicity segments (`E = eraseDuplicates (sortSegs l)` contains each of them once:
    `erase_duplicates_mem`, `erase_duplicates_nodup`).  Inputs with crossing segments or open rings
    never reach ring building. -/
theorem precheck_accepts_iff (l : List Seg) (hwf : ∀ s ∈ l, s.wf = true) :
    ((preCheck l).remaining > 0 ∧ (preCheck l).intersections = 0 ∧ (preCheck l).openRings = 0) ↔
    ((∃ s, oddIn l s = true) ∧
     (∀ s t, oddIn l s = true → oddIn l t = true → s ≠ t → ¬ Meets s t) ∧
     (∀ v, (endpoints (eraseDuplicates (sortSegs l))).count v % 2 = 0)) := by
  have hmem := erase_duplicates_mem l hwf
  have hcross := precheck_rejects_crossings l hwf
  have hne : (eraseDuplicates (sortSegs l)).isEmpty = false ↔ ∃ s, oddIn l s = true := by
    constructor
    · intro h
      cases hl : eraseDuplicates (sortSegs l) with
      | nil => simp [hl] at h
      | cons a t => exact ⟨a, (hmem a).1 (by simp [hl])⟩
    · rintro ⟨s, hs⟩
      have := (hmem s).2 hs
      cases hl : eraseDuplicates (sortSegs l) with
      | nil => simp [hl] at this
      | cons a t => rfl
  rw [← hcross, ← open_rings_zero_iff, ← hne]
  have hE : ∀ x, (eraseDuplicatesFull x).1 = eraseDuplicates x := fun _ => rfl
  unfold preCheck
  simp only [hE]
  generalize eraseDuplicates (sortSegs l) = E
  cases hemp : E.isEmpty with
  | true => simp
  | false =>
    have hlen : E.length > 0 := by
      cases E with
      | nil => simp at hemp
      | cons a t => simp
    simp only [Bool.false_eq_true, if_false]
    by_cases hix : findIntersections E > 0
    · simp only [hix, if_true]
      constructor
      · rintro ⟨_, h, _⟩; omega
      · rintro ⟨_, h, _⟩; omega
    · simp only [hix, if_false]
      have h0 : findIntersections E = 0 := by omega
      constructor
      · rintro ⟨_, _, h⟩; exact ⟨trivial, h0, h⟩
      · rintro ⟨_, _, h⟩; exact ⟨hlen, h0, h⟩

-- non-vacuity: a square passes, a bow-tie without a node at the crossing and an open path do not
example : (preCheck (pointSegs [⟨0, 0⟩, ⟨4, 0⟩, ⟨4, 4⟩, ⟨0, 4⟩, ⟨0, 0⟩])).remaining = 4 ∧
    (preCheck (pointSegs [⟨0, 0⟩, ⟨4, 0⟩, ⟨4, 4⟩, ⟨0, 4⟩, ⟨0, 0⟩])).intersections = 0 ∧
    (preCheck (pointSegs [⟨0, 0⟩, ⟨4, 0⟩, ⟨4, 4⟩, ⟨0, 4⟩, ⟨0, 0⟩])).openRings = 0 := by decide
example : (preCheck (pointSegs [⟨0, 0⟩, ⟨4, 4⟩, ⟨4, 0⟩, ⟨0, 4⟩, ⟨0, 0⟩])).intersections = 1 := by decide
example : (preCheck (pointSegs [⟨0, 0⟩, ⟨4, 0⟩, ⟨4, 4⟩])).openRings = 2 := by decide

/-! ### ring direction -/

/-- `ProtoRing::reverse()` sets `m_sum = -m_sum`: that IS the shoelace sum of the reversed ring. -/
theorem shoelace_reverse (r : Ring) : (Ring.reverse r).sum = - r.sum := Osmium.Area.shoelace_reverse r

/-- the same for the point sequence the spec looks at -/
theorem shoelace_reverse_points (pts : List Vec) : shoelace pts.reverse = - shoelace pts :=
  Osmium.Area.shoelace_reverse_points pts

/-- the ring model (directed segments with reverse flags) and the point-sequence shoelace formula
    of the spec agree -/
theorem ring_sum_is_shoelace (pts : List Vec) : (ringOfPoints pts).sum = shoelace pts :=
  ringOfPoints_sum pts

/-- After `fix_direction()` an outer ring has positive shoelace sum (counter-clockwise) and an
    inner ring negative (clockwise) — fixed and opposite orientation — for every ring that
    encloses a non-zero area. -/
theorem fix_direction_orients (r : Ring) (h : r.sum ≠ 0) :
    (r.fixDirection true).sum > 0 ∧ (r.fixDirection false).sum < 0 :=
  Osmium.Area.fix_direction_orients r h

theorem fix_direction_idempotent (r : Ring) (o : Bool) (h : r.sum ≠ 0) :
    (r.fixDirection o).fixDirection o = r.fixDirection o :=
  Osmium.Area.fix_direction_idempotent r o h

example : (ringOfPoints [⟨0, 0⟩, ⟨0, 4⟩, ⟨4, 4⟩, ⟨4, 0⟩, ⟨0, 0⟩]).sum = -32 := by decide
example : ((ringOfPoints [⟨0, 0⟩, ⟨0, 4⟩, ⟨4, 4⟩, ⟨4, 0⟩, ⟨0, 0⟩]).fixDirection true).points =
    [⟨0, 0⟩, ⟨4, 0⟩, ⟨4, 4⟩, ⟨0, 4⟩, ⟨0, 0⟩] := by decide

/-! ### the specification depends on the segment multiset only -/

/-- member order: permuting the ways permutes the extracted segments -/
theorem segments_invariant_member_order (ws ws' : List (List Node)) (h : ws.Perm ws') :
    (allSegments ws).Perm (allSegments ws') := allSegments_perm ws ws' h

/-- way direction: reversing one way gives the same segment multiset -/
theorem segments_invariant_way_reversal (ws1 ws2 : List (List Node)) (w : List Node) :
    (allSegments (ws1 ++ w.reverse :: ws2)).Perm (allSegments (ws1 ++ w :: ws2)) :=
  allSegments_reverse_one ws1 ws2 w

/-- re-cutting: cutting one way in two at a node with a valid location (or joining two ways that
    share that node) gives the same segment multiset -/
theorem segments_invariant_recut (ws1 ws2 : List (List Node)) (u v : List Node) (n : Node)
    (hn : n.loc.valid = true) :
    (allSegments (ws1 ++ (u ++ [n]) :: (n :: v) :: ws2)).Perm (allSegments (ws1 ++ (u ++ n :: v) :: ws2)) :=
  allSegments_cut_one ws1 ws2 u v n hn

/-- `Valid` (every clause of it) and the even-odd target are invariant under every rearrangement
    of the input that preserves the segment multiset — in particular under member order, way
    reversal and re-cutting (the three lemmas above) — and so is everything the modelled part of
    the assembler computes before ring building (sorted list, cancelled list, intersections). -/
theorem spec_permutation_invariant (l l' : List Seg) (mp : MP) (h : l.Perm l')
    (hwf : ∀ s ∈ l, s.wf = true) :
    Valid l mp = Valid l' mp ∧ judge l mp = judge l' mp ∧ (∀ s, oddIn l s = oddIn l' s) ∧
    eraseDuplicates (sortSegs l) = eraseDuplicates (sortSegs l') ∧ preCheck l = preCheck l' := by
  have hs := sortSegs_perm_invariant l l' hwf h
  refine ⟨valid_perm l l' mp h, judge_perm l l' mp h, oddIn_perm l l' h, by rw [hs], ?_⟩
  simp only [preCheck, hs, h.length_eq]

/-- instance: all three rearrangements at the level of ways -/
theorem valid_invariant_ways (ws ws' : List (List Node)) (mp : MP) (h : ws.Perm ws') :
    Valid (allSegments ws) mp = Valid (allSegments ws') mp :=
  valid_perm _ _ mp (allSegments_perm ws ws' h)

theorem valid_invariant_reversal (ws1 ws2 : List (List Node)) (w : List Node) (mp : MP) :
    Valid (allSegments (ws1 ++ w.reverse :: ws2)) mp = Valid (allSegments (ws1 ++ w :: ws2)) mp :=
  valid_perm _ _ mp (allSegments_reverse_one ws1 ws2 w)

theorem valid_invariant_recut (ws1 ws2 : List (List Node)) (u v : List Node) (n : Node)
    (hn : n.loc.valid = true) (mp : MP) :
    Valid (allSegments (ws1 ++ (u ++ [n]) :: (n :: v) :: ws2)) mp =
      Valid (allSegments (ws1 ++ (u ++ n :: v) :: ws2)) mp :=
  valid_perm _ _ mp (allSegments_cut_one ws1 ws2 u v n hn)

/-! ### the specification is satisfiable and discriminating (non-vacuity) -/

/-- a square with a square hole, given as two ways, and the area the assembler makes of it -/
def exampleInput : List Seg :=
  allSegments [[⟨1, ⟨0, 0⟩⟩, ⟨2, ⟨10, 0⟩⟩, ⟨3, ⟨10, 10⟩⟩, ⟨4, ⟨0, 10⟩⟩, ⟨1, ⟨0, 0⟩⟩],
               [⟨5, ⟨2, 2⟩⟩, ⟨6, ⟨4, 2⟩⟩, ⟨7, ⟨4, 4⟩⟩, ⟨8, ⟨2, 4⟩⟩, ⟨5, ⟨2, 2⟩⟩]]

def exampleArea : MP :=
  [⟨[⟨0, 0⟩, ⟨10, 0⟩, ⟨10, 10⟩, ⟨0, 10⟩, ⟨0, 0⟩], [[⟨2, 2⟩, ⟨2, 4⟩, ⟨4, 4⟩, ⟨4, 2⟩, ⟨2, 2⟩]]⟩]

example : Valid exampleInput exampleArea = true := by decide
-- the hole as a second outer ring, a wrongly oriented ring, a missing hole: all rejected
example : Valid exampleInput [⟨[⟨0, 0⟩, ⟨10, 0⟩, ⟨10, 10⟩, ⟨0, 10⟩, ⟨0, 0⟩], []⟩,
    ⟨[⟨2, 2⟩, ⟨4, 2⟩, ⟨4, 4⟩, ⟨2, 4⟩, ⟨2, 2⟩], []⟩] = false := by decide
example : Valid exampleInput [⟨[⟨0, 0⟩, ⟨0, 10⟩, ⟨10, 10⟩, ⟨10, 0⟩, ⟨0, 0⟩],
    [[⟨2, 2⟩, ⟨2, 4⟩, ⟨4, 4⟩, ⟨4, 2⟩, ⟨2, 2⟩]]⟩] = false := by decide
example : Valid exampleInput [⟨[⟨0, 0⟩, ⟨10, 0⟩, ⟨10, 10⟩, ⟨0, 10⟩, ⟨0, 0⟩], []⟩] = false := by decide

/-! ### what the unproved part gets wrong today (finding recorded by the check)

corpus/C10/enclosing-tie.ops, first line: a pentagon with a triangular hole, and a square touching
the pentagon's bottom node straight below the hole's minimum node.  The real assembler attaches the
hole to the SQUARE (`find_enclosing_ring` computes the same height for the two segments starting in
the shared node).  The specification rejects that area and accepts the correct one. -/

def tieInput : List Seg :=
  allSegments [[⟨1, ⟨0, 0⟩⟩, ⟨2, ⟨3, 1⟩⟩, ⟨3, ⟨3, 5⟩⟩, ⟨4, ⟨-3, 5⟩⟩, ⟨5, ⟨-3, 1⟩⟩, ⟨1, ⟨0, 0⟩⟩],
               [⟨6, ⟨0, 2⟩⟩, ⟨7, ⟨2, 3⟩⟩, ⟨8, ⟨0, 3⟩⟩, ⟨6, ⟨0, 2⟩⟩],
               [⟨1, ⟨0, 0⟩⟩, ⟨9, ⟨3, 0⟩⟩, ⟨10, ⟨3, -3⟩⟩, ⟨11, ⟨0, -3⟩⟩, ⟨1, ⟨0, 0⟩⟩]]

/-- the area libosmium produces today -/
def tieProduced : MP :=
  [⟨[⟨0, 0⟩, ⟨3, 1⟩, ⟨3, 5⟩, ⟨-3, 5⟩, ⟨-3, 1⟩, ⟨0, 0⟩], []⟩,
   ⟨[⟨0, 0⟩, ⟨0, -3⟩, ⟨3, -3⟩, ⟨3, 0⟩, ⟨0, 0⟩], [[⟨0, 2⟩, ⟨0, 3⟩, ⟨2, 3⟩, ⟨0, 2⟩]]⟩]

/-- the area it should produce -/
def tieExpected : MP :=
  [⟨[⟨0, 0⟩, ⟨3, 1⟩, ⟨3, 5⟩, ⟨-3, 5⟩, ⟨-3, 1⟩, ⟨0, 0⟩], [[⟨0, 2⟩, ⟨0, 3⟩, ⟨2, 3⟩, ⟨0, 2⟩]]⟩,
   ⟨[⟨0, 0⟩, ⟨0, -3⟩, ⟨3, -3⟩, ⟨3, 0⟩, ⟨0, 0⟩], []⟩]

example : Valid tieInput tieProduced = false ∧ (judge tieInput tieProduced).innerInOuter = false := by decide
example : Valid tieInput tieExpected = true := by decide

end Osmium.Area.C10
