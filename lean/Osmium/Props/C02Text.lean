/-
C02, text formats — the readers decode what the format descriptions allow, whichever legal
encoding choice the producer made.

What is proved here (all about the models Osmium/Model/{OplFmt,XmlFmt}.lean, which are tied to the
real readers on every run):
* OPL: `opl_decode_spec` — the reader decodes `OplSpec.render ch objs` to the objects for EVERY
  choice vector `ch` (attribute permutations, separators, omitted defaults, the three escape styles,
  padded coordinates, LF / CR / CRLF endings, empty and comment lines, missing final ending), with the
  line-level `opl_decode_spec_line`; plus the value-independent facts for ALL lines: any non-empty
  run of spaces / tabs separates attributes like a single space, empty lines and comment lines
  decode to nothing, missing attributes decode to their defaults, the type filter drops exactly
  the filtered types.  (The decode theorem for the WRITER's choice vector and every metadata subset
  is `C01Text.opl_roundtrip` / `opl_file_roundtrip`.)
* XML: `xml_decode_spec` — tokenizer + reader decode `XmlSpec.render ch h objs` to header and objects
  for EVERY choice vector; split into the reader half `xml_decode_spec_events` (any parser that
  reports the XML 1.0 events of the document: attribute order, optional metadata, visible flags,
  child order, change sections, arbitrary white-space events) and the lexical half
  `xml_tokenize_spec` (quotes, escape styles, white space, empty-element form, declaration).  The
  two small facts about `<tag>` and change sections are kept as illustrations.
Changesets inside change files are outside the domain (the reader rejects them there).
-/
import Osmium.Props.C01Text
import Osmium.Model.XmlFmt
import Osmium.Lemmas.OplSpecLine5
import Osmium.Lemmas.XmlSpecRead6
import Osmium.Lemmas.XmlSpecTok4

namespace Osmium.C02Text
open Osmium.Osm Osmium.TextFmt Osmium.Conv Osmium.OplFmt

/-! ## OPL -/

/-- a non-empty run of spaces and tabs -/
def IsSepRun (sep : Bytes) : Prop := sep ≠ [] ∧ ∀ b ∈ sep, isSpTab b = true

theorem dropWhile_sepRun (sep : Bytes) (h : ∀ b ∈ sep, isSpTab b = true) (c : UInt8) (hc : isSpTab c = false) (s : Bytes) :
    (sep ++ c :: s).dropWhile isSpTab = c :: s := by
  induction sep with
  | nil => simp [List.dropWhile_cons, hc]
  | cons a sep ih =>
    have ha : isSpTab a = true := h a (by simp)
    simp only [List.cons_append, List.dropWhile_cons, ha, if_true]
    exact ih (fun b hb => h b (by simp [hb]))

/-- **Separators are a free choice**: in front of any attribute, any non-empty run of spaces and
    tabs is read exactly like a single space — for every attribute parser (nodes, ways, relations,
    changesets), every state and every rest of the line. -/
theorem opl_separator_irrelevant {σ : Type} (field : σ → UInt8 → Bytes → Except PErr (σ × Bytes)) (f : Nat) (st : σ)
    (sep : Bytes) (hsep : IsSepRun sep) (c : UInt8) (hc : isSpTab c = false) (s : Bytes) :
    attrLoop field (f + 1) st (sep ++ c :: s) = attrLoop field (f + 1) st (0x20 :: c :: s) := by
  obtain ⟨hne, hall⟩ := hsep
  have h1 : pSpace (sep ++ c :: s) = .ok (c :: s) := by
    cases sep with
    | nil => exact absurd rfl hne
    | cons a sep =>
      have ha : isSpTab a = true := hall a (by simp)
      have := dropWhile_sepRun (a :: sep) hall c hc s
      simp only [pSpace, List.cons_append, peek, ha, if_true] at this ⊢
      rw [this]
  have h2 : pSpace (0x20 :: c :: s) = .ok (c :: s) := by
    have := dropWhile_sepRun [0x20] (by intro b hb; simp at hb; subst hb; decide) c hc s
    simp only [pSpace, peek, show isSpTab 0x20 = true by decide, if_true]
    simpa using this
  have e1 : (sep ++ c :: s).isEmpty = false := by cases sep <;> simp
  rw [attrLoop, attrLoop]
  simp only [e1, List.isEmpty_cons, Bool.false_eq_true, if_false, h1, h2]

example : IsSepRun [0x20, 0x09, 0x20] := ⟨by simp, by decide⟩

/-- **Empty lines and comment lines** decode to nothing, whatever the comment says. -/
theorem opl_junk_lines_ignored (types : Types) (s : Bytes) :
    parseLine types [] = .ok none ∧ parseLine types (0x23 :: s) = .ok none := by
  simp [parseLine]

/-- … and do not disturb the lines around them. -/
theorem opl_junk_lines_skipped (types : Types) (c : Bytes) (ls : List Bytes) :
    parseLines types ([] :: ls) = parseLines types ls ∧ parseLines types ((0x23 :: c) :: ls) = parseLines types ls := by
  constructor <;>
  · simp only [parseLines, (opl_junk_lines_ignored types c).1, (opl_junk_lines_ignored types c).2, bindE_ok]
    cases parseLines types ls <;> rfl

/-- **Optional attributes**: a line that consists of the type letter and the id alone is a
    complete object with every attribute at its default (version 0, visible, no timestamp,
    changeset 0, uid 0, empty user, no tags, undefined location / no nodes / no members). -/
theorem opl_missing_attributes_default (id : Int) (h0 : int64Min < id) (h1 : id ≤ int64Max) :
    ∃ idb, wInt id = .ok idb ∧
      parseLine {} (0x6e :: idb) = .ok (some (.node { id := id } Location.undefined)) ∧
      parseLine {} (0x77 :: idb) = .ok (some (.way { id := id } [])) ∧
      parseLine {} (0x72 :: idb) = .ok (some (.relation { id := id } [])) := by
  obtain ⟨idb, hid, _, _, hp⟩ := wInt_pId id h0 h1
  have hp' : pId idb = .ok (id, []) := by simpa using hp [] rfl
  refine ⟨idb, hid, ?_, ?_, ?_⟩
  · rw [parseLine_node, pObject, hp']
    simp [attrLoop, loopFuel, setUserCheck, maxString, finishTags, metaOf]
    decide
  · rw [parseLine_way, pObject, hp']
    simp [attrLoop, loopFuel, setUserCheck, maxString, finishTags, metaOf]
  · rw [parseLine_relation, pObject, hp']
    simp [attrLoop, loopFuel, setUserCheck, maxString, finishTags, metaOf]

/-- **Entity-type filter**: a filtered type is skipped without being parsed; the other types are
    read exactly as without a filter. -/
theorem opl_type_filter (s : Bytes) :
    parseLine { node := false } (0x6e :: s) = .ok none ∧
    parseLine { way := false } (0x77 :: s) = .ok none ∧
    parseLine { relation := false } (0x72 :: s) = .ok none ∧
    parseLine { changeset := false } (0x63 :: s) = .ok none ∧
    parseLine { node := false } (0x77 :: s) = parseLine {} (0x77 :: s) := by
  simp [parseLine]

theorem InDomain.specOk {obj : Object} (h : C01Text.InDomain obj) : SpecObjOK obj := by
  cases obj with
  | node m l => exact ⟨h.1.ok, h.2⟩
  | way m ns => exact ⟨h.1.ok, fun n hn => h.2 n hn⟩
  | relation m ms => exact ⟨h.1.ok, fun x hx => h.2 x hx⟩
  | changeset id ca cl nc ncm uid user bl tr tags cs =>
    obtain ⟨h1, h2, h3, h4, h5, h6, h7, h8, h9, h10, h11⟩ := h
    exact ⟨by omega, h2, h3, by omega, by omega, h6, h7, h8, h9, h10, fun t ht => h11 t ht⟩

/-- what the reader returns for a spec-rendered object: everything (the specification renderer
    writes every attribute, or omits it exactly when it has its default value) except the changeset
    discussion, which OPL cannot carry -/
abbrev specProject : Object → Object := project { locationsOnWays := true }

/-- **OPL decode, one line, the full choice space.**  For every object of the domain and EVERY
    choice vector of the specification renderer `OplSpec.renderLine` — the attributes in any order
    (`order`, a selection permutation), each preceded by a space, a tab, two spaces or space + tab
    (`seps`), attributes with default values written or omitted (`omitDefaults`), strings escaped as
    the writer does or with EVERY character as `%hex%` in lower case with minimal digits or in upper
    case padded to six digits (`escapeMode`), coordinates with trailing zeros up to seven decimals
    (`padCoords`) — `opl_parse_line` returns exactly the object (without the discussion of a
    changeset).  The rendered line contains no LF / CR / NUL. -/
theorem opl_decode_spec_line (ch : OplSpec.Choices) (obj : Object) (h : C01Text.InDomain obj) :
    parseLine {} (OplSpec.renderLine ch obj) = .ok (some (specProject obj)) ∧
      ∀ b ∈ OplSpec.renderLine ch obj, b ≠ 0x0a ∧ b ≠ 0x0d ∧ b ≠ 0 :=
  ⟨(renderLine_parse ch obj (InDomain.specOk h)).1, (renderLine_parse ch obj (InDomain.specOk h)).2.1⟩

/-- **OPL decode, whole files, the full choice space** (`opl_decode_spec`).  For every list of
    objects of the domain and EVERY choice vector of `OplSpec.render`: besides the per-line choices
    of `opl_decode_spec_line`, each line ends with LF, CR or CRLF (`endings`), is preceded by
    nothing, an empty line, a comment line or both (`junk`), and the last line may lack its ending
    (`noFinalEnding`) — the reader (`OPLParser::run`: `Chunks.specLines`, C-string cut, then
    `opl_parse_line` per line) returns exactly the objects, in order. -/
theorem opl_decode_spec (ch : OplSpec.Choices) (objs : List Object) (h : ∀ obj ∈ objs, C01Text.InDomain obj) :
    parseFile {} (OplSpec.render ch objs) = .ok (objs.map specProject) :=
  opl_render_file ch objs specProject fun obj ho => renderLine_parse ch obj (InDomain.specOk (h obj ho))

/-- the producer's choices are invisible to the reader -/
theorem opl_choices_irrelevant (ch₁ ch₂ : OplSpec.Choices) (objs : List Object) (h : ∀ obj ∈ objs, C01Text.InDomain obj) :
    parseFile {} (OplSpec.render ch₁ objs) = parseFile {} (OplSpec.render ch₂ objs) := by
  rw [opl_decode_spec ch₁ objs h, opl_decode_spec ch₂ objs h]

/-- non-vacuity / sample point: a choice vector far from the writer's (reversed-ish attribute order,
    tabs, omitted defaults, upper-case padded escapes, padded coordinates, CR and CRLF endings, junk
    lines, no final ending) on the four-object sample of `C01Text` -/
example : (fun ch : OplSpec.Choices => ch.escapeMode = 2 ∧ ch.padCoords = true ∧ ch.noFinalEnding = true)
    { order := [6, 5, 4, 3, 2, 1, 0, 1], seps := [1, 3, 2], omitDefaults := true, escapeMode := 2, padCoords := true,
      endings := [1, 2, 0], junk := [3, 2, 1], noFinalEnding := true } := by decide

/-! ## XML -/

open Osmium.XmlFmt Osmium.XmlFmt.XmlSpec in
/-- **XML decode, reader half, the full choice space.**  Let a parser report, for the document
    `XmlSpec.render ch h objs`, the events XML 1.0 prescribes (`renderEvs`: start tags with the
    attribute values DECODED, in the order the producer chose; end tags; `<a/>` = `<a></a>`; white
    space between elements as character data, split and normalised in any way — `wsE` is arbitrary;
    the text of a comment as character data).  Then for every header and all objects of the XML
    domain (changesets with discussions included, outside change files) and EVERY choice vector —
    attributes of every element in any order (`attrOrder`), metadata attributes with default values
    written or omitted (`omitDefaults`), explicit `visible` attributes or none (`visibleAttr`), tags
    before or after `<nd>` / `<member>` children (`tagsFirst`), plain file or change file with as
    many `<create>/<modify>/<delete>` sections as needed (`osc`) — the reader returns the header
    and exactly the objects (`project (specOpts ch)`: what the file carries). -/
theorem xml_decode_spec_events (expat : Bytes → Option (List Ev)) (ch : Choices) (h : Header) (objs : List Object)
    (hh : C01Text.XHeaderDom h) (hall : ∀ obj ∈ objs, C01Text.XmlInDomainAll obj)
    (hosc : ch.osc = true → ∀ obj ∈ objs, C01Text.XmlInDomain obj)
    (hc : ∃ wsE, WsOnly wsE ∧ expat (render ch h objs) = some (renderEvs ch wsE h objs)) :
    readFile expat {} (render ch h objs) =
      .ok (projectHeader (specOpts ch) h, objs.map (XmlFmt.project (specOpts ch))) := by
  obtain ⟨wsE, hws, he⟩ := hc
  have hcs : ch.osc = true → ∀ obj ∈ objs, isChangeset obj = false := by
    intro ho obj hob
    have := hosc ho obj hob
    cases obj <;> first | rfl | exact absurd this (by simp [C01Text.XmlInDomain])
  simp only [readFile, he]
  exact renderEvs_read ch wsE hws h objs ⟨hh.1, fun b hb => hh.2 b hb⟩ (fun obj ho => (hall obj ho).ok) hcs

open Osmium.XmlFmt Osmium.XmlFmt.XmlSpec in
/-- **XML decode, lexical half**: the model's XML tokenizer (the stand-in for expat on
    spec-rendered documents, compared with the real reader on every run) reports exactly these
    events for EVERY choice vector: either quote per attribute (`quotes`), the four escape styles —
    the writer's entities, the minimal set XML demands, decimal or upper-case hexadecimal character
    references for everything but [A-Za-z0-9] (`escMode`) —, LF + spaces / nothing / CRLF + tabs
    between elements (`wsMode`), `<a/>` or `<a></a>` (`expandEmpty`), ` = ` or `=` (`eqSpaces`), the
    XML declaration in either quote style or absent (`declMode`). -/
theorem xml_tokenize_spec (ch : Choices) (h : Header) (objs : List Object) (hh : C01Text.XHeaderDom h)
    (hall : ∀ obj ∈ objs, C01Text.XmlInDomainAll obj) :
    tokenize (render ch h objs) = some (renderEvs ch (wsOf ch) h objs) ∧ WsOnly (wsOf ch) := by
  refine ⟨tokenize_render ch h objs ⟨hh.1, fun b hb => hh.2 b hb⟩ (fun obj ho => (hall obj ho).ok), ?_⟩
  intro n e he
  unfold wsOf at he
  split at he
  · simp at he; exact ⟨_, he⟩
  · split at he
    · simp at he
    · simp at he; exact ⟨_, he⟩

open Osmium.XmlFmt Osmium.XmlFmt.XmlSpec in
/-- **XML decode, the full choice space of `XmlSpec.render`** (`xml_decode_spec`): attribute order,
    quote style, entity vs character reference, white space, empty-element form, declaration,
    optional metadata, explicit visible flags, child order, change sections — whichever legal
    choice the producer made, tokenizer + reader return the header and exactly the objects. -/
theorem xml_decode_spec (ch : Choices) (h : Header) (objs : List Object) (hh : C01Text.XHeaderDom h)
    (hall : ∀ obj ∈ objs, C01Text.XmlInDomainAll obj) (hosc : ch.osc = true → ∀ obj ∈ objs, C01Text.XmlInDomain obj) :
    readFile tokenize {} (render ch h objs) =
      .ok (projectHeader (specOpts ch) h, objs.map (XmlFmt.project (specOpts ch))) :=
  xml_decode_spec_events tokenize ch h objs hh hall hosc
    ⟨wsOf ch, (xml_tokenize_spec ch h objs hh hall).2, (xml_tokenize_spec ch h objs hh hall).1⟩

open Osmium.XmlFmt Osmium.XmlFmt.XmlSpec in
/-- the purely lexical choices are invisible to the reader; the others only through `specOpts`
    (change file or not, explicit visible flags or not) -/
theorem xml_choices_irrelevant (ch₁ ch₂ : Choices) (h : Header) (objs : List Object) (hh : C01Text.XHeaderDom h)
    (hall : ∀ obj ∈ objs, C01Text.XmlInDomainAll obj) (hosc : ch₁.osc = true → ∀ obj ∈ objs, C01Text.XmlInDomain obj)
    (h1 : ch₁.osc = ch₂.osc) (h2 : ch₁.visibleAttr = ch₂.visibleAttr) :
    readFile tokenize {} (render ch₁ h objs) = readFile tokenize {} (render ch₂ h objs) := by
  rw [xml_decode_spec ch₁ h objs hh hall hosc, xml_decode_spec ch₂ h objs hh hall (by rw [← h1]; exact hosc)]
  simp [specOpts, h1, h2]

open Osmium.XmlFmt in
/-- **Attribute order of `<tag>`** is irrelevant, and unknown attributes are ignored (an
    illustration; the general statement for every element is `xml_decode_spec_events`). -/
theorem xml_tag_attr_order_irrelevant (c : Cur) (k v x : Bytes) :
    getTag c [("k", k), ("v", v)] = getTag c [("v", v), ("k", k)] ∧
    getTag c [("k", k), ("foo", x), ("v", v)] = getTag c [("k", k), ("v", v)] := by
  simp [getTag, lastAttr]

open Osmium.XmlFmt in
/-- **Change sections**: the writer puts an object into `<delete>` iff it is not visible, and an
    object read inside `<delete>` (and only there) is not visible — for objects that carry no
    explicit `visible` attribute (the writer never writes one into a change file). -/
theorem xml_change_section_visible (m : Meta) (inDelete : Bool) :
    (opOf m = 3 ↔ m.visible = false) ∧
    initObject (.way emptyMeta []) inDelete [] = .ok (.way { emptyMeta with visible := !inDelete } []) ∧
    initObject (.node emptyMeta Location.undefined) inDelete [] =
      .ok (.node { emptyMeta with visible := !inDelete } Location.undefined) := by
  refine ⟨?_, ?_, ?_⟩
  · unfold opOf; cases m.visible <;> simp <;> split <;> simp
  · cases inDelete <;> simp [initObject, initObjectAttrs, mapMeta, emptyMeta]
  · cases inDelete <;> simp [initObject, initObjectAttrs, mapMeta, emptyMeta, bothDefined, Location.undefined]

end Osmium.C02Text
