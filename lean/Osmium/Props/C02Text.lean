/-
C02, text formats — the readers decode what the format descriptions allow, whichever legal
encoding choice the producer made.

What is proved here (all about the models Osmium/Model/{OplFmt,XmlFmt}.lean, which are tied to the
real readers on every run):
* OPL: the full decode theorem for the WRITER's choice vector and every metadata subset is
  `C01Text.opl_roundtrip`; here the free choices of the specification renderer `OplSpec.render`
  that are independent of the attribute values are discharged for ALL lines: any non-empty run of
  spaces / tabs separates attributes like a single space, empty lines and comment lines decode to
  nothing, missing attributes decode to their defaults, the type filter drops exactly the
  filtered types.
* XML: order irrelevance of the two attributes of `<tag>`; the visible flag of an object is
  decided by the change section it stands in.
NOT proved (named `_partial` where a partial statement exists; covered only by the differential
check of tools/props/c02_text.py, which decodes spec-rendered files for random choice vectors with
the real readers and the model readers): `opl_decode_spec` for arbitrary attribute permutations /
escape styles / padded coordinates / CR and CRLF endings, `xml_decode_spec` (all of it), general
attribute-order irrelevance for `init_object`.
-/
import Osmium.Props.C01Text
import Osmium.Model.XmlFmt

namespace Osmium.C02Text
open Osmium.Osm Osmium.TextFmt Osmium.Conv Osmium.OplFmt

/-! ## OPL -/

/-- a non-empty run of spaces and tabs -/
def IsSepRun (sep : Bytes) : Prop := sep ≠ [] ∧ ∀ b ∈ sep, isSpTab b = true

theorem dropWhile_sepRun (sep : Bytes) (h : ∀ b ∈ sep, isSpTab b = true) (c : UInt8) (hc : isSpTab c = false) (s : Bytes) :
    (sep ++ c :: s).dropWhile isSpTab = c :: s := by
  induction sep with
  | nil => simp [List.dropWhile_cons, hc]
  | cons a sep ih =>
    have ha : isSpTab a = true := h a (by simp)
    simp only [List.cons_append, List.dropWhile_cons, ha, if_true]
    exact ih (fun b hb => h b (by simp [hb]))

/-- **Separators are a free choice**: in front of any attribute, any non-empty run of spaces and
    tabs is read exactly like a single space — for every attribute parser (nodes, ways, relations,
    changesets), every state and every rest of the line. -/
theorem opl_separator_irrelevant {σ : Type} (field : σ → UInt8 → Bytes → Except PErr (σ × Bytes)) (f : Nat) (st : σ)
    (sep : Bytes) (hsep : IsSepRun sep) (c : UInt8) (hc : isSpTab c = false) (s : Bytes) :
    attrLoop field (f + 1) st (sep ++ c :: s) = attrLoop field (f + 1) st (0x20 :: c :: s) := by
  obtain ⟨hne, hall⟩ := hsep
  have h1 : pSpace (sep ++ c :: s) = .ok (c :: s) := by
    cases sep with
    | nil => exact absurd rfl hne
    | cons a sep =>
      have ha : isSpTab a = true := hall a (by simp)
      have := dropWhile_sepRun (a :: sep) hall c hc s
      simp only [pSpace, List.cons_append, peek, ha, if_true] at this ⊢
      rw [this]
  have h2 : pSpace (0x20 :: c :: s) = .ok (c :: s) := by
    have := dropWhile_sepRun [0x20] (by intro b hb; simp at hb; subst hb; decide) c hc s
    simp only [pSpace, peek, show isSpTab 0x20 = true by decide, if_true]
    simpa using this
  have e1 : (sep ++ c :: s).isEmpty = false := by cases sep <;> simp
  rw [attrLoop, attrLoop]
  simp only [e1, List.isEmpty_cons, Bool.false_eq_true, if_false, h1, h2]

example : IsSepRun [0x20, 0x09, 0x20] := ⟨by simp, by decide⟩

/-- **Empty lines and comment lines** decode to nothing, whatever the comment says. -/
theorem opl_junk_lines_ignored (types : Types) (s : Bytes) :
    parseLine types [] = .ok none ∧ parseLine types (0x23 :: s) = .ok none := by
  simp [parseLine]

/-- … and do not disturb the lines around them. -/
theorem opl_junk_lines_skipped (types : Types) (c : Bytes) (ls : List Bytes) :
    parseLines types ([] :: ls) = parseLines types ls ∧ parseLines types ((0x23 :: c) :: ls) = parseLines types ls := by
  constructor <;>
  · simp only [parseLines, (opl_junk_lines_ignored types c).1, (opl_junk_lines_ignored types c).2, bindE_ok]
    cases parseLines types ls <;> rfl

/-- **Optional attributes**: a line that consists of the type letter and the id alone is a
    complete object with every attribute at its default (version 0, visible, no timestamp,
    changeset 0, uid 0, empty user, no tags, undefined location / no nodes / no members). -/
theorem opl_missing_attributes_default (id : Int) (h0 : int64Min < id) (h1 : id ≤ int64Max) :
    ∃ idb, wInt id = .ok idb ∧
      parseLine {} (0x6e :: idb) = .ok (some (.node { id := id } Location.undefined)) ∧
      parseLine {} (0x77 :: idb) = .ok (some (.way { id := id } [])) ∧
      parseLine {} (0x72 :: idb) = .ok (some (.relation { id := id } [])) := by
  obtain ⟨idb, hid, _, _, hp⟩ := wInt_pId id h0 h1
  have hp' : pId idb = .ok (id, []) := by simpa using hp [] rfl
  refine ⟨idb, hid, ?_, ?_, ?_⟩
  · rw [parseLine_node, pObject, hp']
    simp [attrLoop, loopFuel, finishTags, metaOf]
    decide
  · rw [parseLine_way, pObject, hp']
    simp [attrLoop, loopFuel, finishTags, metaOf]
  · rw [parseLine_relation, pObject, hp']
    simp [attrLoop, loopFuel, finishTags, metaOf]

/-- **Entity-type filter**: a filtered type is skipped without being parsed; the other types are
    read exactly as without a filter. -/
theorem opl_type_filter (s : Bytes) :
    parseLine { node := false } (0x6e :: s) = .ok none ∧
    parseLine { way := false } (0x77 :: s) = .ok none ∧
    parseLine { relation := false } (0x72 :: s) = .ok none ∧
    parseLine { changeset := false } (0x63 :: s) = .ok none ∧
    parseLine { node := false } (0x77 :: s) = parseLine {} (0x77 :: s) := by
  simp [parseLine]

/-- the decode theorem for the writer's own point of the choice space (every metadata subset,
    locations on ways on or off) — `C01Text.opl_roundtrip` — restated for C02.
    MISSING for the full `opl_decode_spec`: attribute permutations, the two "escape everything"
    styles, padded coordinates, CR / CRLF endings (only sampled by the differential check). -/
theorem opl_decode_spec_partial (md : MetaOpts) (low : Bool) (obj : Object) (h : C01Text.InDomain obj) :
    ∃ line, writeObject { md := md, locationsOnWays := low } obj = .ok (line ++ [0x0a]) ∧
      parseLine {} line = .ok (some (project { md := md, locationsOnWays := low } obj)) :=
  C01Text.opl_roundtrip _ obj h

/-! ## XML -/

open Osmium.XmlFmt in
/-- **Attribute order of `<tag>`** is irrelevant (and unknown attributes are ignored). -/
theorem xml_tag_attr_order_irrelevant_partial (c : Cur) (k v x : Bytes) :
    getTag c [("k", k), ("v", v)] = getTag c [("v", v), ("k", k)] ∧
    getTag c [("k", k), ("foo", x), ("v", v)] = getTag c [("k", k), ("v", v)] := by
  simp [getTag, lastAttr]

open Osmium.XmlFmt in
/-- **Change sections**: the writer puts an object into `<delete>` iff it is not visible, and an
    object read inside `<delete>` (and only there) is not visible — for objects that carry no
    explicit `visible` attribute (the writer never writes one into a change file). -/
theorem xml_change_section_visible_partial (m : Meta) (inDelete : Bool) :
    (opOf m = 3 ↔ m.visible = false) ∧
    initObject (.way emptyMeta []) inDelete [] = .ok (.way { emptyMeta with visible := !inDelete } []) ∧
    initObject (.node emptyMeta Location.undefined) inDelete [] =
      .ok (.node { emptyMeta with visible := !inDelete } Location.undefined) := by
  refine ⟨?_, ?_, ?_⟩
  · unfold opOf; cases m.visible <;> simp <;> split <;> simp
  · cases inDelete <;> simp [initObject, initObjectAttrs, mapMeta, emptyMeta]
  · cases inDelete <;> simp [initObject, initObjectAttrs, mapMeta, emptyMeta, bothDefined, Location.undefined]

end Osmium.C02Text
