/-
C01, text formats — what the OPL / XML writers write, the OPL / XML readers read back.

Property theorems only (models: Osmium/Model/{OplFmt,XmlFmt}.lean; helper lemmas:
Osmium/Lemmas/{OplFmt,OplFmtObj,OplFmtCs,OplSpecFile,OplSpecFile2,XmlFmt,XmlFmtObj,XmlFmtRun,XmlFmtRt,XmlFmtFile,
XmlFmtCsDefs,XmlFmtCs,XmlFmtCs2,XmlFmtCs3,XmlFmtCs4,XmlFmtCsFile}.lean).  The
string and number fields are discharged by the round-trip theorems of C14 (`opl_roundtrip`,
`xml_roundtrip_partial`) and C13 (`coord_roundtrip`, `output_int_roundtrip`, `ts_roundtrip`,
`object_id_strict`, `ulong_strict`).

`project opts o` is the object with every field the option vector drops reset to its default.

Proved: `opl_roundtrip` (all four object kinds, all option vectors), `opl_file_roundtrip` (whole
files through `Chunks.specLines`), `xml_roundtrip` (nodes, ways, relations, all option vectors, every
position the writer puts them in), `xml_roundtrip_changeset` (changesets with discussions, anonymous
ones included), `xml_file_roundtrip` / `xml_file_roundtrip_expat` (header with generator and boxes +
change sections + object sequence of one buffer, changesets included outside change files),
`xml_file_roundtrip_multi_buffer(_expat)` (any number of buffers), `xml_header_roundtrip`,
`change_file_roundtrip`.
Outside the domain (and said so where it matters): changesets inside change files
(`xml_change_format`): the reader rejects `<changeset>` inside `<create>/<modify>/<delete>` and the
writer puts a changeset into whatever section happens to be open.
-/
import Osmium.Lemmas.OplFmtCs
import Osmium.Lemmas.OplSpecFile2
import Osmium.Lemmas.XmlFmtCsFile
import Osmium.Generated.Consts
import Osmium.Lemmas.SrcTie

namespace Osmium.C01Text
open Osmium.Osm Osmium.TextFmt Osmium.Conv

/-! ## the value domain of the property (decidable) -/

/-- strings = valid UTF-8 (scalar values) without NUL of at most 1024 bytes -/
def StrDom (bs : Bytes) : Prop := OplFmt.strOK 0x110000 bs = true

/-- locations undefined or valid -/
def LocDom (l : Location) : Prop := l = Location.undefined ∨ valid l = true

def TagsDom (ts : List Tag) : Prop := ∀ t ∈ ts, StrDom t.key ∧ StrDom t.value

/-- ids in (−2^63, 2^63), version and uid < 2^31, any uint32 timestamp / changeset -/
def MetaDom (m : Meta) : Prop :=
  int64Min < m.id ∧ m.id ≤ int64Max ∧ m.version < 2147483648 ∧ m.timestamp < 4294967296 ∧
  m.changeset < 4294967296 ∧ m.uid < 2147483648 ∧ StrDom m.user ∧ TagsDom m.tags

def InDomain : Object → Prop
  | .node m l => MetaDom m ∧ LocDom l
  | .way m ns => MetaDom m ∧ ∀ n ∈ ns, int64Min < n.ref ∧ n.ref ≤ int64Max ∧ LocDom n.location
  | .relation m ms => MetaDom m ∧ ∀ x ∈ ms, (x.type = 1 ∨ x.type = 2 ∨ x.type = 3) ∧ int64Min < x.ref ∧ x.ref ≤ int64Max ∧ StrDom x.role
  | .changeset id ca cl nc ncm uid user bl tr tags _ =>
    id < 4294967296 ∧ ca < 4294967296 ∧ cl < 4294967296 ∧ nc < 4294967296 ∧ ncm < 4294967296 ∧ 0 ≤ uid ∧ uid < 2147483648 ∧
    StrDom user ∧ LocDom bl ∧ LocDom tr ∧ TagsDom tags

instance : DecidablePred InDomain := fun o => by
  cases o <;> unfold InDomain MetaDom TagsDom LocDom StrDom <;> exact inferInstance

theorem MetaDom.ok {m : Meta} (h : MetaDom m) : OplFmt.MetaOK m := by
  obtain ⟨h1, h2, h3, h4, h5, h6, h7, h8⟩ := h
  exact ⟨h1, h2, h3, h4, by omega, h6, h7, fun t ht => h8 t ht⟩

/-! ## OPL -/

/-- **OPL round trip.**  For every object of the domain and every option vector (any metadata
    subset, `locations_on_ways` on or off): the writer does not fail, writes exactly one line
    terminated by '\n', and `opl_parse_line` on that line returns `project opts o` — same type, id,
    version, visibility, timestamp, changeset, uid, user, tags, location / node references (with
    their locations when requested) / members with roles. -/
theorem opl_roundtrip (o : Opts) (obj : Object) (h : InDomain obj) :
    ∃ line, OplFmt.writeObject o obj = .ok (line ++ [0x0a]) ∧
      OplFmt.parseLine {} line = .ok (some (OplFmt.project o obj)) := by
  cases obj with
  | node m l => exact OplFmt.node_roundtrip o m l h.1.ok h.2
  | way m ns => exact OplFmt.way_roundtrip o m ns h.1.ok (fun n hn => h.2 n hn)
  | relation m ms => exact OplFmt.relation_roundtrip o m ms h.1.ok (fun x hx => h.2 x hx)
  | changeset id ca cl nc ncm uid user bl tr tags cs =>
    obtain ⟨h1, h2, h3, h4, h5, h6, h7, h8, h9, h10, h11⟩ := h
    exact OplFmt.changeset_roundtrip o id ca cl nc ncm uid user bl tr tags cs
      ⟨by omega, h2, h3, by omega, by omega, h6, h7, h8, h9, h10, fun t ht => h11 t ht⟩

/-- non-vacuity: a mixed four-object list of the domain (negative id, escapes, 4-byte UTF-8,
    undefined and valid locations, anonymous changeset) -/
example : ∀ obj ∈ [
    Object.node { id := -9223372036854775807, version := 2147483647, visible := false, timestamp := 4294967295,
                  changeset := 4294967295, uid := 1, user := [0x61, 0x20, 0x3d, 0x2c, 0x25, 0xf0, 0x9f, 0x9a, 0x80],
                  tags := [⟨[0x6b], [0x0a, 0x40]⟩, ⟨[], []⟩] } ⟨1800000000, -900000000⟩,
    Object.way { id := 9223372036854775807 } [⟨1, Location.undefined⟩, ⟨-2, ⟨1, 2⟩⟩],
    Object.relation { id := 0, user := [0xc3, 0xa9] } [⟨1, 5, []⟩, ⟨3, -5, [0x20]⟩],
    Object.changeset 4294967295 1 0 3 2 0 [] Location.undefined ⟨5, 6⟩ [⟨[0x61], [0x62]⟩] []], InDomain obj := by
  decide +kernel

theorem InDomain.ok {obj : Object} (h : InDomain obj) : OplFmt.ObjOK obj := by
  cases obj with
  | node m l => exact ⟨h.1.ok, h.2⟩
  | way m ns => exact ⟨h.1.ok, fun n hn => h.2 n hn⟩
  | relation m ms => exact ⟨h.1.ok, fun x hx => h.2 x hx⟩
  | changeset id ca cl nc ncm uid user bl tr tags cs =>
    obtain ⟨h1, h2, h3, h4, h5, h6, h7, h8, h9, h10, h11⟩ := h
    exact ⟨by omega, h2, h3, by omega, by omega, h6, h7, h8, h9, h10, fun t ht => h11 t ht⟩

/-- **OPL file round trip.**  For every list of objects of the domain and every option vector:
    the writer does not fail, and the reader — `OPLParser::run`, which splits the stream into lines
    at LF / CR (`Chunks.specLines`, equal to the chunked `line_by_line` for EVERY chunking of the
    input by `C06.opl_chunking`), cuts each at its first NUL and hands it to `opl_parse_line` —
    returns exactly `project opts` of every object, in order.  (Needs, beyond `opl_roundtrip`, that
    no line the writer produces contains LF, CR or NUL.) -/
theorem opl_file_roundtrip (o : Opts) (objs : List Object) (h : ∀ obj ∈ objs, InDomain obj) :
    ∃ bytes, OplFmt.writeFile o objs = .ok bytes ∧
      OplFmt.parseFile {} bytes = .ok (objs.map (OplFmt.project o)) :=
  OplFmt.opl_file_rt o objs fun obj ho => (h obj ho).ok

/-! ## XML

expat is a parameter of the XML model: the writer produces markup pieces, `eventsOf` is what a
conforming parser reports for them (`ExpatContract`, checked against the real expat on every run),
the reader consumes events. -/

/-- XML strings: valid UTF-8 of XML `Char`s (no NUL, no C0 controls except TAB/LF/CR, no
    U+FFFE/U+FFFF — the C14 finding), at most 1024 bytes -/
def XStrDom (bs : Bytes) : Prop := XmlFmt.xstrOK bs = true

/-- changeset ids below 2^32−1: `string_to_ulong` rejects 2^32−1 (recorded finding
    `xml-u32-max:changeset`) -/
def XMetaDom (m : Meta) : Prop :=
  int64Min < m.id ∧ m.id ≤ int64Max ∧ m.version < 2147483648 ∧ m.timestamp < 4294967296 ∧
  m.changeset < 4294967295 ∧ m.uid < 2147483648 ∧ XStrDom m.user ∧ ∀ t ∈ m.tags, XStrDom t.key ∧ XStrDom t.value

def XLocDom (l : Location) : Prop := int32Min ≤ l.x ∧ l.x ≤ int32Max ∧ int32Min ≤ l.y ∧ l.y ≤ int32Max

/-- nodes, ways, relations of the XML domain (any int32 coordinates: a location that is not
    completely defined is not written and reads back undefined — `project`) -/
def XmlInDomain : Object → Prop
  | .node m l => XMetaDom m ∧ XLocDom l
  | .way m ns => XMetaDom m ∧ ∀ n ∈ ns, int64Min < n.ref ∧ n.ref ≤ int64Max ∧ XLocDom n.location
  | .relation m ms => XMetaDom m ∧ ∀ x ∈ ms, (x.type = 1 ∨ x.type = 2 ∨ x.type = 3) ∧ int64Min < x.ref ∧ x.ref ≤ int64Max ∧ XStrDom x.role
  | .changeset .. => False

instance : DecidablePred XmlInDomain := fun o => by
  cases o <;> unfold XmlInDomain <;> (try unfold XMetaDom XLocDom XStrDom) <;> exact inferInstance

theorem XMetaDom.ok {m : Meta} (h : XMetaDom m) : XmlFmt.XMetaOK m := by
  obtain ⟨h1, h2, h3, h4, h5, h6, h7, h8⟩ := h
  exact ⟨h1, h2, h3, h4, h5, h6, h7, fun t ht => h8 t ht⟩

/-- the metadata of a node / way / relation -/
def metaOfObj : Object → Meta
  | .node m _ => m
  | .way m _ => m
  | .relation m _ => m
  | .changeset .. => { id := 0 }

open Osmium.XmlFmt in
/-- **XML round trip (nodes, ways, relations).**  For every object of the XML domain and EVERY
    option vector (32 metadata subsets × history / force_visible_flag × locations_on_ways × change
    file or not), in every reader state that stands where the writer puts the object (directly
    under `<osm>`, or in the change section `create` / `modify` / `delete` the writer chose for it):
    the writer does not fail; a conforming XML parser reports events for its markup (`eventsOf`,
    the ExpatContract); and the reader, fed with these events, appends exactly `project opts o`
    to its output and publishes the header — nothing else changes.
    (Changesets: `xml_roundtrip_changeset` below.) -/
theorem xml_roundtrip (o : Opts) (obj : Object) (h : XmlInDomain obj) (st : RSt) (rest : List Ctx)
    (hs : st.stack = parentCtx o (metaOfObj obj) :: rest) (hc : st.cur = none) :
    ∃ ps evs, objectPieces o obj = .ok ps ∧ eventsOf ps = some evs ∧
      runEvents {} evs st = .ok { markDone st with out := XmlFmt.project o obj :: st.out } := by
  have key : ∃ ps, objectPieces o obj = .ok ps ∧
      runPieces ps st = .ok { markDone st with out := XmlFmt.project o obj :: st.out } := by
    cases obj with
    | node m l => exact node_rt o m l h.1.ok h.2 st rest hs hc
    | way m ns => exact way_rt o m ns h.1.ok (fun n hn => ⟨(h.2 n hn).1, (h.2 n hn).2.1, (h.2 n hn).2.2⟩) st rest hs hc
    | relation m ms => exact relation_rt o m ms h.1.ok (fun x hx => h.2 x hx) st rest hs hc
    | changeset => exact absurd h (by simp [XmlInDomain])
  obtain ⟨ps, hw, hr⟩ := key
  obtain ⟨evs, he, hrun⟩ := eventsOf_of_runPieces ps st _ hr
  exact ⟨ps, evs, hw, he, hrun⟩

/-- non-vacuity: three objects of the XML domain (negative and maximal ids, every escape class,
    4-byte UTF-8, half-defined location, all three member types) -/
example : ∀ obj ∈ [
    Object.node { id := -9223372036854775807, version := 2147483647, visible := false, timestamp := 4294967295,
                  changeset := 4294967294, uid := 1, user := [0x22, 0x27, 0x3c, 0x3e, 0x26, 0x0a, 0x0d, 0x09, 0xf0, 0x9f, 0x9a, 0x80],
                  tags := [⟨[0x6b], [0x26]⟩, ⟨[], []⟩] } ⟨1800000000, 2147483647⟩,
    Object.way { id := 9223372036854775807 } [⟨1, Location.undefined⟩, ⟨-2, ⟨1, 2⟩⟩],
    Object.relation { id := 0, user := [0xc3, 0xa9] } [⟨1, 5, []⟩, ⟨2, -5, [0x20]⟩, ⟨3, 7, [0x3c]⟩]], XmlInDomain obj := by
  decide +kernel

/-- the recorded finding as a theorem about the model: changeset id 2^32−1 is written and then
    rejected by the reader's `string_to_ulong` -/
theorem xml_u32max_rejected :
    ∃ out, wInt 4294967295 = .ok out ∧ XmlFmt.rUlong out = .error .range := by
  refine ⟨[52, 50, 57, 52, 57, 54, 55, 50, 57, 53], by decide +kernel, by decide +kernel⟩

theorem XmlInDomain.ok {obj : Object} (h : XmlInDomain obj) : XmlFmt.XObjOK obj := by
  cases obj with
  | node m l => exact ⟨h.1.ok, h.2⟩
  | way m ns => exact ⟨h.1.ok, fun n hn => ⟨(h.2 n hn).1, (h.2 n hn).2.1, (h.2 n hn).2.2⟩⟩
  | relation m ms => exact ⟨h.1.ok, fun x hx => h.2 x hx⟩
  | changeset => exact absurd h (by simp [XmlInDomain])

/-! ### changesets and discussions -/

/-- a comment of a changeset discussion: any uint32 date; uid below 2^32−1 (`string_to_ulong`, the
    recorded finding again); user and text XML strings -/
def XCommentDom (c : Comment) : Prop :=
  c.date < 4294967296 ∧ c.uid < 4294967295 ∧ XStrDom c.user ∧ XStrDom c.text

/-- changesets of the XML domain: id and counters below 2^32−1 (`xml-u32-max:changeset`), any
    uint32 timestamps, uid in [0, 2^31) — uid 0 with an empty (or any) user name is the anonymous
    changeset —, bounding-box corners with int32 coordinates (undefined included), tags and a
    discussion of any length -/
def XmlChangesetDom : Object → Prop
  | .changeset id ca cl nc ncm uid user bl tr tags cs =>
    id < 4294967295 ∧ ca < 4294967296 ∧ cl < 4294967296 ∧ nc < 4294967295 ∧ ncm < 4294967295 ∧ 0 ≤ uid ∧
    uid < 2147483648 ∧ XStrDom user ∧ XLocDom bl ∧ XLocDom tr ∧ (∀ t ∈ tags, XStrDom t.key ∧ XStrDom t.value) ∧
    ∀ c ∈ cs, XCommentDom c
  | _ => False

instance : DecidablePred XmlChangesetDom := fun o => by
  cases o <;> unfold XmlChangesetDom <;> (try unfold XCommentDom XLocDom XStrDom) <;> exact inferInstance

/-- all four object kinds of the XML domain -/
def XmlInDomainAll (obj : Object) : Prop := XmlInDomain obj ∨ XmlChangesetDom obj

instance : DecidablePred XmlInDomainAll := fun o => by unfold XmlInDomainAll; exact inferInstance

theorem XmlChangesetDom.ok {id ca cl nc ncm : Nat} {uid : Int} {user : Bytes} {bl tr : Location} {tags : List Tag}
    {cs : List Comment} (h : XmlChangesetDom (.changeset id ca cl nc ncm uid user bl tr tags cs)) :
    XmlFmt.XCsOK id ca cl nc ncm uid user bl tr tags cs := by
  obtain ⟨h1, h2, h3, h4, h5, h6, h7, h8, h9, h10, h11, h12⟩ := h
  exact ⟨h1, h2, h3, h4, h5, h6, h7, h8, h9, h10, fun t ht => h11 t ht, fun c hc => h12 c hc⟩

theorem XmlInDomainAll.ok {obj : Object} (h : XmlInDomainAll obj) : XmlFmt.XObjOK2 obj := by
  rcases h with h | h
  · cases obj with
    | node m l => exact XmlInDomain.ok h
    | way m ns => exact XmlInDomain.ok h
    | relation m ms => exact XmlInDomain.ok h
    | changeset => exact absurd h (by simp [XmlInDomain])
  · cases obj with
    | changeset id ca cl nc ncm uid user bl tr tags cs => exact XmlChangesetDom.ok h
    | node m l => exact absurd h (by simp [XmlChangesetDom])
    | way m ns => exact absurd h (by simp [XmlChangesetDom])
    | relation m ms => exact absurd h (by simp [XmlChangesetDom])

open Osmium.XmlFmt in
/-- **XML round trip (changesets with discussions).**  For every changeset of the XML domain —
    anonymous ones (uid 0, the user name is then not written and reads back empty: `project`)
    included, with any tags and any discussion (comments with date, uid, user, text) — and every
    writer option vector (`changeset()` looks at none of the options), in every reader state that
    stands directly under the root element with no text pending: the writer does not fail; a
    conforming XML parser reports events for its markup (`eventsOf`, the ExpatContract: the text of
    a comment arrives as character data with its references decoded); and the reader, fed with
    these events, appends exactly `project opts o` — id, created_at, closed_at, num_changes,
    comments_count, uid, user, bounding box, tags, and the discussion comment by comment — to its
    output and publishes the header; nothing else changes.
    (Inside `<create>/<modify>/<delete>` of a change file the reader rejects `<changeset>`:
    `dataLevel … inChange = true`; outside the domain.) -/
theorem xml_roundtrip_changeset (o : Opts) (obj : Object) (h : XmlChangesetDom obj) (st : RSt) (p : Ctx)
    (hp : p = Ctx.osm ∨ p = Ctx.osmChange) (rest : List Ctx) (hs : st.stack = p :: rest) (hc : st.cur = none)
    (hct : st.commentText = []) (hcp : st.commentPending = false) :
    ∃ ps evs, objectPieces o obj = .ok ps ∧ eventsOf ps = some evs ∧
      runEvents {} evs st = .ok { markDone st with out := XmlFmt.project o obj :: st.out } := by
  cases obj with
  | changeset id ca cl nc ncm uid user bl tr tags cs =>
    obtain ⟨ps, hw, hr⟩ := changeset_rt o id ca cl nc ncm uid user bl tr tags cs h.ok st p hp rest hs hc hct hcp
    obtain ⟨evs, he, hrun⟩ := eventsOf_of_runPieces ps st _ hr
    exact ⟨ps, evs, hw, he, hrun⟩
  | node m l => exact absurd h (by simp [XmlChangesetDom])
  | way m ns => exact absurd h (by simp [XmlChangesetDom])
  | relation m ms => exact absurd h (by simp [XmlChangesetDom])

/-- non-vacuity: a changeset with every attribute group, escapes in user / tag / comment text, a
    two-comment discussion (one anonymous comment with empty text), a half-defined bounding box; an
    anonymous open changeset without tags and comments -/
example : ∀ obj ∈ [
    Object.changeset 4294967294 1 4294967295 3 2 2147483647 [0x61, 0x22, 0x26] Location.undefined ⟨5, 2147483647⟩
      [⟨[0x6b], [0x3c, 0x0a]⟩]
      [⟨4294967295, 7, [0x75, 0x27], [0x68, 0x0a, 0x69, 0x3c, 0x26, 0x22, 0x20, 0xf0, 0x9f, 0x9a, 0x80]⟩, ⟨0, 0, [], []⟩],
    Object.changeset 0 0 0 0 0 0 [] Location.undefined Location.undefined [] []], XmlChangesetDom obj := by
  decide +kernel

/-- headers of the XML domain: generator an XML string, boxes with int32 corners -/
def XHeaderDom (h : Header) : Prop :=
  XStrDom h.generator ∧ ∀ b ∈ h.boxes, XLocDom b.1 ∧ XLocDom b.2

instance : DecidablePred XHeaderDom := fun h => by
  unfold XHeaderDom XStrDom XLocDom; exact inferInstance

/-- what a file may carry: objects of the XML domain; changesets only outside change files -/
def XFileDom (o : Opts) (objs : List Object) : Prop :=
  (∀ obj ∈ objs, XmlInDomainAll obj) ∧ (o.changeOps = true → ∀ obj ∈ objs, XmlInDomain obj)

theorem XFileDom.ok {o : Opts} {objs : List Object} (h : XFileDom o objs) : XmlFmt.FileObjsOK o objs := by
  refine ⟨fun obj ho => (h.1 obj ho).ok, fun hco obj ho => ?_⟩
  have := h.2 hco obj ho
  cases obj <;> first | rfl | exact absurd this (by simp [XmlInDomain])

open Osmium.XmlFmt in
/-- **XML file round trip over several buffers.**  The Writer turns every buffer it is handed into
    one `XMLOutputBlock` (in a change file the `<create>/<modify>/<delete>` section is closed at
    the end of each block and re-opened in the next); the reader sees one document.  For every
    header of the domain, every list of buffers whose objects are in the XML domain (nodes, ways,
    relations; changesets with discussions too, outside change files) and EVERY option vector:
    the writer does not fail, a conforming parser reports events for the markup, and the reader
    returns the header (generator, boxes normalised by `Box::extend`, `has_multiple_object_versions`
    exactly for change files) and exactly `project opts` of every object of every buffer, in order —
    how the objects were distributed over buffers is invisible. -/
theorem xml_file_roundtrip_multi_buffer (o : Opts) (h : Header) (blocks : List (List Object)) (hh : XHeaderDom h)
    (hall : ∀ b ∈ blocks, XFileDom o b) :
    ∃ ps evs, filePieces o h blocks = .ok ps ∧ eventsOf ps = some evs ∧
      XmlFmt.read {} evs = .ok (projectHeader o h, blocks.flatten.map (XmlFmt.project o)) := by
  obtain ⟨ps, hps, r, hrun, hhdr, hout⟩ := file_run_blocks o h blocks ⟨hh.1, fun b hb => hh.2 b hb⟩ (fun b hb => (hall b hb).ok)
  obtain ⟨evs, he, hre⟩ := eventsOf_of_runPieces ps {} r hrun
  refine ⟨ps, evs, hps, he, ?_⟩
  simp only [XmlFmt.read, hre, bindE_ok, hhdr, hout]

open Osmium.XmlFmt in
/-- the same through any parser that satisfies the (pointwise) ExpatContract on the document: the
    bytes the writer produces for any sequence of buffers read back as the projected data -/
theorem xml_file_roundtrip_multi_buffer_expat (expat : Bytes → Option (List Ev)) (o : Opts) (h : Header)
    (blocks : List (List Object)) (hh : XHeaderDom h) (hall : ∀ b ∈ blocks, XFileDom o b)
    (hc : ∀ ps, filePieces o h blocks = .ok ps → ExpatContract expat ps) :
    ∃ doc, XmlFmt.writeFile o h blocks = .ok doc ∧
      readFile expat {} doc = .ok (projectHeader o h, blocks.flatten.map (XmlFmt.project o)) := by
  obtain ⟨ps, evs, hps, he, hr⟩ := xml_file_roundtrip_multi_buffer o h blocks hh hall
  refine ⟨xmlDecl ++ serialize ps, by simp [XmlFmt.writeFile, hps], ?_⟩
  have := hc ps hps
  unfold ExpatContract at this
  simp only [readFile, this, he, hr]

open Osmium.XmlFmt in
/-- **XML file round trip: header, change sections, objects** (`header_roundtrip` incl. the
    generator clause, `change_file_roundtrip`, and the sequence version of `xml_roundtrip` and
    `xml_roundtrip_changeset`).
    For every header of the domain, every list of objects of the XML domain in one buffer — nodes,
    ways, relations, and (outside change files) changesets with their discussions — and EVERY
    option vector — in particular `xml_change_format`, where the writer groups the objects into
    `<create>` (visible, version 1), `<modify>` (visible, other versions) and `<delete>` (not
    visible) sections, opening and closing them as the operation changes — the writer does not
    fail, a conforming parser reports events for the markup, and the reader returns the header with
    the generator, the boxes normalised by `Box::extend` and `has_multiple_object_versions` set
    exactly for change files, followed by exactly `project opts` of every object, in order: the
    visible flag of every object of a change file comes back from the section it stands in.
    (Changesets inside change files are outside the domain: see `xml_roundtrip_changeset`.) -/
theorem xml_file_roundtrip (o : Opts) (h : Header) (objs : List Object) (hh : XHeaderDom h)
    (hall : XFileDom o objs) :
    ∃ ps evs, filePieces o h [objs] = .ok ps ∧ eventsOf ps = some evs ∧
      XmlFmt.read {} evs = .ok (projectHeader o h, objs.map (XmlFmt.project o)) := by
  simpa using xml_file_roundtrip_multi_buffer o h [objs] hh (by simpa using hall)

open Osmium.XmlFmt in
/-- the same through any parser that satisfies the (pointwise) ExpatContract on the document: the
    bytes the writer produces read back as the projected data -/
theorem xml_file_roundtrip_expat (expat : Bytes → Option (List Ev)) (o : Opts) (h : Header) (objs : List Object)
    (hh : XHeaderDom h) (hall : XFileDom o objs)
    (hc : ∀ ps, filePieces o h [objs] = .ok ps → ExpatContract expat ps) :
    ∃ doc, XmlFmt.writeFile o h [objs] = .ok doc ∧
      readFile expat {} doc = .ok (projectHeader o h, objs.map (XmlFmt.project o)) := by
  simpa using xml_file_roundtrip_multi_buffer_expat expat o h [objs] hh (by simpa using hall) hc

/-- non-vacuity: a plain file with a node and a changeset; a change file with the three n/w/r samples -/
example : XFileDom {} [Object.node { id := 1 } ⟨1, 2⟩, Object.changeset 7 1 0 0 1 5 [0x61] Location.undefined ⟨5, 6⟩ []
    [⟨1, 2, [0x62], [0x63]⟩]] ∧
    XFileDom { changeOps := true } [Object.node { id := 1, visible := false } ⟨1, 2⟩, Object.way { id := 2, version := 1 } []] := by
  refine ⟨⟨by decide +kernel, by simp⟩, ⟨by decide +kernel, fun _ => by decide +kernel⟩⟩

/-- `header_roundtrip` (XML): generator, boxes (normalised by `Box::extend`), and the
    multiple-versions flag of an object-free file come back — for every header of the domain. -/
theorem xml_header_roundtrip (o : Opts) (h : Header) (hh : XHeaderDom h) :
    ∃ ps evs, XmlFmt.filePieces o h [[]] = .ok ps ∧ XmlFmt.eventsOf ps = some evs ∧
      XmlFmt.read {} evs = .ok (XmlFmt.projectHeader o h, []) := by
  simpa using xml_file_roundtrip o h [] hh ⟨by simp, by simp⟩

example : XHeaderDom { generator := [0x6c, 0x69, 0x62, 0x20, 0x22, 0x3c, 0x26, 0xc3, 0xa9],
                       boxes := [(⟨-1800000000, -900000000⟩, ⟨1800000000, 900000000⟩)], multipleVersions := false } := by
  decide +kernel

/-- `change_file_roundtrip`: the special case `xml_change_format` of `xml_file_roundtrip`,
    spelled out — every object comes back with its visible flag (from the section) and the header
    says "multiple object versions". -/
theorem change_file_roundtrip (o : Opts) (ho : o.changeOps = true) (h : Header) (objs : List Object)
    (hh : XHeaderDom h) (hall : ∀ obj ∈ objs, XmlInDomain obj) :
    ∃ ps evs, XmlFmt.filePieces o h [objs] = .ok ps ∧ XmlFmt.eventsOf ps = some evs ∧
      ∃ hdr out, XmlFmt.read {} evs = .ok (hdr, out) ∧ hdr.multipleVersions = true ∧ hdr.generator = h.generator ∧
        out = objs.map (XmlFmt.project o) ∧
        (out.map fun x => (metaOfObj x).visible) = objs.map fun x => (metaOfObj x).visible := by
  obtain ⟨ps, evs, hps, he, hr⟩ := xml_file_roundtrip o h objs hh ⟨fun obj hob => Or.inl (hall obj hob), fun _ => hall⟩
  refine ⟨ps, evs, hps, he, _, _, hr, by simp [XmlFmt.projectHeader, ho], rfl, rfl, ?_⟩
  rw [List.map_map]
  apply List.map_congr_left
  intro x hx
  have := hall x hx
  cases x <;> simp [XmlFmt.project, XmlFmt.projectMeta, metaOfObj, ho] <;> exact absurd this (by simp [XmlInDomain])

open Osmium.XmlFmt in
/-- **Header boxes (XML), attribute level**: the four attributes of `<bounds>` as the writer formats
    them (`append_lat_lon_attributes`: minlat, minlon, maxlat, maxlon), decoded by the reader's
    attribute loop and normalised by `Box::extend`, give back the box UNCHANGED — for every box with
    valid corners, bottom-left ≤ top-right (for such boxes the normalisation in `projectHeader` of
    `xml_header_roundtrip` is the identity). -/
theorem xml_header_bounds_valid_identity (bl tr : Location) (h1 : valid bl = true) (h2 : valid tr = true)
    (hx : bl.x ≤ tr.x) (hy : bl.y ≤ tr.y) :
    bindE (boundsAttrs (XmlFmt.latLon "minlat" "minlon" bl ++ XmlFmt.latLon "maxlat" "maxlon" tr)
        Location.undefined Location.undefined)
      (fun (mn, mx) => (Except.ok (extendBox (extendBox (Location.undefined, Location.undefined) mn) mx) : Except XErr _))
      = .ok (bl, tr) := by
  obtain ⟨a1, a2, a3, a4, b1, _⟩ := OplFmt.valid_range h1
  obtain ⟨c1, c2, c3, c4, b2, _⟩ := OplFmt.valid_range h2
  have r := fun v h h' => Conv.C13.coord_roundtrip_full Variant.now v h h'
  have hbu : bothDefined Location.undefined = false := by decide
  simp only [XmlFmt.latLon, List.cons_append, List.nil_append, boundsAttrs, rCoord, r _ a3 a4, r _ a1 a2, r _ c3 c4,
    r _ c1 c2, convR, bindE_ok]
  simp only [show ("minlat" = "minlon") = False by decide, show ("minlon" = "minlat") = False by decide,
    show ("maxlat" = "minlon") = False by decide, show ("maxlat" = "minlat") = False by decide,
    show ("maxlat" = "maxlon") = False by decide, show ("maxlon" = "minlon") = False by decide,
    show ("maxlon" = "minlat") = False by decide, show ("maxlon" = "maxlat") = False by decide, if_true, if_false,
    rCoord, r _ a3 a4, r _ a1 a2, r _ c3 c4, r _ c1 c2, convR, bindE_ok]
  have e1 : ({ x := bl.x, y := bl.y } : Location) = bl := rfl
  have e2 : ({ x := tr.x, y := tr.y } : Location) = tr := rfl
  have f1 : extendBox (Location.undefined, Location.undefined) bl = (bl, bl) := by
    unfold extendBox
    rw [if_pos h1, if_neg (by simp [hbu])]
  have f2 : extendBox (bl, bl) tr = (bl, tr) := by
    unfold extendBox
    rw [if_pos h2, if_pos (by simpa using b1)]
    cases bl with
    | mk bx by_ =>
      cases tr with
      | mk tx ty =>
        simp only at hx hy
        have n1 : ¬ tx < bx := by omega
        have n2 : ¬ ty < by_ := by omega
        simp only [n1, n2, if_false, Prod.mk.injEq, Location.mk.injEq, true_and]
        constructor
        · split <;> omega
        · split <;> omega
  rw [e1, e2]
  show Except.ok (extendBox (extendBox (Location.undefined, Location.undefined) bl) tr) = Except.ok (bl, tr)
  rw [f1, f2]

example : valid ⟨-1800000000, -900000000⟩ = true ∧ valid ⟨1800000000, 900000000⟩ = true := by decide

/-- Tie of the text-format models' constants to the CURRENT source (regenerated
    `Generated/Consts.lean`). -/
theorem consts_tie_text :
    Osmium.OplFmt.maxString = Osmium.Generated.Consts.maxOsmStringLength ∧ Osmium.Generated.Consts.oplHexMaxLength * 4 = 8 ∧
    Osmium.Generated.Consts.coordinatePrecision = 10000000 ∧ (Osmium.Generated.Consts.undefinedCoordinate : Int) = Osmium.Osm.Location.undefinedCoordinate := by decide

/-! ### source ties (tools/cxx2lean.py): `osm/item_type.hpp` translated from the source (`switch` statements) -/
section SrcTies
open Osmium.Generated Osmium.CxxSem Osmium.SrcTie

/-- `item_type_to_char` (a 13-way `switch`) on the member types and `undefined` = the writer models' `typeChar` -/
theorem src_tie_item_type_to_char (t : Nat) (ht : t ≤ 3) :
    Src.ItemType.item_type_to_char (t : Int) = ((typeChar t).toNat : Int) := by
  have h : t = 0 ∨ t = 1 ∨ t = 2 ∨ t = 3 := by omega
  rcases h with rfl | rfl | rfl | rfl <;> decide

/-- `char_to_item_type` followed by the OPL parser's test `type != node && type != way && type != relation`
    (opl_parse_relation_members) = the parser models' `charType` (0 = rejected), for EVERY byte -/
theorem src_tie_char_to_item_type_fin (n : Fin 256) :
    (charType n.val.toUInt8 : Int) =
      (if Src.OplParserFunctions.opl_member_type_unknown (Src.ItemType.char_to_item_type (charOfByte n.val)) then 0
       else Src.ItemType.char_to_item_type (charOfByte n.val)) := by
  revert n; decide +kernel

theorem src_tie_char_to_item_type (c : UInt8) :
    (charType c : Int) =
      (if Src.OplParserFunctions.opl_member_type_unknown (Src.ItemType.char_to_item_type (charOfByte c.toNat)) then 0
       else Src.ItemType.char_to_item_type (charOfByte c.toNat)) := by
  have h := src_tie_char_to_item_type_fin ⟨c.toNat, c.toNat_lt⟩
  simpa using h

/-- the two conversions are inverse on every enumerator of `item_type` (the 13 values the `switch`es name) -/
theorem src_tie_item_type_char_roundtrip :
    ∀ t ∈ [0, 1, 2, 3, 4, 5, 0x11, 0x12, 0x13, 0x23, 0x40, 0x41, 0x80],
      Src.ItemType.item_type_to_char_typed t = true ∧
      (t ≠ 0 → Src.ItemType.char_to_item_type (Src.ItemType.item_type_to_char t) = t) := by decide

/-- `item_type_to_nwr_index` / `nwr_index_to_item_type` on their documented domains -/
theorem src_tie_nwr_index (i : Nat) (hi : i ≤ 2) :
    Src.ItemType.nwr_index_to_item_type i = (i : Int) + 1 ∧
    Src.ItemType.item_type_to_nwr_index ((i : Int) + 1) = i := by
  have h : i = 0 ∨ i = 1 ∨ i = 2 := by omega
  rcases h with rfl | rfl | rfl <;> decide

end SrcTies

end Osmium.C01Text
