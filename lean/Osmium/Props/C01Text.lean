/-
C01, text formats — what the OPL / XML writers write, the OPL / XML readers read back.

Property theorems only (models: Osmium/Model/{OplFmt,XmlFmt}.lean; helper lemmas:
Osmium/Lemmas/{OplFmt,OplFmtObj,OplFmtCs,XmlFmt}.lean).  The string and number fields are
discharged by the round-trip theorems of C14 (`opl_roundtrip`, `xml_roundtrip_partial`) and C13
(`coord_roundtrip`, `output_int_roundtrip`, `ts_roundtrip`, `object_id_spec`, `ulong_spec`).

`project opts o` is the object with every field the option vector drops reset to its default.
-/
import Osmium.Lemmas.OplFmtCs
import Osmium.Model.XmlFmt

namespace Osmium.C01Text
open Osmium.Osm Osmium.TextFmt Osmium.Conv

/-! ## the value domain of the property (decidable) -/

/-- strings = valid UTF-8 (scalar values) without NUL of at most 1024 bytes -/
def StrDom (bs : Bytes) : Prop := OplFmt.strOK 0x110000 bs = true

/-- locations undefined or valid -/
def LocDom (l : Location) : Prop := l = Location.undefined ∨ valid l = true

def TagsDom (ts : List Tag) : Prop := ∀ t ∈ ts, StrDom t.key ∧ StrDom t.value

/-- ids in (−2^63, 2^63), version and uid < 2^31, any uint32 timestamp / changeset -/
def MetaDom (m : Meta) : Prop :=
  int64Min < m.id ∧ m.id ≤ int64Max ∧ m.version < 2147483648 ∧ m.timestamp < 4294967296 ∧
  m.changeset < 4294967296 ∧ m.uid < 2147483648 ∧ StrDom m.user ∧ TagsDom m.tags

def InDomain : Object → Prop
  | .node m l => MetaDom m ∧ LocDom l
  | .way m ns => MetaDom m ∧ ∀ n ∈ ns, int64Min < n.ref ∧ n.ref ≤ int64Max ∧ LocDom n.location
  | .relation m ms => MetaDom m ∧ ∀ x ∈ ms, (x.type = 1 ∨ x.type = 2 ∨ x.type = 3) ∧ int64Min < x.ref ∧ x.ref ≤ int64Max ∧ StrDom x.role
  | .changeset id ca cl nc ncm uid user bl tr tags _ =>
    id < 4294967296 ∧ ca < 4294967296 ∧ cl < 4294967296 ∧ nc < 4294967296 ∧ ncm < 4294967296 ∧ 0 ≤ uid ∧ uid < 2147483648 ∧
    StrDom user ∧ LocDom bl ∧ LocDom tr ∧ TagsDom tags

instance : DecidablePred InDomain := fun o => by
  cases o <;> unfold InDomain MetaDom TagsDom LocDom StrDom <;> exact inferInstance

theorem MetaDom.ok {m : Meta} (h : MetaDom m) : OplFmt.MetaOK m := by
  obtain ⟨h1, h2, h3, h4, h5, h6, h7, h8⟩ := h
  exact ⟨h1, h2, h3, h4, by omega, h6, h7, fun t ht => h8 t ht⟩

/-! ## OPL -/

/-- **OPL round trip.**  For every object of the domain and every option vector (any metadata
    subset, `locations_on_ways` on or off): the writer does not fail, writes exactly one line
    terminated by '\n', and `opl_parse_line` on that line returns `project opts o` — same type, id,
    version, visibility, timestamp, changeset, uid, user, tags, location / node references (with
    their locations when requested) / members with roles. -/
theorem opl_roundtrip (o : Opts) (obj : Object) (h : InDomain obj) :
    ∃ line, OplFmt.writeObject o obj = .ok (line ++ [0x0a]) ∧
      OplFmt.parseLine {} line = .ok (some (OplFmt.project o obj)) := by
  cases obj with
  | node m l => exact OplFmt.node_roundtrip o m l h.1.ok h.2
  | way m ns => exact OplFmt.way_roundtrip o m ns h.1.ok (fun n hn => h.2 n hn)
  | relation m ms => exact OplFmt.relation_roundtrip o m ms h.1.ok (fun x hx => h.2 x hx)
  | changeset id ca cl nc ncm uid user bl tr tags cs =>
    obtain ⟨h1, h2, h3, h4, h5, h6, h7, h8, h9, h10, h11⟩ := h
    exact OplFmt.changeset_roundtrip o id ca cl nc ncm uid user bl tr tags cs
      ⟨by omega, h2, h3, by omega, by omega, h6, h7, h8, h9, h10, fun t ht => h11 t ht⟩

/-- non-vacuity: a mixed four-object list of the domain (negative id, escapes, 4-byte UTF-8,
    undefined and valid locations, anonymous changeset) -/
example : ∀ obj ∈ [
    Object.node { id := -9223372036854775807, version := 2147483647, visible := false, timestamp := 4294967295,
                  changeset := 4294967295, uid := 1, user := [0x61, 0x20, 0x3d, 0x2c, 0x25, 0xf0, 0x9f, 0x9a, 0x80],
                  tags := [⟨[0x6b], [0x0a, 0x40]⟩, ⟨[], []⟩] } ⟨1800000000, -900000000⟩,
    Object.way { id := 9223372036854775807 } [⟨1, Location.undefined⟩, ⟨-2, ⟨1, 2⟩⟩],
    Object.relation { id := 0, user := [0xc3, 0xa9] } [⟨1, 5, []⟩, ⟨3, -5, [0x20]⟩],
    Object.changeset 4294967295 1 0 3 2 0 [] Location.undefined ⟨5, 6⟩ [⟨[0x61], [0x62]⟩] []], InDomain obj := by
  decide +kernel

/-! ## XML

The XML round trip is tied to the code by the byte-exact / cross / expat-contract correspondence
of tools/props/c01_text.py; only the following pieces are PROVED.  MISSING (not proved, hence
nothing of that name below): `xml_roundtrip` (objects: needs `string_to_object_id ∘ output_int = id` on
top of C13's digit-list specs and "reference decoding is the identity on digits" on top of C14,
then the context-stack induction over `objectPieces`), the generator clause of
`header_roundtrip`. -/

open Osmium.XmlFmt in
/-- **Header boxes (XML), partial**: the four attributes of `<bounds>` as the writer formats them
    (`append_lat_lon_attributes`: minlat, minlon, maxlat, maxlon), decoded by the reader's attribute
    loop and normalised by `Box::extend`, give back the box — for every box with valid corners,
    bottom-left ≤ top-right.  (Partial: the expat layer — that the attribute values reach the
    reader unchanged — is the ExpatContract, checked by the harness; generator not covered.) -/
theorem xml_header_bounds_roundtrip_partial (bl tr : Location) (h1 : valid bl = true) (h2 : valid tr = true)
    (hx : bl.x ≤ tr.x) (hy : bl.y ≤ tr.y) :
    bindE (boundsAttrs (XmlFmt.latLon "minlat" "minlon" bl ++ XmlFmt.latLon "maxlat" "maxlon" tr)
        Location.undefined Location.undefined)
      (fun (mn, mx) => (Except.ok (extendBox (extendBox (Location.undefined, Location.undefined) mn) mx) : Except XErr _))
      = .ok (bl, tr) := by
  obtain ⟨a1, a2, a3, a4, b1, _⟩ := OplFmt.valid_range h1
  obtain ⟨c1, c2, c3, c4, b2, _⟩ := OplFmt.valid_range h2
  have r := fun v h h' => Conv.C13.coord_roundtrip_full Variant.now v h h'
  have hbu : bothDefined Location.undefined = false := by decide
  simp only [XmlFmt.latLon, List.cons_append, List.nil_append, boundsAttrs, rCoord, r _ a3 a4, r _ a1 a2, r _ c3 c4,
    r _ c1 c2, convR, bindE_ok]
  simp only [show ("minlat" = "minlon") = False by decide, show ("minlon" = "minlat") = False by decide,
    show ("maxlat" = "minlon") = False by decide, show ("maxlat" = "minlat") = False by decide,
    show ("maxlat" = "maxlon") = False by decide, show ("maxlon" = "minlon") = False by decide,
    show ("maxlon" = "minlat") = False by decide, show ("maxlon" = "maxlat") = False by decide, if_true, if_false,
    rCoord, r _ a3 a4, r _ a1 a2, r _ c3 c4, r _ c1 c2, convR, bindE_ok]
  have e1 : ({ x := bl.x, y := bl.y } : Location) = bl := rfl
  have e2 : ({ x := tr.x, y := tr.y } : Location) = tr := rfl
  have f1 : extendBox (Location.undefined, Location.undefined) bl = (bl, bl) := by
    unfold extendBox
    rw [if_pos h1, if_neg (by simp [hbu])]
  have f2 : extendBox (bl, bl) tr = (bl, tr) := by
    unfold extendBox
    rw [if_pos h2, if_pos (by simpa using b1)]
    cases bl with
    | mk bx by_ =>
      cases tr with
      | mk tx ty =>
        simp only at hx hy
        have n1 : ¬ tx < bx := by omega
        have n2 : ¬ ty < by_ := by omega
        simp only [n1, n2, if_false, Prod.mk.injEq, Location.mk.injEq, true_and]
        constructor
        · split <;> omega
        · split <;> omega
  rw [e1, e2]
  show Except.ok (extendBox (extendBox (Location.undefined, Location.undefined) bl) tr) = Except.ok (bl, tr)
  rw [f1, f2]

example : valid ⟨-1800000000, -900000000⟩ = true ∧ valid ⟨1800000000, 900000000⟩ = true := by decide

end Osmium.C01Text
