/-
Model driver for C17.  One op per line:

  emit <c|r> <fmt> <kind> <u|a> <f|b> <srid> <prec> <items…>   -> "ok <hex of output>" | "err geometry|location"
        fmt  = wkb | ewkb | wkbhex | ewkbhex | wkt | ewkt | geojson
        kind = point | line | poly | area
        items: location tokens  x:y:xb:yb:xt:yt   (x,y fixed-point int32; xb,yb = the projected
               doubles as 16 hex digits (memory order) or "-"; xt,yt = hex of the two printed
               coordinates at the op's precision or "-"); for `area` the tokens O / I start an
               outer / inner ring.
        The factory model (Factory.create over Wkb.impl / Wkt.impl / GeoJson.impl) is run with
        proj = validity check + table lookup.
  spec <kind> <u|a> <f|b> <items…>                      -> canonical geomOf over x:y | "err …"
  dec <fmt> <hex of output>                             -> "ok <srid|-> <canonical>" | "bad"
        the independent decoders Wkb.parse / Wkt.parse / GeoJson.parse (after lexing)
  d2s <c|r> <bits> <prec> <hex of the full %.*f output> -> "ok <hex>" | "ub overread" | "ub underread"

canonical geometry: "point P" | "linestring R" | "polygon Y" | "multipolygon Y|Y|…",
Y = R;R;… (outer first), R = P,P,… ("~" if empty), P = a:b
-/
import Osmium.Model.Geom
import Driver.Common

open Osmium.Geom Driver

structure DP where
  loc : Location
  bits : WPoint
  txt : TPoint

def dblOfHex (s : String) : Option Dbl :=
  match unhex s with
  | some [a, b, c, d, e, f, g, h] => some ⟨a, b, c, d, e, f, g, h⟩
  | _ => none

def zeroDbl : Dbl := ⟨0, 0, 0, 0, 0, 0, 0, 0⟩

def strOfHex (s : String) : Option String :=
  (unhex s).map fun bs => String.ofList (bs.map fun b => Char.ofNat b.toNat)

def hexOfStr (s : String) : String := hex (s.toList.map fun c => UInt8.ofNat c.toNat)

def parseLoc (s : String) : Option DP :=
  match s.splitOn ":" with
  | [x, y] => do
    pure ⟨⟨← x.toInt?, ← y.toInt?⟩, (zeroDbl, zeroDbl), ("", "")⟩
  | [x, y, xb, yb, xt, yt] => do
    let l : Location := ⟨← x.toInt?, ← y.toInt?⟩
    let bx := (dblOfHex xb).getD zeroDbl
    let bY := (dblOfHex yb).getD zeroDbl
    let tx := (strOfHex xt).getD ""
    let ty := (strOfHex yt).getD ""
    pure ⟨l, (bx, bY), (tx, ty)⟩
  | _ => none

/-- items of an area op: O / I open a ring (fuel = token count) -/
def parseRingsOpFuel : Nat → List String → Option (List (Bool × List DP))
  | 0, [] => some []
  | 0, _ => none
  | _ + 1, [] => some []
  | fuel + 1, w :: rest =>
    if w == "O" || w == "I" then do
      let pts := rest.takeWhile (fun t => t != "O" && t != "I")
      let rest' := rest.dropWhile (fun t => t != "O" && t != "I")
      let ps ← pts.mapM parseLoc
      let more ← parseRingsOpFuel fuel rest'
      pure ((w == "O", ps) :: more)
    else none

def parseObj (kind : String) (items : List String) : Option (Obj × List DP) :=
  match kind with
  | "point" => do
    match ← items.mapM parseLoc with
    | [p] => pure (.node p.loc, [p])
    | _ => none
  | "line" => do
    let ps ← items.mapM parseLoc
    pure (.way (ps.map (·.loc)), ps)
  | "poly" => do
    let ps ← items.mapM parseLoc
    pure (.wayPolygon (ps.map (·.loc)), ps)
  | "area" => do
    let rs ← parseRingsOpFuel items.length items
    pure (.area (rs.map fun r => (r.1, r.2.map (·.loc))), rs.flatMap (·.2))
  | _ => none

def mkProj (table : List DP) (l : Location) : Except Err DP :=
  if !l.valid then .error .location
  else match table.find? (fun p => p.loc == l) with
    | some p => .ok p
    | none => .error .location

def projLoc (l : Location) : Except Err Location :=
  if l.valid then .ok l else .error .location

def errStr : Err → String
  | .geometry => "err geometry"
  | .location => "err location"

/-! rendering tokens -/
def renderTok (wkt : Bool) : Tok → String
  | .kw s => s
  | .open => if wkt then "(" else "["
  | .close => if wkt then ")" else "]"
  | .comma => ","
  | .sp => " "
  | .num s => s

def render (wkt : Bool) (ts : List Tok) : String := String.join (ts.map (renderTok wkt))

/-! lexers -/
def isDelim (wkt : Bool) (c : Char) : Bool :=
  if wkt then c == '(' || c == ')' || c == ',' || c == ' '
  else c == '[' || c == ']' || c == ',' || c == '}'

def delimTok (_wkt : Bool) (c : Char) : Tok :=
  if c == ',' then .comma
  else if c == ' ' then .sp
  else if c == '(' || c == '[' then .open
  else if c == '}' then .kw "}"
  else .close

/-- split into delimiters and maximal runs of other characters -/
def lexRuns (wkt : Bool) : List Char → List Char → List Tok → List Tok
  | [], run, acc => (if run.isEmpty then acc else mk run :: acc).reverse
  | c :: rest, run, acc =>
    if isDelim wkt c then
      lexRuns wkt rest [] (delimTok wkt c :: (if run.isEmpty then acc else mk run :: acc))
    else if wkt && c == ';' then
      lexRuns wkt rest [] (mk (c :: run) :: acc)
    else lexRuns wkt rest (c :: run) acc
where
  mk (run : List Char) : Tok :=
    let s := String.ofList run.reverse
    match run.reverse with
    | c :: _ => if 'A' ≤ c ∧ c ≤ 'Z' then .kw s else .num s
    | [] => .kw s

def lexWkt (s : String) : List Tok := lexRuns true s.toList [] []

def lexGeoJson (s : String) : Option (List Tok) :=
  let marker := "\"coordinates\":"
  match s.splitOn marker with
  | [a, b] => some (.kw (a ++ marker) :: lexRuns false b.toList [] [])
  | _ => none

/-! canonical dump -/
def dumpRing {P : Type} (f : P → String) (r : List P) : String :=
  if r.isEmpty then "~" else ",".intercalate (r.map f)

def dumpPoly {P : Type} (f : P → String) (p : Poly P) : String :=
  ";".intercalate (p.rings.map (dumpRing f))

def dumpGeom {P : Type} (f : P → String) : Geom P → String
  | .point p => "point " ++ f p
  | .linestring ps => "linestring " ++ dumpRing f ps
  | .polygon p => "polygon " ++ dumpPoly f p
  | .multipolygon ps => "multipolygon " ++ (if ps.isEmpty then "~~" else "|".intercalate (ps.map (dumpPoly f)))

def dumpLoc (l : Location) : String := s!"{l.x}:{l.y}"
def dumpW (p : WPoint) : String := hex p.1.bytes ++ ":" ++ hex p.2.bytes
def dumpT (p : TPoint) : String := hexOfStr p.1 ++ ":" ++ hexOfStr p.2

def variantOf (s : String) : Option Variant :=
  if s == "c" then some .beforeFix else if s == "r" then some .fixed else none

def asciiBytes (s : String) : List UInt8 := s.toList.map fun c => UInt8.ofNat c.toNat

def runEmit (v : Variant) (fmt : String) (obj : Obj) (o : Opts) (srid : Nat) (table : List DP) : Option String :=
  let proj := mkProj table
  let fin (r : Except Err (List UInt8)) : String :=
    match r with
    | .ok bs => "ok " ++ hex bs
    | .error e => errStr e
  let wkb (ewkb hx : Bool) : String :=
    fin (Factory.create (Wkb.impl (fun (p : DP) => p.bits) ⟨srid, ewkb, hx⟩) v proj obj o)
  match fmt with
  | "wkb" => some (wkb false false)
  | "ewkb" => some (wkb true false)
  | "wkbhex" => some (wkb false true)
  | "ewkbhex" => some (wkb true true)
  | "wkt" => some (fin ((Factory.create (Wkt.impl (fun (p : DP) => p.txt) ⟨none⟩) v proj obj o).map
                (fun ts => asciiBytes (render true ts))))
  | "ewkt" => some (fin ((Factory.create (Wkt.impl (fun (p : DP) => p.txt) ⟨some s!"SRID={srid};"⟩) v proj obj o).map
                (fun ts => asciiBytes (render true ts))))
  | "geojson" => some (fin ((Factory.create (GeoJson.impl (fun (p : DP) => p.txt)) v proj obj o).map
                (fun ts => asciiBytes (render false ts))))
  | _ => none

def runDec (fmt : String) (bs : List UInt8) : String :=
  let str := String.ofList (bs.map fun b => Char.ofNat b.toNat)
  let wkb (hx : Bool) : String :=
    match Wkb.parse hx bs with
    | some (srid, g) => "ok " ++ (match srid with | some n => toString n | none => "-") ++ " " ++ dumpGeom dumpW g
    | none => "bad"
  match fmt with
  | "wkb" | "ewkb" => wkb false
  | "wkbhex" | "ewkbhex" => wkb true
  | "wkt" | "ewkt" =>
    let toks := lexWkt str
    if render true toks != str then "bad-lex" else
    match Wkt.parse toks with
    | some (pre, g) => "ok " ++ (match pre with | some s => s | none => "-") ++ " " ++ dumpGeom dumpT g
    | none => "bad"
  | "geojson" =>
    match lexGeoJson str with
    | none => "bad-lex"
    | some toks =>
      if render false toks != str then "bad-lex" else
      match GeoJson.parse toks with
      | some g => "ok - " ++ dumpGeom dumpT g
      | none => "bad"
  | _ => "bad-op"

def step (line : String) : String :=
  match words line with
  | "emit" :: v :: fmt :: kind :: un :: dir :: srid :: _prec :: items =>
    match variantOf v, srid.toNat?, parseObj kind items with
    | some v, some srid, some (obj, table) =>
      (runEmit v fmt obj ⟨un == "u", dir == "b"⟩ srid table).getD "bad-op"
    | _, _, _ => "bad-op"
  | "spec" :: kind :: un :: dir :: items =>
    match parseObj kind items with
    | some (obj, _) =>
      match geomOf projLoc obj ⟨un == "u", dir == "b"⟩ with
      | .ok g => "ok " ++ dumpGeom dumpLoc g
      | .error e => errStr e
    | none => "bad-op"
  | ["dec", fmt, h] =>
    match unhex h with
    | some bs => runDec fmt bs
    | none => "bad-op"
  | ["d2s", v, _bits, _prec, h] =>
    match variantOf v, strOfHex h with
    | some v, some full =>
      match double2string v full.toList with
      | .ok r => "ok " ++ hexOfStr (String.ofList r)
      | .error .overread => "ub overread"
      | .error .underread => "ub underread"
    | _, _ => "bad-op"
  | _ => "bad-op"

def main : IO Unit := loopPure step
