/- Model driver for C17 (stub: not built yet). -/
import Driver.Common

def main : IO Unit := pure ()
