/-
Model driver for C12 (same op lines as harness/c12.cpp).

  m <impl> <tok>...      one index, tokens executed in order, one output token per g/Q/d/DL/DA/R
     impl: dense_mem_array dense_mmap_array dense_file_array[:f] sparse_mem_array sparse_mmap_array
           sparse_file_array[:f] sparse_mem_map flex_mem@<min_dense_entries>
     s<id>:<x>:<y>                 set
     G<n>:<a>:<b>:<base>:<stride>  n sets, id_i = base + ((a*i+b) mod n)*stride, value = genLoc id i
     S                             sort
     g<id>                         get + get_noexcept  -> x:y | nf | <get>!<noexcept>
     Q<n>:<start>:<step>           n lookups           -> q<found>:<hash>
     d                             FlexMem::is_dense   -> D1 | D0 | D-
     DL / DA                       dump_as_list / dump_as_array to a file, then continue on
                                   sparse_file_array / dense_file_array opened on that file
                                   -> dl<records>:<hash> | dlerr,  da<records>:<hash> | daerr
     R                             close and reopen the named file (":f" impls) -> r
  w <implPos> <implNeg|dummy> <ignore_errors 0|1> <tok>...   NodeLocationsForWays
     n<id>:<x>:<y>                 handler.node()
     w<ref>[@<x>:<y>],<ref>,...    a NEW way object (the k-th of the line, k = 0,1,..) whose node refs carry the
                                   given locations (none = undefined) is passed to handler.way()
                                   -> <ref>=<x>:<y>,<ref>=-,...[!]   ("-" undefined, "!" not_found thrown, "." no refs)
     W<k>                          the k-th way object, as the handler left it, is passed to handler.way() again
     I                             handler.ignore_errors()
     C                             handler.clear()
     X                             handler and indexes destroyed, new ones of the same types constructed
                                   (ignore_errors as it was); the way objects live on
-/
import Osmium.Model.IndexMap
import Osmium.Generated.C12Constants
import Driver.Common

open Osmium.IndexMap Driver
open Osmium.Generated

def locE : Loc := ⟨C12.locEmpty.1, C12.locEmpty.2⟩
def locVInit : Loc := ⟨C12.locValueInit.1, C12.locValueInit.2⟩
def pairE : Nat × Loc := (C12.pairEmpty.1, ⟨C12.pairEmpty.2.1, C12.pairEmpty.2.2⟩)
def inc : Nat := C12.mmapSizeIncrement
def bufSize : Nat := C12.dumpBufferBytes / C12.sizeofLocation

/-- Linux: fresh pages of a mapping / a grown file read as zero bytes -/
def osGrowLoc : Grow Loc := fun a n => a ++ Array.replicate (n - a.size) ⟨0, 0⟩
def osGrowPair : Grow (Nat × Loc) := fun a n => a ++ Array.replicate (n - a.size) (0, ⟨0, 0⟩)

def iDenseMem : Impl Loc := denseImpl locVInit locE
def iDenseMmap : Impl Loc := mdenseImpl osGrowLoc inc locE
def iSparseMem : Impl Loc := sparseImpl bufSize locE
def iSparseMmap : Impl Loc := msparseImpl osGrowPair inc bufSize locE pairE
def iSparseMap : Impl Loc := stdMapImpl locE
def iFlexMem (minDense : Nat) : Impl Loc :=
  flexImpl ⟨C12.flexBits, minDense, C12.flexDensityFactor⟩ locE

/-- the index under test: one constructor per implementation class -/
inductive St where
  | denseMem (a : Array Loc)
  | denseMmap (file : Bool) (mv : MmapVec Loc)
  | sparseMem (a : Array (Nat × Loc))
  | sparseMmap (file : Bool) (mv : MmapVec (Nat × Loc))
  | sparseMap (t : Std.TreeMap Nat Loc compare)
  | flex (minDense : Nat) (s : Flex Loc)
  | dummy

def mkSt (name : String) : Option St :=
  match name.splitOn "@" with
  | ["flex_mem", t] => t.toNat?.map fun n => .flex n (iFlexMem n).init
  | [n] =>
    match n with
    | "dense_mem_array" => some (.denseMem iDenseMem.init)
    | "dense_mmap_array" => some (.denseMmap false iDenseMmap.init)
    | "dense_file_array" => some (.denseMmap false iDenseMmap.init)
    | "dense_file_array:f" => some (.denseMmap true iDenseMmap.init)
    | "sparse_mem_array" => some (.sparseMem iSparseMem.init)
    | "sparse_mmap_array" => some (.sparseMmap false iSparseMmap.init)
    | "sparse_file_array" => some (.sparseMmap false iSparseMmap.init)
    | "sparse_file_array:f" => some (.sparseMmap true iSparseMmap.init)
    | "sparse_mem_map" => some (.sparseMap iSparseMap.init)
    | "dummy" => some .dummy
    | _ => none
  | _ => none

def St.set : St → Nat → Loc → St
  | .denseMem a, id, v => .denseMem (iDenseMem.set a id v)
  | .denseMmap f mv, id, v => .denseMmap f (iDenseMmap.set mv id v)
  | .sparseMem a, id, v => .sparseMem (iSparseMem.set a id v)
  | .sparseMmap f mv, id, v => .sparseMmap f (iSparseMmap.set mv id v)
  | .sparseMap t, id, v => .sparseMap (iSparseMap.set t id v)
  | .flex n s, id, v => .flex n ((iFlexMem n).set s id v)
  | .dummy, _, _ => .dummy

def St.sort : St → St
  | .denseMem a => .denseMem (iDenseMem.sort a)
  | .denseMmap f mv => .denseMmap f (iDenseMmap.sort mv)
  | .sparseMem a => .sparseMem (iSparseMem.sort a)
  | .sparseMmap f mv => .sparseMmap f (iSparseMmap.sort mv)
  | .sparseMap t => .sparseMap (iSparseMap.sort t)
  | .flex n s => .flex n ((iFlexMem n).sort s)
  | .dummy => .dummy

def St.get : St → Nat → Option Loc
  | .denseMem a, id => iDenseMem.get a id
  | .denseMmap _ mv, id => iDenseMmap.get mv id
  | .sparseMem a, id => iSparseMem.get a id
  | .sparseMmap _ mv, id => iSparseMmap.get mv id
  | .sparseMap t, id => iSparseMap.get t id
  | .flex n s, id => (iFlexMem n).get s id
  | .dummy, _ => none

def St.getNoexcept : St → Nat → Loc
  | .denseMem a, id => iDenseMem.getNoexcept a id
  | .denseMmap _ mv, id => iDenseMmap.getNoexcept mv id
  | .sparseMem a, id => iSparseMem.getNoexcept a id
  | .sparseMmap _ mv, id => iSparseMmap.getNoexcept mv id
  | .sparseMap t, id => iSparseMap.getNoexcept t id
  | .flex n s, id => (iFlexMem n).getNoexcept s id
  | .dummy, _ => locE

def St.clear : St → St
  | .denseMem a => .denseMem (iDenseMem.clear a)
  | .denseMmap f mv => .denseMmap f (iDenseMmap.clear mv)
  | .sparseMem a => .sparseMem (iSparseMem.clear a)
  | .sparseMmap f mv => .sparseMmap f (iSparseMmap.clear mv)
  | .sparseMap t => .sparseMap (iSparseMap.clear t)
  | .flex n s => .flex n ((iFlexMem n).clear s)
  | .dummy => .dummy

def St.dumpAsList : St → Option (Array (Nat × Loc))
  | .denseMem a => iDenseMem.dumpAsList a
  | .denseMmap _ mv => iDenseMmap.dumpAsList mv
  | .sparseMem a => iSparseMem.dumpAsList a
  | .sparseMmap _ mv => iSparseMmap.dumpAsList mv
  | .sparseMap t => iSparseMap.dumpAsList t
  | .flex n s => (iFlexMem n).dumpAsList s
  | .dummy => none

def St.dumpAsArray : St → Option (Array Loc)
  | .denseMem a => iDenseMem.dumpAsArray a
  | .denseMmap _ mv => iDenseMmap.dumpAsArray mv
  | .sparseMem a => iSparseMem.dumpAsArray a
  | .sparseMmap _ mv => iSparseMmap.dumpAsArray mv
  | .sparseMap t => iSparseMap.dumpAsArray t
  | .flex n s => (iFlexMem n).dumpAsArray s
  | .dummy => none

/-- all implementations behind one `Impl` (for the NodeLocationsForWays model) -/
def anyImpl : Impl Loc where
  M := St
  init := .dummy
  set := St.set
  sort := St.sort
  get := St.get
  getNoexcept := St.getNoexcept
  dumpAsList := St.dumpAsList
  dumpAsArray := St.dumpAsArray
  clear := St.clear

def locTok (l : Loc) : String := s!"{l.x}:{l.y}"

/-- value of the generator tokens (same formula in harness/c12.cpp and tools/props/c12.py) -/
def genLoc (id i : Nat) : Loc :=
  ⟨Int.ofNat ((id * 7919 + i) % 3600000001) - 1800000000, Int.ofNat (i % 1800000001) - 900000000⟩

/-- the 8 bytes of a Location read as a little-endian uint64 -/
def locWord (l : Loc) : UInt64 :=
  UInt64.ofNat ((l.x % 4294967296).toNat + (l.y % 4294967296).toNat * 4294967296)

def hstep (h w : UInt64) : UInt64 := (h ^^^ w) * 1099511628211
def h0 : UInt64 := 14695981039346656037

def fields (s : String) : List String := (s.drop 1).toString.splitOn ":"

def parseSet (tok : String) : Option (Int × Loc) :=
  match fields tok with
  | [i, x, y] => do
    let i ← i.toInt?
    let x ← x.toInt?
    let y ← y.toInt?
    some (i, ⟨x, y⟩)
  | _ => none

def nats (tok : String) : Option (List Nat) := (fields tok).mapM String.toNat?

def genLoop (n a b base stride : Nat) : Nat → St → St
  | 0, m => m
  | k + 1, m =>
    let i := n - (k + 1)
    let id := base + ((a * i + b) % n) * stride
    genLoop n a b base stride k (m.set id (genLoc id i))

/-- `Q`: `get_noexcept` for every probe id; "found" = the result is not the empty value -/
def probeLoop (m : St) (start step : Nat) : Nat → Nat → Nat → UInt64 → Nat × UInt64
  | 0, _, found, h => (found, h)
  | k + 1, i, found, h =>
    let l := m.getNoexcept (start + i * step)
    if l = locE then probeLoop m start step k (i + 1) found (hstep h 0)
    else probeLoop m start step k (i + 1) (found + 1) (hstep (hstep h 1) (locWord l))

def getTok (m : St) (id : Nat) : String :=
  let ne := m.getNoexcept id
  match m.get id with
  | some l => if ne = l then locTok l else locTok l ++ "!" ++ locTok ne
  | none => if ne = locE then "nf" else "nf!" ++ locTok ne

def hashList (a : Array (Nat × Loc)) : UInt64 :=
  a.foldl (fun h p => hstep (hstep h (UInt64.ofNat p.1)) (locWord p.2)) h0

def hashArray (a : Array Loc) : UInt64 := a.foldl (fun h l => hstep h (locWord l)) h0

def tokStep (c : St) (tok : String) : St × Option String :=
  let bad := (c, some "bad-tok")
  match tok.front with
  | 's' =>
    match parseSet tok with
    | some (i, l) => (c.set i.toNat l, none)
    | none => bad
  | 'G' =>
    match nats tok with
    | some [n, a, b, base, stride] => (genLoop n a b base stride n c, none)
    | _ => bad
  | 'S' => (c.sort, none)
  | 'g' =>
    match nats tok with
    | some [i] => (c, some (getTok c i))
    | _ => bad
  | 'Q' =>
    match nats tok with
    | some [n, start, step] =>
      let r := probeLoop c start step n 0 0 h0
      (c, some s!"q{r.1}:{r.2}")
    | _ => bad
  | 'd' =>
    match c with
    | .flex _ s => (c, some (if s.dense then "D1" else "D0"))
    | _ => (c, some "D-")
  | 'D' =>
    if tok == "DL" then
      match c.dumpAsList with
      | some recs =>
        (.sparseMmap true (MmapVec.load osGrowPair inc pairE recs), some s!"dl{recs.size}:{hashList recs}")
      | none => (c, some "dlerr")
    else if tok == "DA" then
      match c.dumpAsArray with
      | some recs =>
        (.denseMmap true (MmapVec.load osGrowLoc inc locE recs), some s!"da{recs.size}:{hashArray recs}")
      | none => (c, some "daerr")
    else bad
  | 'R' =>
    match c with
    | .denseMmap true mv => (.denseMmap true (MmapVec.load osGrowLoc inc locE mv.data), some "r")
    | .sparseMmap true mv => (.sparseMmap true (MmapVec.load osGrowPair inc pairE mv.data), some "r")
    | _ => bad
  | _ => bad

def runToks (c : St) (toks : List String) : List String :=
  let rec go (c : St) (toks : List String) (acc : Array String) : Array String :=
    match toks with
    | [] => acc
    | t :: rest =>
      let r := tokStep c t
      go r.1 rest (match r.2 with | some o => acc.push o | none => acc)
  (go c toks #[]).toList

/-! NodeLocationsForWays -/

def wayTok (r : List (NRef Loc) × Bool) : String :=
  let body := if r.1.isEmpty then "." else
    ",".intercalate (r.1.map fun p => s!"{p.1}=" ++ (if p.2 = locE then "-" else locTok p.2))
  if r.2 then body ++ "!" else body

/-- `<ref>` or `<ref>@<x>:<y>` -/
def parseRef (t : String) : Option (NRef Loc) :=
  match t.splitOn "@" with
  | [r] => r.toInt?.map fun r => (r, locE)
  | [r, l] =>
    match l.splitOn ":" with
    | [x, y] => do
      let r ← r.toInt?
      let x ← x.toInt?
      let y ← y.toInt?
      some (r, ⟨x, y⟩)
    | _ => none
  | _ => none

def parseEv (tok : String) : Option (Ev Loc) :=
  match tok.front with
  | 'n' => (parseSet tok).map fun p => .node p.1 p.2
  | 'w' =>
    let body := (tok.drop 1).toString
    if body.isEmpty then some (.way [])
    else ((body.splitOn ",").mapM parseRef).map .way
  | 'W' => (tok.drop 1).toString.toNat?.map .again
  | 'I' => if tok == "I" then some .ignoreErrors else none
  | 'C' => if tok == "C" then some .clear else none
  | 'X' => if tok == "X" then some .fresh else none
  | _ => none

def step (line : String) : String :=
  match words line with
  | "m" :: impl :: toks =>
    match mkSt impl with
    | some c => " ".intercalate ("ok" :: runToks c toks)
    | none => "bad-impl"
  | "w" :: ip :: ineg :: ign :: toks =>
    match mkSt ip, mkSt ineg, toks.mapM parseEv with
    | some p, some n, some evs =>
      let s : NLFW anyImpl anyImpl := { pos := p, neg := n, ignoreErrors := ign == "1" }
      " ".intercalate ("ok" :: (NLFW.run Loc.ok s { h := s } evs).2.map wayTok)
    | _, _, _ => "bad-op"
  | _ => "bad-op"

def main : IO Unit := loopPure step
