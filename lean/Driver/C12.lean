/- Model driver for C12 (stub: not built yet). -/
import Driver.Common

def main : IO Unit := pure ()
