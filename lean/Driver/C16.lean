/-
Model driver for C16.  Ops:
  cmp t1 id1 v1 ts1 vis1 t2 id2 v2 ts2 vis2  -> "lt nots rev eq eqti idorder gt le ge ne" (each 0/1)
  chk k:id k:id ...  (k in n,w,r)             -> "1" if accepted else "0"
-/
import Osmium.Model.Order
import Driver.Common

open Osmium.Order Driver

def parseObj : List String → Option (Obj × List String)
  | t :: id :: v :: ts :: vis :: rest => do
    let t ← t.toNat?
    let id ← id.toInt?
    let v ← v.toNat?
    let ts ← ts.toNat?
    some (⟨t, id, v, ts, vis == "1"⟩, rest)
  | _ => none

def parseElem (s : String) : Option (Kind × Int) :=
  match s.splitOn ":" with
  | [k, id] => do
    let id ← id.toInt?
    match k with
    | "n" => some (.node, id)
    | "w" => some (.way, id)
    | "r" => some (.relation, id)
    | _ => none
  | _ => none

def step (line : String) : String :=
  match words line with
  | "cmp" :: rest =>
    match parseObj rest with
    | some (a, rest') =>
      match parseObj rest' with
      | some (b, []) =>
        " ".intercalate [b01 (objLt a b), b01 (objLtNoTs a b), b01 (objLtRev a b),
          b01 (objEq a b), b01 (objEqTypeId a b), b01 (idOrder a.id b.id),
          b01 (objGt a b), b01 (objLe a b), b01 (objGe a b), b01 (objNe a b)]
      | _ => "bad-op"
    | none => "bad-op"
  | "chk" :: rest =>
    match rest.mapM parseElem with
    | some xs => b01 (accepts xs)
    | none => "bad-op"
  | _ => "bad-op"

def main : IO Unit := loopPure step
