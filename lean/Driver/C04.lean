/-
Model driver for C04.  Protocol: see the header comment of harness/c04.cpp — this driver must
print exactly what the harness prints for the same lines.
-/
import Osmium.Model.Buf
import Driver.Common

open Osmium.Layout Osmium.Buf Driver

structure DState where
  st : Option St := none

def statusStr : Status → String
  | .ok => "ok" | .full => "buffer_is_full" | .badOp => "bad-op" | .stale => "stale_pointer"
  | .null => "null_deref" | .misaligned => "misaligned" | .terminate => "terminate"

def nums (b : Buf) : String :=
  s!"{b.cap} {b.written} {b.committed} {if b.nested.isEmpty then 0 else 1}"

def outLine (s : St) (st : Status) (payload : Option String := none) : String :=
  statusStr st ++ " " ++ nums s.b0 ++ (match payload with | some p => " | " ++ p | none => "")

def parseMode : String → Option Mode
  | "no" => some .no | "yes" => some .yes | "internal" => some .internal | _ => none

def parseKind : String → Option Kind
  | "node" => some .node | "way" => some .way | "relation" => some .relation | "area" => some .area
  | "changeset" => some .changeset | "taglist" => some .taglist | "wnl" => some .wnl
  | "outer" => some .outer | "inner" => some .inner | "rml" => some .rml | "disc" => some .disc
  | _ => none

def topKind (s : St) : Option Kind := s.stack.head?.map (·.kind)

/-- `set <field> <args>` → model ops, depending on the kind of the open builder -/
def setOps (k : Kind) (field : String) (args : List Int) : Option (List Op) :=
  if !k.isObj then none else
  if k == .changeset then
    match field, args with
    | "id", [v] => some [.setField 32 4 v]
    | "uid", [v] => some [.setField 44 4 v]
    | "created", [v] => some [.setField 24 4 v]
    | "closed", [v] => some [.setField 28 4 v]
    | "nchanges", [v] => some [.setField 36 4 v]
    | "ncomments", [v] => some [.setField 40 4 v]
    | "removed", [v] => some [.setRemoved (v != 0)]
    | "bounds", [a, b, c, d] => some [.setField 8 4 a, .setField 12 4 b, .setField 16 4 c, .setField 20 4 d]
    | _, _ => none
  else
    match field, args with
    | "id", [v] => some [.setField 8 8 v]
    | "version", [v] => some [.setVersion v.toNat]
    | "deleted", [v] => some [.setDeleted (v != 0)]
    | "ts", [v] => some [.setField 20 4 v]
    | "uid", [v] => some [.setField 24 4 v]
    | "cs", [v] => some [.setField 28 4 v]
    | "removed", [v] => some [.setRemoved (v != 0)]
    | "loc", [x, y] => if k == .node then some [.setField 32 4 x, .setField 36 4 y] else none
    | _, _ => none

/-- run several ops; stop at the first that is not ok -/
def runOps (s : St) : List Op → St × Status
  | [] => (s, .ok)
  | op :: ops =>
    let (s', st, _) := step s op
    if st == .ok then runOps s' ops else (s', st)

def cbsStr (cbs : List (Nat × Nat)) : String :=
  if cbs.isEmpty then "-" else ",".intercalate (cbs.map fun (a, b) => s!"{a}>{b}")

def treeOf (b : Bytes) : String := printDecoded (decodeAll b)

def undefCoord : Int := 2147483647

/-- parse n groups of `k` words -/
def groups (k : Nat) : Nat → List String → Option (List (List String))
  | 0, [] => some []
  | 0, _ => none
  | n + 1, ws => if ws.length < k then none else do
      let rest ← groups k n (ws.drop k)
      pure (ws.take k :: rest)

def attrOps : List String → Option (List Op)
  | "attr_node" :: id :: ver :: user :: n :: rest => do
    let id ← id.toInt?; let ver ← ver.toNat?; let user ← unhex user; let n ← n.toNat?
    let gs ← groups 2 n rest
    let tags ← gs.mapM fun g => do
      let k ← unhex (g.getD 0 ""); let v ← unhex (g.getD 1 ""); pure (Op.tag k v)
    pure ([.open .node, .setField 8 8 id, .setVersion ver, .user user, .open .taglist] ++ tags ++ [.close, .close])
  | "attr_way" :: id :: user :: n :: rest => do
    let id ← id.toInt?; let user ← unhex user; let n ← n.toNat?
    if rest.length ≠ n then none
    let refs ← rest.mapM (·.toInt?)
    pure ([.open .way, .setField 8 8 id, .user user, .open .wnl] ++ refs.map (fun r => Op.nodeRef r undefCoord undefCoord) ++ [.close, .close])
  | "attr_relation" :: id :: user :: n :: rest => do
    let id ← id.toInt?; let user ← unhex user; let n ← n.toNat?
    let gs ← groups 3 n rest
    let ms ← gs.mapM fun g => do
      let ty ← (g.getD 0 "").toNat?; let ref ← (g.getD 1 "").toInt?; let role ← unhex (g.getD 2 "")
      pure (Op.member ty ref role none)
    pure ([.open .relation, .setField 8 8 id, .user user, .open .rml] ++ ms ++ [.close, .close])
  | "attr_changeset" :: id :: user :: n :: rest => do
    let id ← id.toInt?; let user ← unhex user; let n ← n.toNat?
    let gs ← groups 4 n rest
    let cs ← gs.mapM fun g => do
      let date ← (g.getD 0 "").toNat?; let uid ← (g.getD 1 "").toNat?
      let u ← unhex (g.getD 2 ""); let t ← unhex (g.getD 3 "")
      pure [Op.comment date uid u, Op.commentText t]
    pure ([.open .changeset, .setField 32 4 id, .user user, .open .disc] ++ cs.flatten ++ [.close, .close])
  | _ => none

def stepLine (d : DState) (line : String) : DState × String :=
  let ws := words line
  match ws with
  | ["init", c0, m0, c1, m1, fill, fix] =>
    match c0.toNat?, parseMode m0, c1.toNat?, parseMode m1, fill.toNat? with
    | some c0, some m0, some c1, some m1, some fill =>
      let s := St.init c0 m0 c1 m1 (UInt8.ofNat fill) (fix == "1")
      ({ st := some s }, outLine s .ok)
    | _, _, _, _, _ => (d, "bad-op 0 0 0 0")
  | _ =>
  match d.st with
  | none => (d, "bad-op 0 0 0 0")
  | some s =>
    let fin (r : St × Status) (payload : Option String := none) : DState × String :=
      ({ st := some r.1 }, outLine r.1 r.2 (if r.2 == .ok then payload else none))
    let one (op : Op) (payload : Option String := none) : DState × String :=
      let (s', st, _) := step s op
      fin (s', st) payload
    let badop : DState × String := (d, outLine s (match s.dead with | some e => Status.ofErr e | none => .badOp))
    match ws with
    | [k] =>
      match parseKind k with
      | some kind => one (.open kind)
      | none =>
        match k with
        | "end" => one .close
        | "commit" => one .commit (some (toString s.b0.committed))
        | "rollback" => one .rollback
        | "clear" => one .clear (some (toString s.b0.committed))
        | "add_buffer" => one .addBuffer
        | "swap" => one .swap
        | "move" => one .move (some "0 0 0 0")
        | "purge" =>
          let (s', st, cbs) := step s .purge
          fin (s', st) (some (cbsStr cbs))
        | "purge0" => one .purge
        | "nested" =>
          if s.dead.isSome ∨ !s.b0.valid then badop else
          match s.b0.nested.getLast? with
          | none => fin (s, .ok) (some "none")
          | some nb => one .popNested (some (treeOf nb.bytes ++ " | " ++ Driver.hex nb.bytes))
        | "dump" =>
          if s.dead.isSome then badop else fin (s, .ok) (some (treeOf s.b0.comm ++ " | " ++ Driver.hex s.b0.comm))
        | "hexdump" =>
          if s.dead.isSome then badop else fin (s, .ok) (some (Driver.hex s.b0.comm))
        | "dumpall" =>
          if s.dead.isSome ∨ !s.b0.valid then badop else
          -- each buffer is decoded on its own (that is what the harness can do), printed as one sequence
          let parts := (s.b0.nested.reverse.map (·.bytes)) ++ [s.b0.comm]
          let strs := (parts.map treeOf).filter (· ≠ "-")
          let s' := { s with b0 := { s.b0 with nested := [] } }
          fin (s', .ok) (some (if strs.isEmpty then "-" else " ".intercalate strs))
        | _ => badop
    | "set" :: field :: args =>
      match topKind s, args.mapM (·.toInt?) with
      | some k, some args =>
        match setOps k field args with
        | some ops => if s.dead.isSome then badop else fin (runOps s ops)
        | none => badop
      | _, _ => badop
    | ["user", u] => match unhex u with | some u => one (.user u) | none => badop
    | ["tag", k, v] | ["tags", k, v] =>
      match unhex k, unhex v with | some k, some v => one (.tag k v) | _, _ => badop
    | ["nr", r, x, y] =>
      match r.toInt?, x.toInt?, y.toInt? with
      | some r, some x, some y => one (.nodeRef r x y) | _, _, _ => badop
    | ["member", t, r, role] =>
      match t.toNat?, r.toInt?, unhex role with
      | some t, some r, some role => one (.member t r role none) | _, _, _ => badop
    | ["memberf", t, r, role, k] =>
      match t.toNat?, r.toInt?, unhex role, k.toNat? with
      | some t, some r, some role, some k => one (.member t r role (some k)) | _, _, _, _ => badop
    | ["comment", date, uid, u] =>
      match date.toNat?, uid.toNat?, unhex u with
      | some date, some uid, some u => one (.comment date uid u) | _, _, _ => badop
    | ["ctext", t] => match unhex t with | some t => one (.commentText t) | none => badop
    | ["push_back", k] => match k.toNat? with | some k => one (.pushBack k) | none => badop
    | ["setrm", k, v] =>
      match k.toNat?, v.toNat? with | some k, some v => one (.setRm k (v != 0)) | _, _ => badop
    | _ =>
      match attrOps ws with
      | some ops =>
        if !s.stack.isEmpty ∨ s.dead.isSome then badop else
        let (s', st) := runOps s ops
        if st == .ok then
          let off := s'.b0.committed
          let (s'', st', _) := step s' .commit
          fin (s'', st') (some (toString off))
        else fin (s', st)
      | none => badop

def main : IO Unit := loop stepLine {}
