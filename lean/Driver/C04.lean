/- Model driver for C04 (stub: not built yet). -/
import Driver.Common

def main : IO Unit := pure ()
