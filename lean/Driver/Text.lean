/-
Model driver for the text formats (OPL + XML parts of C01 / C02).  Same op lines as
harness/text.cpp (object sequences in the canonical dump syntax, "/" between objects):

  wr <fmt> <opts> / obj / obj ...    model writer  -> "ok <hex>" | "err:<class>"
  rd <fmt> <opts> <hex>              model reader  -> "ok <hdr> | <obj> | ..." | "err:<class>"
  render <fmt> <choices> / obj ...   specification renderer (C02) -> "ok <hex>"
  events <hex>                       the tiny tokenizer -> event dump like the harness' `expat` op
  markup <opts> / obj ...            events of the writer's markup (ExpatContract side) -> same dump
-/
import Driver.Common
import Osmium.Model.OplFmt
import Osmium.Model.XmlFmt
import Osmium.Model.HostileText

open Osmium Osmium.Osm Osmium.TextFmt

namespace TextDriver

def splitOn (s : String) (c : String) : List String := s.splitOn c

def int? (s : String) : Option Int := s.toInt?
def nat? (s : String) : Option Nat := s.toNat?

def loc? (s : String) : Option Location :=
  match splitOn s "," with
  | [a, b] => do let x ← int? a; let y ← int? b; pure ⟨x, y⟩
  | _ => none

def box? (s : String) : Option (Location × Location) :=
  match splitOn s ";" with
  | [a, b] => do let x ← loc? a; let y ← loc? b; pure (x, y)
  | _ => none

def dropFirst (s : String) : String := (s.drop 1).toString

def opts? (s : String) : Option Opts :=
  (splitOn s ",").foldlM (init := ({} : Opts)) fun o kv =>
    match splitOn kv "=" with
    | [k, v] => do
      let n ← nat? v
      if k == "md" then pure { o with md := MetaOpts.ofBits n }
      else if k == "low" then pure { o with locationsOnWays := n != 0 }
      else if k == "hist" then pure { o with history := n != 0 }
      else if k == "osc" then pure { o with changeOps := n != 0 }
      else if k == "fvf" then pure { o with forceVisible := n != 0 }
      else none
    | _ => none

/-- leading `T<hex>=<hex>` tokens -/
def tags? : List String → Option (List Tag × List String)
  | [] => some ([], [])
  | t :: ts =>
    if t.startsWith "T" then
      match splitOn (dropFirst t) "=" with
      | [k, v] => do
        let k ← Driver.unhex k
        let v ← Driver.unhex v
        let (r, rest) ← tags? ts
        pure (⟨k, v⟩ :: r, rest)
      | _ => none
    else some ([], t :: ts)

def meta? : List String → Option (Meta × List String)
  | id :: v :: vis :: t :: c :: u :: user :: rest => do
    let id ← int? id
    let v ← nat? (dropFirst v)
    let t ← nat? (dropFirst t)
    let c ← nat? (dropFirst c)
    let u ← nat? (dropFirst u)
    let user ← Driver.unhex user
    let (tags, rest) ← tags? rest
    pure ({ id := id, version := v, visible := vis == "V", timestamp := t, changeset := c, uid := u, user := user, tags := tags }, rest)
  | _ => none

def object? : List String → Option Object
  | "n" :: ts => do
    let (m, rest) ← meta? ts
    match rest with
    | [l] => do let l ← loc? (dropFirst l); pure (.node m l)
    | _ => none
  | "w" :: ts => do
    let (m, rest) ← meta? ts
    let ns ← rest.mapM fun t =>
      match splitOn (dropFirst t) "@" with
      | [r, l] => do let r ← int? r; let l ← loc? l; pure (⟨r, l⟩ : NodeRef)
      | _ => none
    pure (.way m ns)
  | "r" :: ts => do
    let (m, rest) ← meta? ts
    let ms ← rest.mapM fun t =>
      match splitOn (dropFirst t) ":" with
      | [ty, r, role] => do let ty ← nat? ty; let r ← int? r; let role ← Driver.unhex role; pure (⟨ty, r, role⟩ : Member)
      | _ => none
    pure (.relation m ms)
  | "c" :: id :: a :: z :: n :: m :: u :: user :: b :: rest => do
    let id ← nat? id
    let a ← nat? (dropFirst a)
    let z ← nat? (dropFirst z)
    let n ← nat? (dropFirst n)
    let m ← nat? (dropFirst m)
    let u ← int? (dropFirst u)
    let user ← Driver.unhex user
    let (bl, tr) ← box? (dropFirst b)
    let (tags, rest) ← tags? rest
    let cs ← rest.mapM fun t =>
      match splitOn (dropFirst t) ":" with
      | [d, uid, cu, tx] => do
        let d ← nat? d; let uid ← nat? uid; let cu ← Driver.unhex cu; let tx ← Driver.unhex tx
        pure (⟨d, uid, cu, tx⟩ : Comment)
      | _ => none
    pure (.changeset id a z n m u user bl tr tags cs)
  | _ => none

def header? : List String → Option Header
  | "h" :: g :: hs :: rest => do
    let g ← Driver.unhex g
    let bs ← rest.mapM fun t => box? (dropFirst t)
    pure { generator := g, boxes := bs, multipleVersions := hs == "H" }
  | _ => none

/-- split at "/" tokens -/
def groups (ws : List String) : List (List String) :=
  let rec go : List String → List String → List (List String) → List (List String)
    | [], cur, acc => (if cur.isEmpty then acc else cur.reverse :: acc).reverse
    | w :: ws, cur, acc =>
      if w == "/" then go ws [] (if cur.isEmpty then acc else cur.reverse :: acc) else go ws (w :: cur) acc
  go ws [] []

/-- optional header followed by objects -/
def input? (ws : List String) : Option (Header × List Object) :=
  match groups ws with
  | g :: gs =>
    if g.head? == some "h" then do
      let h ← header? g
      let os ← gs.mapM object?
      pure (h, os)
    else do
      let os ← (g :: gs).mapM object?
      pure ({}, os)
  | [] => some ({}, [])

def natList (s : String) : List Nat :=
  if s == "-" then [] else (splitOn s ".").filterMap nat?

def kvs (s : String) : List (String × String) :=
  (splitOn s ",").filterMap fun kv => match splitOn kv "=" with | [k, v] => some (k, v) | _ => none

def oplChoices (s : String) : OplFmt.OplSpec.Choices :=
  (kvs s).foldl (init := {}) fun c (k, v) =>
    if k == "order" then { c with order := natList v }
    else if k == "seps" then { c with seps := natList v }
    else if k == "omit" then { c with omitDefaults := v != "0" }
    else if k == "esc" then { c with escapeMode := (nat? v).getD 0 }
    else if k == "pad" then { c with padCoords := v != "0" }
    else if k == "end" then { c with endings := natList v }
    else if k == "junk" then { c with junk := natList v }
    else if k == "nofinal" then { c with noFinalEnding := v != "0" }
    else c

def xmlChoices (s : String) : XmlFmt.XmlSpec.Choices :=
  (kvs s).foldl (init := {}) fun c (k, v) =>
    if k == "order" then { c with attrOrder := natList v }
    else if k == "quotes" then { c with quotes := natList v }
    else if k == "esc" then { c with escMode := (nat? v).getD 0 }
    else if k == "ws" then { c with wsMode := (nat? v).getD 0 }
    else if k == "expand" then { c with expandEmpty := v != "0" }
    else if k == "omit" then { c with omitDefaults := v != "0" }
    else if k == "decl" then { c with declMode := (nat? v).getD 0 }
    else if k == "eqsp" then { c with eqSpaces := v != "0" }
    else if k == "vis" then { c with visibleAttr := v != "0" }
    else if k == "tagsfirst" then { c with tagsFirst := v != "0" }
    else if k == "osc" then { c with osc := v != "0" }
    else c

def werr : WErr → String
  | .intMin => "err:int-min"
  | .utf8 => "err:utf8"
  | .invalidLocation => "err:invalid_location"

def oplErr : OplFmt.PErr → String
  | .opl => "err:opl_error"
  | .location => "err:invalid_location"
  | .length => "err:length_error"
  | .fuel => "err:model-fuel"

def xmlErr : XmlFmt.XErr → String
  | .xml => "err:xml_error"
  | .formatVersion => "err:format_version_error"
  | .range => "err:range_error"
  | .invalidArgument => "err:invalid_argument"
  | .location => "err:invalid_location"
  | .length => "err:length_error"

def dumpAttrs (as : List (String × Bytes)) : String :=
  ",".intercalate (as.map fun a => Driver.hex (XmlFmt.str a.1) ++ "=" ++ Driver.hex a.2)

/-- event dump in the syntax of the harness op `expat`; adjacent character data merged -/
def dumpEvents (evs : List XmlFmt.Ev) : String :=
  let rec go : List XmlFmt.Ev → Bytes → String
    | [], t => if t.isEmpty then "" else " X" ++ Driver.hex t
    | .chars c :: es, t => go es (t ++ c)
    | .start n as :: es, t => (if t.isEmpty then "" else " X" ++ Driver.hex t) ++ " S" ++ Driver.hex (XmlFmt.str n) ++ "(" ++ dumpAttrs as ++ ")" ++ go es []
    | .stop n :: es, t => (if t.isEmpty then "" else " X" ++ Driver.hex t) ++ " E" ++ Driver.hex (XmlFmt.str n) ++ go es []
  "ok" ++ go evs []

/-- drop character data outside the root element (not reported by a parser) -/
def trimEvents (evs : List XmlFmt.Ev) : List XmlFmt.Ev :=
  let isC : XmlFmt.Ev → Bool := fun e => match e with | .chars _ => true | _ => false
  ((evs.dropWhile isC).reverse.dropWhile isC).reverse

def dumpAll (h : Header) (os : List Object) : String :=
  "ok " ++ dumpHeader h ++ String.join (os.map fun o => " | " ++ dump o)

def step (line : String) : String :=
  match Driver.words line with
  | "wr" :: "opl" :: o :: rest =>
    match opts? o, input? rest with
    | some o, some (_, objs) =>
      match OplFmt.writeFile o objs with
      | .ok b => "ok " ++ Driver.hex b
      | .error e => werr e
    | _, _ => "bad-op"
  | ["rd", "opl", _, h] =>
    match Driver.unhex h with
    | some bs =>
      -- = OplFmt.parseFile {} bs (Props/C03Text.lean `opl_driver_lines_eq`), with linear-time line splitting
      match OplFmt.parseLines {} ((HostileText.specLinesFast bs).map fun l => HostileText.cstrFast l []) with
      | .ok os => dumpAll {} os
      | .error e => oplErr e
    | none => "bad-op"
  | "wr" :: "xml" :: o :: rest =>
    match opts? o, input? rest with
    | some o, some (h, objs) =>
      match XmlFmt.writeFile o h (if objs.isEmpty then [] else [objs]) with
      | .ok b => "ok " ++ Driver.hex b
      | .error e => werr e
    | _, _ => "bad-op"
  | ["rd", "xml", _, h] =>
    match Driver.unhex h with
    | some bs =>
      match XmlFmt.readFile XmlFmt.tokenize {} bs with
      | .ok (hd, os) => dumpAll hd os
      | .error e => xmlErr e
    | none => "bad-op"
  | "render" :: "opl" :: c :: rest =>
    match input? rest with
    | some (_, objs) => "ok " ++ Driver.hex (OplFmt.OplSpec.render (oplChoices c) objs)
    | none => "bad-op"
  | "render" :: "xml" :: c :: rest =>
    match input? rest with
    | some (h, objs) => "ok " ++ Driver.hex (XmlFmt.XmlSpec.render (xmlChoices c) h objs)
    | none => "bad-op"
  | ["events", h] =>
    match Driver.unhex h with
    | some bs =>
      match XmlFmt.tokenize bs with
      | some evs => dumpEvents evs
      | none => "err"
    | none => "bad-op"
  | "markup" :: o :: rest =>
    match opts? o, input? rest with
    | some o, some (h, objs) =>
      match XmlFmt.filePieces o h (if objs.isEmpty then [] else [objs]) with
      | .ok ps =>
        match XmlFmt.eventsOf ps with
        | some evs => dumpEvents (trimEvents evs)
        | none => "err"
      | .error e => werr e
    | _, _ => "bad-op"
  | _ => "bad-op"

end TextDriver

def main : IO Unit := Driver.loopPure TextDriver.step
