/-
Model driver for the o5m parts of C02/C03.  Ops (one per line):

  dec <assert 0|1> <readTypes 0..7> <hex>
        -> "ok <header> | <object dump> | ..."  or  "err:<kind>" / "oob" / "ub:<kind>"
  gen <seed> <profile> <nobjects> <refAnon 0|1>
        -> "<hex of the file the SPEC ENCODER produced> TAB <tokens> TAB <expected: header | objects ...>"
           (random object list + random choice vector, both derived from <seed>);
           tokens: "r:<hex>" bytes outside datasets, "d<type>:<k><hex>;..." dataset with its fields
           (k: n number, l section length, i table index, m inline marker, s string bytes) — the
           structure the hostile-input generator of C03 damages field by field
-/
import Osmium.Model.O5m
import Osmium.Model.O5mSpec
import Driver.Common

open Osmium Osmium.O5m Driver
open Osmium.Osm hiding hex hexChar Bytes

def dumpFileHeader (h : FileHeader) : String :=
  s!"h {if h.multipleVersions then "H" else "S"} ts={h.timestamp}" ++
    String.join (h.boxes.map fun (a, b) => s!" B{dumpLoc a};{dumpLoc b}")

def dumpResult (h : FileHeader) (os : List Object) : String :=
  " | ".intercalate (dumpFileHeader h :: os.map dump)

def showRes : Res (FileHeader × List Object) → String
  | .ok (h, os) => "ok " ++ dumpResult h os
  | .err e => "err:" ++ e.name
  | .oob => "oob"
  | .ub u => u.name

/-! random generation (SplitMix64, same constants as tools/vlib.py) -/

structure Rng where
  s : UInt64

def Rng.next (r : Rng) : UInt64 × Rng :=
  let s := r.s + 0x9E3779B97F4A7C15
  let z := s
  let z := (z ^^^ (z >>> 30)) * 0xBF58476D1CE4E5B9
  let z := (z ^^^ (z >>> 27)) * 0x94D049BB133111EB
  (z ^^^ (z >>> 31), ⟨s⟩)

abbrev G := StateM Rng

def below (n : Nat) : G Nat := do
  let r ← get
  let (v, r') := r.next
  set r'
  pure (if n == 0 then 0 else v.toNat % n)

def chance (num den : Nat) : G Bool := do return (← below den) < num

def pick {α : Type} [Inhabited α] (xs : List α) : G α := do
  let i ← below xs.length
  pure (xs.getD i default)

def genInt (lo hi : Int) : G Int := do
  let span := (hi - lo + 1).toNat
  let v ← below span
  pure (lo + v)

/-- a byte that is not NUL -/
def genByte : G UInt8 := do
  let c ← below 6
  if c == 0 then pure (UInt8.ofNat (1 + (← below 255)))
  else pure (UInt8.ofNat (97 + (← below 26)))

def genBytes (n : Nat) : G Bytes := do
  let mut out := []
  for _ in [0:n] do
    out := (← genByte) :: out
  pure out

/-- string lengths: mostly short, sometimes around the table limit (pair length 250..254
    including the two NULs), sometimes long (up to 1024) -/
def genStr (pool : Nat) (long : Bool) : G Bytes := do
  let c ← below 20
  if c < 12 then
    -- from a small pool, so that back-references are possible
    let k ← below pool
    pure ((s!"k{k}").toUTF8.toList)
  else if c < 17 then genBytes (← below 12)
  else if c < 19 && long then genBytes (120 + (← below 12))
  else if long then
    let l ← pick [0, 1, 124, 125, 126, 127, 248, 249, 250, 251, 252, 600, 1023, 1024]
    genBytes l
  else genBytes (← below 30)

def boundaryIds : List Int :=
  [0, 1, -1, 2, -2, 63, 64, -64, -65, 8191, 8192, 2147483647, 2147483648, -2147483648, 4294967296,
   9223372036854775807, -9223372036854775808, 9223372036854775806, -9223372036854775807]

def genId : G Int := do
  let c ← below 10
  if c < 3 then pick boundaryIds
  else if c < 8 then genInt (-200) 3000
  else genInt (-9223372036854775808) 9223372036854775807

def genCoord : G Int := do
  let c ← below 10
  if c < 2 then pick [0, 1, -1, 2147483647, -2147483648, 1800000000, -1800000000, 900000000, -900000000]
  else if c < 8 then genInt (-1800000000) 1800000000
  else genInt (-2147483648) 2147483647

def genTags (pool : Nat) (long : Bool) : G (List Tag) := do
  let n ← pick [0, 0, 1, 1, 2, 3, 5]
  let mut out := []
  for _ in [0:n] do
    out := { key := (← genStr pool long), value := (← genStr pool long) : Tag } :: out
  pure out

def genMeta (pool : Nat) (long : Bool) (visible : Bool) : G Meta := do
  let id ← genId
  let c ← below 10
  let tags ← if visible then genTags pool long else pure []
  if c == 0 then
    -- no info section at all
    pure { id, visible, tags }
  else
    let version ← pick [1, 1, 2, 3, 127, 128, 2147483647]
    if c == 1 then
      -- version only
      pure { id, version, visible, tags }
    else
      let timestamp ← pick [1, 2, 1000000000, 1600000000, 1600000001, 1599999999, 4294967295, 2147483648]
      let changeset ← pick [0, 1, 2, 100, 99, 4294967295, 12345678]
      let anon ← chance 1 6
      if anon then pure { id, version, visible, timestamp, changeset, tags }
      else
        let uid ← pick [1, 2, 127, 128, 45445, 4294967295]
        let user ← genStr pool long
        pure { id, version, visible, timestamp, changeset, uid, user, tags }

def genObject (kind : Nat) (pool : Nat) (long : Bool) : G Object := do
  let visible ← chance 9 10
  let m ← genMeta pool long visible
  if kind == 0 then
    if visible then pure (.node m ⟨← genCoord, ← genCoord⟩) else pure (.node m Location.undefined)
  else if kind == 1 then
    if visible then
      let n ← pick [0, 0, 1, 2, 3, 8]
      let mut refs : List NodeRef := []
      for _ in [0:n] do
        refs := { ref := (← genId) } :: refs
      pure (.way m refs)
    else pure (.way m [])
  else
    if visible then
      let n ← pick [0, 0, 1, 2, 3, 6]
      let mut ms : List Member := []
      for _ in [0:n] do
        ms := { type := 1 + (← below 3), ref := (← genId), role := (← genStr pool long) } :: ms
      pure (.relation m ms)
    else pure (.relation m [])

/-- profile: 0 = mixed small, 1 = nodes only, 2 = sorted n/w/r, 3 = burst of distinct strings
    (forces table wrap-around), 4 = tiny -/
def genFile (profile n : Nat) (refAnon : Bool) : G (O5mSpec.File × O5mSpec.Choices) := do
  let long := profile != 4
  let pool ← pick [2, 4, 12]
  let mut objs : List Object := []
  if profile == 3 then
    -- n nodes with 6 fresh tags each, then a few objects that refer far back
    for i in [0:n] do
      let mut tags : List Tag := []
      for j in [0:6] do
        tags := { key := (s!"b{i}").toUTF8.toList, value := (s!"v{j}x{i}").toUTF8.toList : Tag } :: tags
      objs := .node { id := (i : Int), tags } ⟨1, 2⟩ :: objs
    -- objects whose tags were written 1 … > 15000 table entries ago (6 entries per burst node)
    for _ in [0:40] do
      let back ← pick [1, 2, 3, 100, 2490, 2497, 2498, 2499, 2500, 2501, 2502, 2503, 2600]
      let src := if back ≤ n then n - back else 0
      let j ← below 6
      let t : Tag := { key := (s!"b{src}").toUTF8.toList, value := (s!"v{j}x{src}").toUTF8.toList }
      objs := .node { id := (7 : Int), tags := [t] } ⟨3, 4⟩ :: objs
    for _ in [0:8] do
      objs := (← genObject (← below 3) 3 false) :: objs
  else
    for i in [0:n] do
      let kind ← if profile == 1 then pure 0
        else if profile == 2 then pure (if 3 * i < n then 0 else if 3 * i < 2 * n then 1 else 2)
        else below 3
      objs := (← genObject kind pool long) :: objs
  let objs2 := objs.reverse
  -- header datasets
  let boxes ← if (← chance 1 3) then do
      let x1 ← genCoord; let y1 ← genCoord; let x2 ← genCoord; let y2 ← genCoord
      -- keep the Box precondition (ordered) so that the file is valid for debug builds as well
      pure [((⟨min x1 x2, min y1 y2⟩ : Location), (⟨max x1 x2, max y1 y2⟩ : Location))]
    else pure []
  let ts ← if (← chance 1 3) then pick [1, 1600000000, 4294967295] else pure 0
  let o5c ← chance 1 4
  let file : O5mSpec.File := { o5c, boxes, timestamp := ts, objects := objs2 }
  -- choice vector
  let nch := 40 + 12 * objs2.length * (if profile == 3 then 2 else 4)
  let refBias ← if profile == 3 then pure 4 else pick [0, 1, 3, 4, 4]     -- out of 4: how often a back-reference is used when possible
  let resetBias ← if profile == 3 then pure 0 else pick [0, 0, 1, 4]     -- out of 20
  let mut useRef : List Nat := []
  for _ in [0:nch] do
    let use ← chance refBias 4
    let which ← pick [0, 0, 0, 1, 2, 7]
    useRef := (if use then 1 + which else 0) :: useRef
  let mut before : List Nat := []
  for _ in [0:objs2.length + 3] do
    -- 0 nothing, 1 reset, 2 unknown dataset, 3 sync, 4 jump, 5 reset+reset, 6 0xf0 byte
    let r ← chance resetBias 20
    let o ← pick [0, 0, 0, 0, 0, 0, 2, 3, 4]
    let two ← chance 1 5
    before := (if r then (if two then 5 else 1) else o) :: before
  let trailer ← pick [0, 0, 1, 2]
  let resetAtStart ← chance 3 4
  let omitAnonUser ← chance 1 2
  pure (file, { useRef, before, trailer, resetAtStart, omitAnonUser, refAnon })

def showTok : O5mSpec.Tok → String
  | .raw bs => "r:" ++ hex bs
  | .ds t fs => "d" ++ hex [t] ++ ":" ++ ";".intercalate (fs.map fun (f : O5mSpec.Field) => f.kind.name ++ hex f.bytes)

def runGen (seed profile n : Nat) (refAnon : Bool) : String :=
  let ((file, ch), _) := (genFile profile n refAnon).run ⟨UInt64.ofNat (seed * 2654435761 + profile * 97 + n)⟩
  let toks := O5mSpec.encodeToks ch file
  hex (O5mSpec.flattenToks toks) ++ "\t" ++ ",".intercalate (toks.map showTok) ++ "\t" ++
    dumpResult (O5mSpec.expectedHeader file) file.objects

def step (line : String) : String :=
  match words line with
  | ["dec", a, rt, h] =>
    match unhex h, rt.toNat? with
    | some bs, some rt => showRes (decode { assertions := a == "1", readTypes := rt } bs)
    | _, _ => "bad-op"
  | ["gen", seed, profile, n, ra] =>
    match seed.toNat?, profile.toNat?, n.toNat? with
    | some s, some p, some n => runGen s p n (ra == "1")
    | _, _, _ => "bad-op"
  | _ => "bad-op"

def main : IO Unit := loopPure step
