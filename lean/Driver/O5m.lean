/- Model driver for the O5m format family (C01/C02/C03 parts) — stub. -/
import Driver.Common

def main : IO Unit := pure ()
