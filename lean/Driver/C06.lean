/- Model driver for C06 (stub: not built yet). -/
import Driver.Common

def main : IO Unit := pure ()
