/-
Model driver for C06 (chunking independence).  Ops mirror harness/c06.cpp:
  opl <cuts> <hex>            -> "L <n> <hex>..."
  pbf <cuts> <hex>            -> "F <n> <hdr>:<blob>... [err:<class>]"
  o5m <cuts> <script> <hex>   -> "r<0|1>:<consumed>:<windowhex> ..."
  o5mds <cuts> <hex>          -> dataset stream of the o5m loop: "D <n> <t>:<payload>|R|O<t> ... [err:<class>]"
  xml <cuts> <hex>            -> the feed calls "X <n> <hex>:<0|1> ..."
-/
import Osmium.Model.Chunks
import Osmium.Model.PbfFraming
import Driver.Common

open Osmium.Chunks Osmium.Wire Driver

def parseCuts (s : String) : Option (List Nat) :=
  if s == "-" then some [] else (s.splitOn ",").mapM String.toNat?

/-- same piece splitting as the harness: cuts must be ascending, inside (0, len) -/
def splitPieces (data : Bytes) (cuts : List Nat) : List Bytes :=
  let rec go (rem : Bytes) (last : Nat) (cuts : List Nat) (acc : List Bytes) : List Bytes :=
    match cuts with
    | [] => (if rem.isEmpty then acc else rem :: acc).reverse
    | c :: cs =>
      if c > last && c < last + rem.length then
        go (rem.drop (c - last)) c cs (rem.take (c - last) :: acc)
      else go rem last cs acc
  go data 0 cuts []

def pbfErrName : PbfErr → String
  | .truncated => "err:truncated"
  | .headerTooLarge => "err:header-too-large"
  | .blobTooLarge => "err:blob-too-large"
  | .headerFormat => "err:header-format"

def o5mErrName : O5mErr → String
  | .headerTooShort => "err:header-too-short"
  | .wrongMagic => "err:wrong-magic"
  | .premature => "err:premature"
  | .varintTooLong => "err:varint-too-long"

def runScript (o : O5mIn) : List String → List String → Option (List String)
  | [], acc => some acc.reverse
  | tok :: rest, acc =>
    let n? := (tok.drop 1).toString.toNat?
    match n? with
    | none => none
    | some n =>
      if tok.startsWith "e" then
        let (r, o') := o.ensure n
        runScript o' rest (s!"r{b01 r}:{o'.consumed}:{hex o'.window}" :: acc)
      else
        let o' := o.advance (min n o.window.length)
        runScript o' rest (s!"r1:{o'.consumed}:{hex o'.window}" :: acc)

def step (line : String) : String :=
  match words line with
  | ["opl", cuts, h] =>
    match parseCuts cuts, unhex h with
    | some cs, some data =>
      let ls := lineByLine (splitPieces data cs)
      " ".intercalate (["L", toString ls.length] ++ ls.map hex)
    | _, _ => "bad-op"
  | ["pbf", cuts, h] =>
    match parseCuts cuts, unhex h with
    | some cs, some data =>
      let (fs, e) := pbfFrames Osmium.PbfFraming.maxBlobHeaderSize Osmium.PbfFraming.maxUncompressedBlobSize
        Osmium.PbfFraming.blobSize (splitPieces data cs)
      " ".intercalate (["F", toString fs.length] ++ fs.map (fun (a, b) => hex a ++ ":" ++ hex b)
        ++ (match e with | none => [] | some e => [pbfErrName e]))
    | _, _ => "bad-op"
  | ["o5m", cuts, script, h] =>
    match parseCuts cuts, unhex h with
    | some cs, some data =>
      let o : O5mIn := { consumed := 0, window := [], src := { chunks := splitPieces data cs } }
      match runScript o (script.splitOn ",") [] with
      | some out => " ".intercalate out
      | none => "bad-op"
    | _, _ => "bad-op"
  | ["o5mds", cuts, h] =>
    match parseCuts cuts, unhex h with
    | some cs, some data =>
      let (ds, e) := o5mRun (splitPieces data cs)
      " ".intercalate (["D", toString ds.length] ++ ds.map (fun d => match d with
          | .reset => "R" | .other t => s!"O{t.toNat}" | .data t p => s!"{t.toNat}:{hex p}")
        ++ (match e with | none => [] | some e => [o5mErrName e]))
    | _, _ => "bad-op"
  | ["xml", cuts, h] =>
    match parseCuts cuts, unhex h with
    | some cs, some data =>
      let fs := xmlFeed (splitPieces data cs)
      " ".intercalate (["X", toString fs.length] ++ fs.map (fun (a, b) => hex a ++ ":" ++ b01 b))
    | _, _ => "bad-op"
  | _ => "bad-op"

def main : IO Unit := loopPure step
