/-
Model driver for C06 (chunking independence).  Ops mirror harness/c06.cpp:
  opl <cuts> <hex>            -> "L <n> <hex>..."
  pbf <cuts> <hex>            -> "F <n> <hdr>:<blob>... [err:<class>]"
  o5m <cuts> <script> <hex>   -> "r<0|1>:<consumed>:<windowhex> ..."
  o5mds <cuts> <hex>          -> dataset stream of the o5m loop: "D <n> <t>:<payload>|R|O<t> ... [err:<class>]"
  xml <cuts> <hex>            -> the feed calls "X <n> <hex>:<0|1> ..."
Long-record ops (digests instead of hex: `<len>:<fnv64>`; run through the linear-time twins of
Model/ChunksFast.lean, proved equal to the specified functions in Props/C06.lean):
  oplx <cuts> <data>          -> "L <n> <len>:<fnv> ..."
  pbfx <cuts> <data>          -> "F <n> <hdrlen>:<fnv>/<bloblen>:<fnv> ... [err:<class>]"
  o5mx <cuts> <script> <data> -> "r<0|1>:<consumed>:<len>:<fnv of the first and last 64 window bytes> ..."
<data> = hex | "-" | "@<path>" (bytes of that file);  <cuts> = "-" | c1,c2,... | "%<k>" | "%<k>+<o>"
(pieces of k bytes, the first cut at o if o > 0).
-/
import Osmium.Model.Chunks
import Osmium.Model.ChunksFast
import Osmium.Model.PbfFraming
import Driver.Common

open Osmium.Chunks Osmium.Wire Driver

/-- every `k` bytes starting at `o` (at `k` if `o = 0`), below `len` -/
def fixedCuts (k o len : Nat) : List Nat :=
  if k == 0 then [] else
  let first := if o == 0 then k else o
  if first ≥ len then [] else
  (List.range ((len - 1 - first) / k + 1)).map (fun i => first + i * k)

def parseCuts (s : String) (len : Nat := 0) : Option (List Nat) :=
  if s == "-" then some []
  else if s.startsWith "%" then
    match ((s.drop 1).toString.splitOn "+").mapM String.toNat? with
    | some [k] => some (fixedCuts k 0 len)
    | some [k, o] => some (fixedCuts k o len)
    | _ => none
  else (s.splitOn ",").mapM String.toNat?

/-- the digest of harness/c06.cpp (`fnv`, same offset basis) -/
def fnv (bs : Bytes) : UInt64 :=
  bs.foldl (fun h b => (h ^^^ b.toUInt64) * 1099511628211) 1469598103934665603

def dig (bs : Bytes) : String := s!"{bs.length}:{(fnv bs).toNat}"

/-- window digest of `o5mx`: length + digest of the first and last 64 bytes -/
def digw (bs : Bytes) : String :=
  let n := bs.length
  if n ≤ 128 then dig bs else s!"{n}:{(fnv (bs.take 64 ++ bs.drop (n - 64))).toNat}"

/-- same piece splitting as the harness: cuts must be ascending, inside (0, len);
    `remLen` = length of `rem` (kept, not recomputed: linear in the data) -/
def splitPieces (data : Bytes) (cuts : List Nat) : List Bytes :=
  let rec go (rem : Bytes) (remLen : Nat) (last : Nat) (cuts : List Nat) (acc : List Bytes) : List Bytes :=
    match cuts with
    | [] => (if rem.isEmpty then acc else rem :: acc).reverse
    | c :: cs =>
      if c > last && c < last + remLen then
        go (rem.drop (c - last)) (remLen - (c - last)) c cs (rem.take (c - last) :: acc)
      else go rem remLen last cs acc
  go data data.length 0 cuts []

def pbfErrName : PbfErr → String
  | .truncated => "err:truncated"
  | .headerTooLarge => "err:header-too-large"
  | .blobTooLarge => "err:blob-too-large"
  | .headerFormat => "err:header-format"

def o5mErrName : O5mErr → String
  | .headerTooShort => "err:header-too-short"
  | .wrongMagic => "err:wrong-magic"
  | .premature => "err:premature"
  | .varintTooLong => "err:varint-too-long"

def runScript (o : O5mIn) : List String → List String → Option (List String)
  | [], acc => some acc.reverse
  | tok :: rest, acc =>
    let n? := (tok.drop 1).toString.toNat?
    match n? with
    | none => none
    | some n =>
      if tok.startsWith "e" then
        let (r, o') := o.ensure n
        runScript o' rest (s!"r{b01 r}:{o'.consumed}:{hex o'.window}" :: acc)
      else
        let o' := o.advance (min n o.window.length)
        runScript o' rest (s!"r1:{o'.consumed}:{hex o'.window}" :: acc)

def runScriptX (o : O5mIn) : List String → List String → Option (List String)
  | [], acc => some acc.reverse
  | tok :: rest, acc =>
    let n? := (tok.drop 1).toString.toNat?
    match n? with
    | none => none
    | some n =>
      if tok.startsWith "e" then
        let (r, o') := o.ensureF n
        runScriptX o' rest (s!"r{b01 r}:{o'.consumed}:{digw o'.window}" :: acc)
      else
        let o' := o.advance (min n o.window.length)
        runScriptX o' rest (s!"r1:{o'.consumed}:{digw o'.window}" :: acc)

/-- ops whose data argument has been resolved (hex or file contents) -/
def stepX (op cuts : String) (script : Option String) (data : Bytes) : String :=
  match parseCuts cuts data.length with
  | none => "bad-op"
  | some cs =>
    let pieces := splitPieces data cs
    match op, script with
    | "oplx", none =>
      let ls := lineByLineF pieces
      " ".intercalate (["L", toString ls.length] ++ ls.map dig)
    | "pbfx", none =>
      let (fs, e) := pbfFramesF Osmium.PbfFraming.maxBlobHeaderSize Osmium.PbfFraming.maxUncompressedBlobSize
        Osmium.PbfFraming.blobSize pieces
      " ".intercalate (["F", toString fs.length] ++ fs.map (fun (a, b) => dig a ++ "/" ++ dig b)
        ++ (match e with | none => [] | some e => [pbfErrName e]))
    | "o5mx", some sc =>
      let o : O5mIn := { consumed := 0, window := [], src := { chunks := pieces } }
      match runScriptX o (sc.splitOn ",") [] with
      | some out => " ".intercalate out
      | none => "bad-op"
    | _, _ => "bad-op"

def step (line : String) : String :=
  match words line with
  | ["opl", cuts, h] =>
    match parseCuts cuts, unhex h with
    | some cs, some data =>
      let ls := lineByLine (splitPieces data cs)
      " ".intercalate (["L", toString ls.length] ++ ls.map hex)
    | _, _ => "bad-op"
  | ["pbf", cuts, h] =>
    match parseCuts cuts, unhex h with
    | some cs, some data =>
      let (fs, e) := pbfFrames Osmium.PbfFraming.maxBlobHeaderSize Osmium.PbfFraming.maxUncompressedBlobSize
        Osmium.PbfFraming.blobSize (splitPieces data cs)
      " ".intercalate (["F", toString fs.length] ++ fs.map (fun (a, b) => hex a ++ ":" ++ hex b)
        ++ (match e with | none => [] | some e => [pbfErrName e]))
    | _, _ => "bad-op"
  | ["o5m", cuts, script, h] =>
    match parseCuts cuts, unhex h with
    | some cs, some data =>
      let o : O5mIn := { consumed := 0, window := [], src := { chunks := splitPieces data cs } }
      match runScript o (script.splitOn ",") [] with
      | some out => " ".intercalate out
      | none => "bad-op"
    | _, _ => "bad-op"
  | ["o5mds", cuts, h] =>
    match parseCuts cuts, unhex h with
    | some cs, some data =>
      let (ds, e) := o5mRun (splitPieces data cs)
      " ".intercalate (["D", toString ds.length] ++ ds.map (fun d => match d with
          | .reset => "R" | .other t => s!"O{t.toNat}" | .data t p => s!"{t.toNat}:{hex p}")
        ++ (match e with | none => [] | some e => [o5mErrName e]))
    | _, _ => "bad-op"
  | ["xml", cuts, h] =>
    match parseCuts cuts, unhex h with
    | some cs, some data =>
      let fs := xmlFeed (splitPieces data cs)
      " ".intercalate (["X", toString fs.length] ++ fs.map (fun (a, b) => hex a ++ ":" ++ b01 b))
    | _, _ => "bad-op"
  | _ => "bad-op"

/-- `@path` → contents of the file (the last file is kept: consecutive ops use the same one) -/
def resolve (cache : Option (String × Bytes)) (arg : String) : IO (Option Bytes × Option (String × Bytes)) := do
  if arg.startsWith "@" then
    let path := (arg.drop 1).toString
    match cache with
    | some (p, bs) => if p == path then return (some bs, cache) else pure ()
    | none => pure ()
    try
      let ba ← IO.FS.readBinFile path
      let bs := ba.toList
      return (some bs, some (path, bs))
    catch _ => return (none, cache)
  else
    return (unhex arg, cache)

partial def mainLoop (cache : Option (String × Bytes)) : IO Unit := do
  let stdin ← IO.getStdin
  let stdout ← IO.getStdout
  let line ← stdin.getLine
  if line.isEmpty then
    stdout.flush
    return ()
  match words line with
  | [op, cuts, d] =>
    if op == "oplx" || op == "pbfx" then
      let (data, cache') ← resolve cache d
      stdout.putStrLn (match data with | some bs => stepX op cuts none bs | none => "bad-op")
      mainLoop cache'
    else
      stdout.putStrLn (step line)
      mainLoop cache
  | ["o5mx", cuts, sc, d] =>
    let (data, cache') ← resolve cache d
    stdout.putStrLn (match data with | some bs => stepX "o5mx" cuts (some sc) bs | none => "bad-op")
    mainLoop cache'
  | _ =>
    stdout.putStrLn (step line)
    mainLoop cache

def main : IO Unit := mainLoop none
