/-
Model driver for C14 (same ops and output format as harness/c14.cpp):
  opl-esc <hex>    -> "ok <hex>" | "err invalid|incomplete|oob"
  opl-unesc <hex>  -> "ok <hex> <unconsumed bytes>" | "err eol|nothex|toolong"
  xml-esc <hex>    -> "<hex>"
  xml-unesc <hex>  -> "ok <hex>" | "err"
  blk <lo> <hi>    -> for every code point in [lo,hi): enc/oplesc/xmlesc/cp:len joined by ','
-/
import Osmium.Model.Escape
import Driver.Common

open Osmium Driver

def errStr : Utf8.Err → String
  | .invalid => "invalid"
  | .incomplete => "incomplete"
  | .oob => "oob"

def perrStr : Opl.PErr → String
  | .eol => "eol"
  | .notHex => "nothex"
  | .tooLong => "toolong"

/-- bytes of a C string: everything before the first NUL -/
def cstr (bs : List UInt8) : List UInt8 := bs.takeWhile (· != 0)

def blkOne (cp : Nat) : String :=
  let enc := Utf8.encode cp
  let o := match Opl.escape enc with
    | .ok r => hex r
    | .error e => "err-" ++ errStr e
  let x := hex (Xml.escape enc)
  let d := match Utf8.next enc with
    | .ok (c, len) => toString c ++ ":" ++ toString len
    | .error e => "err-" ++ errStr e
  hex enc ++ "/" ++ o ++ "/" ++ x ++ "/" ++ d

def step (line : String) : String :=
  match words line with
  | ["opl-esc", h] =>
    match unhex h with
    | some bs =>
      match Opl.escape (cstr bs) with
      | .ok r => "ok " ++ hex r
      | .error e => "err " ++ errStr e
    | none => "bad-op"
  | ["opl-unesc", h] =>
    match unhex h with
    | some bs =>
      match Opl.parseString (cstr bs) with
      | .ok (r, rest) => "ok " ++ hex r ++ " " ++ toString rest.length
      | .error e => "err " ++ perrStr e
    | none => "bad-op"
  | ["xml-esc", h] =>
    match unhex h with
    | some bs => hex (Xml.escape (cstr bs))
    | none => "bad-op"
  | ["xml-unesc", h] =>
    match unhex h with
    | some bs =>
      match Xml.unescapeAttr bs with
      | some r => "ok " ++ hex r
      | none => "err"
    | none => "bad-op"
  | ["blk", lo, hi] =>
    match lo.toNat?, hi.toNat? with
    | some lo, some hi => ",".intercalate ((List.range (hi - lo)).map fun i => blkOne (lo + i))
    | _, _ => "bad-op"
  | _ => "bad-op"

def main : IO Unit := loopPure step
