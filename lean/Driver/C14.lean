/- Model driver for C14 (stub: not built yet). -/
import Driver.Common

def main : IO Unit := pure ()
