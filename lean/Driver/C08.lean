/- Model driver for C08 (stub: not built yet). -/
import Driver.Common

def main : IO Unit := pure ()
