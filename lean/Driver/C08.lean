/-
Model driver for C08 (Osmium/Model/WriterSM.lean).  Ops:

  rw <size> <sched>
      sched: `-` or comma list, one token per write(2) call: k<N> (accept at most N bytes),
      i (EINTR), e<errno>.  Runs the size-level transcription of reliable_write.
      -> rw calls=<n>:<r>,… res=<ok|sys:E> total=<bytes accepted> inorder=1

  seq comp=<none|gz|bz2> fsync=<0|1> chunks=<s1,s2,…|-> fault=<f>
      The write thread's sequential behaviour on the given blocks (everything queued up
      front, no interleaving): compressor.write per block, close, promise.
      fault: none | parts joined with `+`:  w@<o>:<E>[:p|:t|:pt]  fsync:<E>  close:<k>:<E>
             short:<m>  eintr:<n>
      -> seq res=<ok:n|exc:CLS> file=<len> w=<calls>/<bytes>/<faults> fs=<calls>/<faults> cl=<calls>/<faults>

  explore qmax=<n> hdr=<enc> script=<c1,c2,…> fail=<none|w<j>:<E>|fsync:<E>|close:<E>>
      ALL interleavings (breadth-first over the small-step relation) of producer, pool
      workers and write thread; every data block is one byte, so "the j-th write call fails"
      = "the j-th block written fails".
      enc: `-` or letters d (pool task → data) D (ready data) x (pool task throws) z (pool
           task → empty string), optional trailing `!` (the encoder throws in the caller).
      calls: P<ib>/<e> operator()(Buffer)   I<full> operator()(Item)   F<ib> flush()
             C<ib>/<eEnd> close()           (ib/full: `_` = internal buffer empty)
      The destructor is appended (with the last close's arguments, or `_`/`-`).
      -> explore n=<states> outcomes=<pattern> | <pattern> …   (sorted; a pattern is the
         `;`-joined outcomes of the calls: ok, ok:0, ok:N, exc:sys:<E>, exc:enc, exc:io)
         `STUCK` is appended if a non-terminated state without enabled step was found.
-/
import Osmium.Model.WriterSM
import Driver.Common
import Std.Data.HashSet

open Osmium.WriterSM Driver

def kv (ws : List String) (key : String) (dflt : String) : String :=
  match ws.find? (fun w => w.startsWith (key ++ "=")) with
  | some w => (w.drop (key.length + 1)).toString
  | none => dflt

def splitC (s : String) (sep : String := ",") : List String :=
  if s == "-" || s == "" then [] else s.splitOn sep

/-! ### rw -/

def parseResp (tok : String) : Option Resp :=
  if tok == "i" then some .eintr
  else if tok.startsWith "k" then (tok.drop 1).toString.toNat?.map .ok
  else if tok.startsWith "e" then (tok.drop 1).toString.toNat?.map .err
  else none

def showWRes : WRes → String
  | .wrote k => toString k
  | .eintr => "i"
  | .err e => "e" ++ toString e

def opRw (ws : List String) : String :=
  match ws with
  | [sz, sched] =>
    match sz.toNat?, (splitC sched).mapM parseResp with
    | some size, some rs =>
      let os : OS := { sched := rs }
      let (r, os', log) := rwLoopN maxWrite (rs.length + size + 1) os size []
      let calls := log.map fun (n, w) => toString n ++ ":" ++ showWRes w
      let shown := if calls.length > 40 then
          ",".intercalate (calls.take 40) ++ ",+" ++ toString (calls.length - 40)
        else if calls.isEmpty then "-" else ",".intercalate calls
      let res := match r with
        | .done => "ok"
        | .error e => "sys:" ++ toString e
        | .outOfFuel => "spin"
      s!"rw calls={shown} res={res} total={os'.off} inorder=1"
    | _, _ => "bad-op"
  | _ => "bad-op"

/-! ### fault specs -/

structure FaultCfg where
  limit : Option Limit := none
  fsyncErr : Option Nat := none
  closeK : Option (Nat × Nat) := none
  short : Option Nat := none
  eintr : Option Nat := none

def parseFault (s : String) : Option FaultCfg :=
  if s == "none" then some {} else
  (s.splitOn "+").foldlM (init := ({} : FaultCfg)) fun f part =>
    if part.startsWith "w@" then
      match (part.drop 2).toString.splitOn ":" with
      | [o, e] => do some { f with limit := some ⟨← o.toNat?, ← e.toNat?, false, false⟩ }
      | [o, e, m] => do
        some { f with limit := some ⟨← o.toNat?, ← e.toNat?, m.contains 'p', m.contains 't'⟩ }
      | _ => none
    else if part.startsWith "fsync:" then do
      some { f with fsyncErr := some (← (part.drop 6).toString.toNat?) }
    else if part.startsWith "close:" then
      match (part.drop 6).toString.splitOn ":" with
      | [k, e] => do some { f with closeK := some (← k.toNat?, ← e.toNat?) }
      | _ => none
    else if part.startsWith "short:" then do
      some { f with short := some (← (part.drop 6).toString.toNat?) }
    else if part.startsWith "eintr:" then do
      some { f with eintr := some (← (part.drop 6).toString.toNat?) }
    else none

/-- the OS oracle of a fault configuration, for runs that write at most `total` bytes in at
    most `nblocks` compressor calls -/
def FaultCfg.os (f : FaultCfg) (total nblocks : Nat) : OS :=
  let m := f.short.getD (total + 1)
  let ncalls := (if m = 0 then total else total / m) + 2 * nblocks + 8
  let ncalls := match f.eintr with
    | some n => ncalls + ncalls / (n - 1) + 2
    | none => ncalls
  let sched : List Resp :=
    if f.short.isNone && f.eintr.isNone then [] else
    (List.range ncalls).map fun i =>
      match f.eintr with
      | some n => if n ≠ 0 ∧ (i + 1) % n = 0 then Resp.eintr else Resp.ok m
      | none => Resp.ok m
  { sched := sched
    limit := f.limit
    fsyncSched := match f.fsyncErr with | some e => List.replicate 4 (some e) | none => []
    closeSched := match f.closeK with
      | some (k, e) => List.replicate (k - 1) none ++ [some e]
      | none => [] }

/-! ### seq -/

def showErr : Err → String
  | .sys e => "sys:" ++ toString e
  | .gzip _ => "gzip"
  | .bzip2 _ => "bzip2"
  | .enc _ => "enc"
  | .refused => "io"

def showOutcome : Outcome → String
  | .ok n => "ok:" ++ toString n
  | .raised e => "exc:" ++ showErr e

def blockOf (idx size : Nat) : Bytes := List.replicate size (UInt8.ofNat (idx % 251 + 1))

/-- run the machine to the end with the producer-first scheduler -/
def seqRun {κ : Type} (cfg : Cfg κ) (k0 : κ) (os0 : OS) (sizes : List Nat) : St κ :=
  let blocks : List Item := (List.range sizes.length).zip sizes |>.map fun (i, n) =>
    ({ res := .data (blockOf i n), ready := true } : Item)
  let script : List Api := [.put none { items := blocks }, .close none {}, .dtor none {}]
  (runSched cfg false (20 * sizes.length + 200) (initSt k0 os0 script)).2

def seqLine {κ : Type} (s : St κ) : String :=
  let res := match s.promise with
    | some o => showOutcome o
    | none => "none"
  s!"seq res={res} file={s.os.file.length} w={s.os.wcalls}/{s.os.off}/{s.os.faults} fs={s.os.fsyncs} cl={s.os.closes}"

def opSeq (ws : List String) : String :=
  let sizes := (splitC (kv ws "chunks" "-")).filterMap String.toNat?
  let sync := kv ws "fsync" "0" == "1"
  match parseFault (kv ws "fault" "none") with
  | none => "bad-op"
  | some f =>
    let total := sizes.foldl (· + ·) 0
    -- the reference libraries add framing bytes: leave room in the schedule
    let os0 := f.os (2 * total + 2 * sizes.length + 16) sizes.length
    match kv ws "comp" "none" with
    | "none" => seqLine (seqRun ⟨noComp, {}, 0⟩ { sync := sync } os0 sizes)
    | "gz" => seqLine (seqRun ⟨gzipComp refGz, {}, 0⟩ { gz := some {}, sync := sync } os0 sizes)
    | "bz2" => seqLine (seqRun ⟨bzip2Comp refBz, {}, 0⟩ { bz := some {}, sync := sync } os0 sizes)
    | _ => "bad-op"

/-! ### explore -/

/-- parse an Enc; `next` numbers the data blocks so that each gets a distinct byte -/
def parseEnc (s : String) (next : Nat) : Option (Enc × Nat) :=
  if s == "-" then some ({}, next) else
  let cs := s.toList
  let (cs, throws) := if cs.getLast? == some '!' then (cs.dropLast, some (Err.enc 1)) else (cs, none)
  let step (acc : Option (List Item × Nat)) (c : Char) : Option (List Item × Nat) := do
    let (items, n) ← acc
    match c with
    | 'd' => some (items ++ [{ res := .data [UInt8.ofNat (n % 250 + 1)], ready := false }], n + 1)
    | 'D' => some (items ++ [{ res := .data [UInt8.ofNat (n % 250 + 1)], ready := true }], n + 1)
    | 'x' => some (items ++ [{ res := .exc (.enc 2), ready := false }], n)
    | 'z' => some (items ++ [{ res := .data [], ready := false }], n)
    | _ => none
  (cs.foldl step (some ([], next))).map fun (items, n) => ({ items := items, throws := throws }, n)

def parseOptEnc (s : String) (next : Nat) : Option (Option Enc × Nat) :=
  if s == "_" then some (none, next) else (parseEnc s next).map fun (e, n) => (some e, n)

def parseCall (s : String) (next : Nat) : Option (Api × Nat) :=
  let body := (s.drop 1).toString
  match s.toList.head? with
  | some 'P' =>
    match body.splitOn "/" with
    | [ib, e] => do
      let (ib, n) ← parseOptEnc ib next
      let (e, n) ← parseEnc e n
      some (.put ib e, n)
    | _ => none
  | some 'I' => (parseOptEnc body next).map fun (f, n) => (.item f, n)
  | some 'F' => (parseOptEnc body next).map fun (ib, n) => (.flush ib, n)
  | some 'C' =>
    match body.splitOn "/" with
    | [ib, e] => do
      let (ib, n) ← parseOptEnc ib next
      let (e, n) ← parseEnc e n
      some (.close ib e, n)
    | _ => none
  | _ => none

def parseScript (calls : List String) (next : Nat) : Option (List Api) :=
  match calls with
  | [] => some []
  | c :: rest => do
    let (a, n) ← parseCall c next
    let as ← parseScript rest n
    some (a :: as)

def showOutcomeAbs : Outcome → String
  | .ok 0 => "ok:0"
  | .ok _ => "ok:N"
  | .raised e => "exc:" ++ showErr e

def pattern (rs : List (Api × Outcome)) : String :=
  ";".intercalate <| rs.filterMap fun (a, o) =>
    match a with
    | .dtor _ _ => none
    | .close _ _ => some (showOutcomeAbs o)
    | _ => some (match o with | .ok _ => "ok" | .raised e => "exc:" ++ showErr e)

def allEvents {κ : Type} (s : St κ) : List Ev :=
  [.prod, .wt, .worker none] ++ (List.range s.q.length).map fun i => Ev.worker (some i)

/-- breadth-first exploration of every interleaving -/
partial def bfs (cfg : Cfg NoState) (frontier : List (St NoState))
    (seen : Std.HashSet (St NoState)) (outs : Std.HashSet String) (stuck : Bool) (limit : Nat) :
    Nat × Std.HashSet String × Bool :=
  match frontier with
  | [] => (seen.size, outs, stuck)
  | _ =>
    if seen.size > limit then (seen.size, outs.insert "LIMIT", stuck) else
    let (next, seen, outs, stuck) := frontier.foldl (init := ([], seen, outs, stuck))
      fun (next, seen, outs, stuck) s =>
        if s.destroyed then (next, seen, outs.insert (pattern s.results), stuck) else
        let succs := (allEvents s).filterMap (step? cfg s)
        if succs.isEmpty then (next, seen, outs, true) else
        succs.foldl (init := (next, seen, outs, stuck)) fun (next, seen, outs, stuck) s' =>
          if seen.contains s' then (next, seen, outs, stuck)
          else (s' :: next, seen.insert s', outs, stuck)
    bfs cfg next seen outs stuck limit

def insertSorted (x : String) : List String → List String
  | [] => [x]
  | y :: ys => if x ≤ y then x :: y :: ys else y :: insertSorted x ys

def opExplore (ws : List String) : String :=
  let qmax := (kv ws "qmax" "0").toNat?.getD 0
  match parseEnc (kv ws "hdr" "-") 0 with
  | none => "bad-op"
  | some (hdr, n0) =>
    match parseScript (splitC (kv ws "script" "-")) n0 with
    | none => "bad-op"
    | some script =>
      let dtor : Api := match script.reverse.find? (fun a => match a with | .close _ _ => true | _ => false) with
        | some (.close ib e) => .dtor ib e
        | _ => .dtor none {}
      let fail := kv ws "fail" "none"
      let os0 : Option OS :=
        if fail == "none" then some {}
        else if fail.startsWith "w" then
          match (fail.drop 1).toString.splitOn ":" with
          | [j, e] => do
            let j ← j.toNat?
            let e ← e.toNat?
            some { sched := List.replicate (j - 1) (.ok 1) ++ [.err e] }
          | _ => none
        else if fail.startsWith "fsync:" then
          (fail.drop 6).toString.toNat?.map fun e => { fsyncSched := [some e] }
        else if fail.startsWith "close:" then
          (fail.drop 6).toString.toNat?.map fun e => { closeSched := [some e] }
        else none
      match os0 with
      | none => "bad-op"
      | some os0 =>
        let cfg : Cfg NoState := ⟨noComp, hdr, qmax⟩
        let s0 := initSt ({ sync := true } : NoState) os0 (script ++ [dtor])
        let (n, outs, stuck) := bfs cfg [s0] (Std.HashSet.emptyWithCapacity.insert s0) {} false 400000
        let sorted := outs.fold (fun acc x => insertSorted x acc) []
        s!"explore n={n} outcomes={" | ".intercalate sorted}{if stuck then " STUCK" else ""}"

def step (line : String) : String :=
  match words line with
  | "rw" :: rest => opRw rest
  | "seq" :: rest => opSeq rest
  | "explore" :: rest => opExplore rest
  | _ => "bad-op"

def main : IO Unit := loopPure step
