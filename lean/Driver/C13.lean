/- Model driver for C13 (stub: not built yet). -/
import Driver.Common

def main : IO Unit := pure ()
