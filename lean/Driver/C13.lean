/-
Model driver for C13 (text <-> number conversions).  One op per line; byte strings are hex
(`-` = empty).  The same lines go to harness/c13.cpp, the outputs must be identical.

  variant old|fixovf|fixed   select the coordinate-parser variant          -> "variant <name>"
  tsvariant <leap 0|1> <range 0|1>   select the timestamp-parser variant (proposed fixes) -> "tsvariant <leap> <range>"
  c <hex>            string_to_location_coordinate + set_lon        -> "ok <value> <consumed> <full 0|1>" | "err"
  ci <hex>           (model only) branch tags of that parse         -> "int|dot,frac<n>,skip<n>,exp+|exp-|noexp,div|mul,ovf|noovf,ok|err"
  f <int32>          append_location_coordinate_to_string           -> text
  fsum <start> <count> <stride>   checksum of f over start+i*stride -> "<u64>"
  t <uint32>         Timestamp::to_iso_all                          -> text
  ti <uint32>        Timestamp::to_iso                              -> text or "-"
  tsum <start> <count> <stride>   checksum of t                     -> "<u64>"
  tp <hex>           parse_timestamp(const char**) + Timestamp(str) -> "ok <time_t> <uint32> <consumed>" | "err"
  topl <hex>         opl_parse_timestamp                            -> "ok <uint32> <consumed>" | "err"
  oi i64|u32 <hex>   opl_parse_int<T>                               -> "ok <value> <consumed>" | "err"
  sid <hex>          string_to_object_id                            -> "ok <value>" | "err"
  sul <hex>          detail::string_to_ulong                        -> "ok <value>" | "err"
  s2i i32|i64|u64 <hex>   detail::str_to_int<T>                     -> "<value>"
  out <int64>        OutputBlock::output_int                        -> text
  seq <errno> <conv> <hex> [<conv> <hex> [<conv> <hex>]]   a SEQUENCE of conversions on one thread, errno preset by
                     the harness: the model is a pure function of each argument -> "<outcome> | <outcome> | ..."
                     conv = sid ver cs uid nch ncm s2i32 s2i64 s2u64 oi64 ou32 c clon clat tp ts topl
-/
import Osmium.Model.Conv
import Driver.Common

open Osmium.Conv Driver

def txt (bs : List UInt8) : String := String.ofList (bs.map fun b => Char.ofNat b.toNat)

def fnv (h : UInt64) (bs : List UInt8) : UInt64 :=
  let h := bs.foldl (fun h b => (h ^^^ b.toUInt64) * 1099511628211) h
  (h ^^^ 10) * 1099511628211

def sumLoop (f : Int → List UInt8) (start stride : Int) : Nat → Nat → UInt64 → UInt64
  | 0, _, h => h
  | n + 1, i, h => sumLoop f start stride n (i + 1) (fnv h (f (start + (i : Int) * stride)))

def coordTags (v : Variant) (s : List UInt8) : String :=
  let s1 := if peek s == cMinus then s.tail else s
  let a := if peek s1 == cDot then "dot" else "int"
  match intPart s1 with
  | none => a ++ ",err-int"
  | some (r1, s2) =>
    match fracPart r1 s2 with
    | none => a ++ ",err-frac"
    | some (r2, sc, extra, s3) =>
      let b := s!"{a},frac{8 - sc},skip{extra.length}"
      match expPart s3 with
      | none => b ++ ",err-exp"
      | some (e, _) =>
        let c := if peek s3 == ce || peek s3 == cE then (if e < 0 then ",exp-" else ",exp+") else ",noexp"
        let scale : Int := (sc : Int) + e
        let d := if scale < 0 then ",div" else ",mul"
        let o := match parseCoord v s with
          | .error _ => (if scale ≥ 0 && (mulLoop v scale.toNat r2 (if v.fixDigits then extra else []) false).isNone then ",err-mul" else ",err-range")
          | .ok out => (if out.ovf then ",ovf,ok" else ",noovf,ok")
        b ++ c ++ d ++ o

def typeRange : String → Option (Int × Int)
  | "i64" => some (int64Min, int64Max)
  | "u32" => some (0, 4294967295)
  | "i32" => some (-2147483648, 2147483647)
  | "u64" => some (0, 18446744073709551615)
  | _ => none

structure St where
  v : Variant := Variant.now
  leap : Bool := true
  range : Bool := true

def ok1 {α : Type} [ToString α] : Except Err α → String
  | .ok x => s!"ok {x}"
  | .error _ => "err"

def ok2 {α : Type} [ToString α] (s : List UInt8) : Except Err (α × List UInt8) → String
  | .ok (x, rest) => s!"ok {x} {s.length - rest.length}"
  | .error _ => "err"

/-- one conversion of a `seq` line: a function of the argument only (and of the probed variant) -/
def convOut (st : St) (v : Variant) (cv : String) (s : List UInt8) : String :=
  match cv with
  | "sid" => ok1 (stringToObjectId s)
  | "ver" | "cs" | "uid" | "nch" | "ncm" => ok1 (stringToUlong s)
  | "s2i32" => toString (strToInt 2147483647 s)
  | "s2i64" => toString (strToInt int64Max s)
  | "s2u64" => toString (strToInt 18446744073709551615 s)
  | "oi64" => ok2 s (oplParseInt int64Min int64Max s)
  | "ou32" => ok2 s (oplParseInt 0 4294967295 s)
  | "c" =>
    match parseCoord v s with
    | .error _ => "err"
    | .ok out => s!"ok {out.value} {s.length - out.rest.length}"
  | "clon" | "clat" =>
    match parseCoord v s with
    | .error _ => "err"
    | .ok out => if peek out.rest == 0 then s!"ok {out.value}" else "err"
  | "tp" => ok2 s (parseTimestampV st.leap s)
  | "ts" => ok1 (timestampOfStringV st.leap st.range s)
  | "topl" => ok2 s (oplParseTimestampV st.leap st.range s)
  | _ => "bad-conv"

def seqOut (st : St) (v : Variant) : List String → Option (List String)
  | [] => some []
  | cv :: h :: rest =>
    match unhex h, seqOut st v rest with
    | some s, some r => some (convOut st v cv s :: r)
    | _, _ => none
  | _ => none

def stepV (st : St) (v : Variant) (line : String) : Variant × String :=
  match words line with
  | "seq" :: e :: rest =>
    if !(["0", "ERANGE", "EINVAL", "EDOM"].contains e) || rest.isEmpty || rest.length > 6 then (v, "bad-op")
    else match seqOut st v rest with
      | some r => (v, " | ".intercalate r)
      | none => (v, "bad-op")
  | ["variant", n] =>
    match n with
    | "old" => (Variant.old, "variant old")
    | "fixovf" => (Variant.fixedOvf, "variant fixovf")
    | "fixed" => (Variant.fixed, "variant fixed")
    | _ => (v, "bad-op")
  | ["c", h] =>
    match unhex h with
    | none => (v, "bad-op")
    | some s =>
      match parseCoord v s with
      | .error _ => (v, "err")
      | .ok out => (v, s!"ok {out.value} {s.length - out.rest.length} {b01 (peek out.rest == 0)}")
  | ["ci", h] =>
    match unhex h with
    | none => (v, "bad-op")
    | some s => (v, coordTags v s)
  | ["f", x] =>
    match x.toInt? with
    | some x => (v, txt (formatCoord x))
    | none => (v, "bad-op")
  | ["fsum", a, n, st] =>
    match a.toInt?, n.toNat?, st.toInt? with
    | some a, some n, some st => (v, toString (sumLoop formatCoord a st n 0 14695981039346656037))
    | _, _, _ => (v, "bad-op")
  | ["t", x] =>
    match x.toNat? with
    | some x => (v, txt (toIsoAll x))
    | none => (v, "bad-op")
  | ["ti", x] =>
    match x.toNat? with
    | some x => (v, let r := toIso x; if r.isEmpty then "-" else txt r)
    | none => (v, "bad-op")
  | ["tsum", a, n, st] =>
    match a.toInt?, n.toNat?, st.toInt? with
    | some a, some n, some st => (v, toString (sumLoop (fun x => toIsoAll x.toNat) a st n 0 14695981039346656037))
    | _, _, _ => (v, "bad-op")
  | ["tp", h] =>
    match unhex h with
    | none => (v, "bad-op")
    | some s =>
      match parseTimestampV st.leap s, timestampOfStringV st.leap st.range s with
      | .ok (t, rest), .ok u => (v, s!"ok {t} {u} {s.length - rest.length}")
      | _, _ => (v, "err")
  | ["topl", h] =>
    match unhex h with
    | none => (v, "bad-op")
    | some s =>
      match oplParseTimestampV st.leap st.range s with
      | .error _ => (v, "err")
      | .ok (t, rest) => (v, s!"ok {t} {s.length - rest.length}")
  | ["oi", ty, h] =>
    match typeRange ty, unhex h with
    | some (lo, hi), some s =>
      match oplParseInt lo hi s with
      | .error _ => (v, "err")
      | .ok (x, rest) => (v, s!"ok {x} {s.length - rest.length}")
    | _, _ => (v, "bad-op")
  | ["sid", h] =>
    match unhex h with
    | none => (v, "bad-op")
    | some s =>
      match stringToObjectId s with
      | .error _ => (v, "err")
      | .ok x => (v, s!"ok {x}")
  | ["sul", h] =>
    match unhex h with
    | none => (v, "bad-op")
    | some s =>
      match stringToUlong s with
      | .error _ => (v, "err")
      | .ok x => (v, s!"ok {x}")
  | ["s2i", ty, h] =>
    match typeRange ty, unhex h with
    | some (_, hi), some s => (v, toString (strToInt hi s))
    | _, _ => (v, "bad-op")
  | ["out", x] =>
    match x.toInt? with
    | some x =>
      match outputInt x with
      | some r => (v, txt r)
      | none => (v, "ub")
    | none => (v, "bad-op")
  | _ => (v, "bad-op")

def step (st : St) (line : String) : St × String :=
  match words line with
  | ["tsvariant", a, b] => ({ st with leap := a == "1", range := b == "1" }, s!"tsvariant {a} {b}")
  | _ => let (v, out) := stepV st st.v line; ({ st with v := v }, out)

def main : IO Unit := loop step {}
