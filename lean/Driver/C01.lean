/- Model driver for C01 (stub: not built yet). -/
import Driver.Common

def main : IO Unit := pure ()
