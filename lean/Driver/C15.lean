/-
Model driver for C15 (id sets, relation maps, item stash).  One op per line:

  D <w> <cb> set|unset|cas|get <id>      IdSetDense<uint<w>_t, cb>: ok | ok | 0/1 | 0/1
  D <w> <cb> size|empty|clear|copy|iter   n | 0/1 | ok | ok | "<count> id id ..." (error = UB/fuel)
  S set|get|getb <id> ; S sortu|size|list|clear ; S merge id id ...        IdSetSmall<uint64_t>
  R reset ; R add <member> <parent> ; R size ; R build m2p|p2m|both ; R look m2p|p2m <k>
  R hist <n> m1 r1 .. mn rn k1 .. kp             a whole history on a fresh stash: all builders, all probes
  S hist <n> id1 .. idn <m> o1 .. om k1 .. kp    a whole history on a fresh IdSetSmall
  I new <initial_buffer_size> ; I add <hex payload> ; I get <h> ; I rm <h> ; I gc ; I clear ; I size
        ; I idx
-/
import Osmium.Model.IdSet
import Osmium.Model.RelMap
import Osmium.Model.Stash
import Driver.Common

open Driver
open Osmium

structure St where
  dense : List ((Nat × Nat) × IdSet.Dense) := []
  small : IdSet.Small := []
  rel : RelMap.Stash := {}
  m2p : Option RelMap.Index := none
  p2m : Option RelMap.Index := none
  stash : Stash.State := Stash.init 0

def getDense (st : St) (k : Nat × Nat) : IdSet.Dense :=
  match st.dense.lookup k with
  | some d => d
  | none => {}

def putDense (st : St) (k : Nat × Nat) (d : IdSet.Dense) : St :=
  { st with dense := (k, d) :: st.dense.filter (fun e => e.1 != k) }

def natList (l : List Nat) : String :=
  " ".intercalate (toString l.length :: l.map toString)

def stepDense (st : St) (w cb : Nat) (rest : List String) : St × String :=
  let d := getDense st (w, cb)
  let k := (w, cb)
  match rest with
  | [op, ids] =>
    match ids.toNat? with
    | none => (st, "bad-op")
    | some id =>
      if id ≥ 2 ^ w then (st, "bad-op") else
      match op with
      | "set" => (putDense st k (IdSet.step w cb d (.set id)).1, "ok")
      | "unset" => (putDense st k (IdSet.step w cb d (.unset id)).1, "ok")
      | "cas" =>
        match IdSet.step w cb d (.checkAndSet id) with
        | (d', .bool b) => (putDense st k d', b01 b)
        | _ => (st, "bad-op")
      | "get" => (st, b01 (IdSet.get cb d id))
      | _ => (st, "bad-op")
  | ["size"] => (st, toString d.size)
  | ["empty"] => (st, b01 (IdSet.empty d))
  | ["clear"] => (putDense st k (IdSet.clear d), "ok")
  | ["copy"] => (putDense st k (IdSet.copy d), "ok")
  | ["iter"] =>
    match IdSet.toList w cb d with
    | none => (st, "error")
    | some l => (st, natList l)
  | _ => (st, "bad-op")

/-- `<count>[:v,v,..]` -/
def cntList (l : List Nat) : String :=
  match l with
  | [] => "0"
  | _ => toString l.length ++ ":" ++ ",".intercalate (l.map toString)

def bits (l : List Bool) : String := String.join (l.map b01)

/-- `S hist`: n set()s on a fresh set, raw content, get, sort_unique, get_binary_search, merge_sorted -/
def histSmall (args : List Nat) : String :=
  match args with
  | [] => "bad-op"
  | n :: rest =>
    if rest.length < n + 1 then "bad-op" else
    let ids := rest.take n
    let rest := rest.drop n
    match rest with
    | [] => "bad-op"
    | m :: rest =>
      if rest.length < m then "bad-op" else
      let others := rest.take m
      let probes := rest.drop m
      let s := ids.foldl IdSet.Small.set []
      let s1 := IdSet.Small.sortUnique s
      let other := IdSet.Small.sortUnique (others.foldl IdSet.Small.set [])
      let s2 := IdSet.Small.mergeSorted s1 other
      s!"raw {natList s} | get {bits (probes.map (IdSet.Small.get s))} | sorted {natList s1} | getb {bits (probes.map (IdSet.Small.getBinarySearch s1))} | merged {natList s2} | getb {bits (probes.map (IdSet.Small.getBinarySearch s2))}"

def stepSmall (st : St) (rest : List String) : St × String :=
  let s := st.small
  match rest with
  | "hist" :: args =>
    match args.mapM String.toNat? with
    | none => (st, "bad-op")
    | some a => if a.any (· ≥ 2 ^ 64) then (st, "bad-op") else (st, histSmall a)
  | ["sortu"] => ({ st with small := IdSet.Small.sortUnique s }, "ok")
  | ["size"] => (st, toString s.length)
  | ["list"] => (st, natList s)
  | ["clear"] => ({ st with small := [] }, "ok")
  | "merge" :: ids =>
    match ids.mapM String.toNat? with
    | none => (st, "bad-op")
    | some o =>
      -- the other set: set() each id, sort_unique()
      let other := IdSet.Small.sortUnique (o.foldl IdSet.Small.set [])
      ({ st with small := IdSet.Small.mergeSorted s other }, "ok")
  | [op, ids] =>
    match ids.toNat? with
    | none => (st, "bad-op")
    | some id =>
      match op with
      | "set" => ({ st with small := IdSet.Small.set s id }, "ok")
      | "get" => (st, b01 (IdSet.Small.get s id))
      | "getb" => (st, b01 (IdSet.Small.getBinarySearch s id))
      | _ => (st, "bad-op")
  | _ => (st, "bad-op")

def ixInfo (ix : RelMap.Index) : String :=
  s!"{ix.size} {b01 ix.empty}"

def ixHist (ix : RelMap.Index) (probes : List Nat) : String :=
  " ".intercalate (toString ix.size :: b01 ix.empty :: probes.map fun k => cntList (ix.forEach k))

def pairsOf : List Nat → List (Nat × Nat)
  | a :: b :: r => (a, b) :: pairsOf r
  | _ => []

/-- `R hist`: the adds on a fresh stash, then every builder (each on its own copy of the stash: the builders
    consume it), sizes and every probe -/
def histRel (args : List Nat) : String :=
  match args with
  | [] => "bad-op"
  | n :: rest =>
    if rest.length < 2 * n then "bad-op" else
    let adds := pairsOf (rest.take (2 * n))
    let probes := rest.drop (2 * n)
    let st : RelMap.Stash := adds.foldl (fun s p => s.add p.1 p.2) {}
    let m := st.buildMemberToParent
    let p := st.buildParentToMember
    let (bm, bp) := st.buildIndexes
    s!"S {st.size} {st.sizes.1} {st.sizes.2} {b01 st.empty} | M {ixHist m probes} | P {ixHist p probes} | BM {ixHist bm probes} | BP {ixHist bp probes} | B {bm.size} {b01 bm.empty}"

def stepRel (st : St) (rest : List String) : St × String :=
  match rest with
  | "hist" :: args =>
    match args.mapM String.toNat? with
    | none => (st, "bad-op")
    | some a => if a.any (· ≥ 2 ^ 64) then (st, "bad-op") else (st, histRel a)
  | ["reset"] => ({ st with rel := {}, m2p := none, p2m := none }, "ok")
  | ["add", a, b] =>
    match a.toNat?, b.toNat? with
    | some m, some r =>
      if m ≥ 2 ^ 64 || r ≥ 2 ^ 64 then (st, "bad-op")
      else ({ st with rel := st.rel.add m r }, "ok")
    | _, _ => (st, "bad-op")
  | ["size"] => (st, s!"{st.rel.size} {st.rel.sizes.1} {st.rel.sizes.2} {b01 st.rel.empty}")
  | ["build", "m2p"] =>
    let ix := st.rel.buildMemberToParent
    ({ st with m2p := some ix }, ixInfo ix)
  | ["build", "p2m"] =>
    let ix := st.rel.buildParentToMember
    ({ st with p2m := some ix }, ixInfo ix)
  | ["build", "both"] =>
    let (a, b) := st.rel.buildIndexes
    ({ st with m2p := some a, p2m := some b }, ixInfo a ++ " " ++ ixInfo b)
  | ["look", which, ks] =>
    match ks.toNat? with
    | none => (st, "bad-op")
    | some k =>
      if k ≥ 2 ^ 64 then (st, "bad-op") else
      let ix := if which == "m2p" then st.m2p else st.p2m
      match ix with
      | none => (st, "no-index")
      | some ix => (st, natList (ix.forEach k))
  | _ => (st, "bad-op")

def idxStr (l : List Nat) : String :=
  " ".intercalate (toString l.length :: l.map fun x => if x == Stash.REMOVED then "-" else toString x)

def stepStash (st : St) (rest : List String) : St × String :=
  let s := st.stash
  match rest with
  | ["new", n] =>
    match n.toNat? with
    | none => (st, "bad-op")
    | some ibs => let s' := Stash.init ibs; ({ st with stash := s' }, s!"ok {s'.capacity}")
  | ["add", h] =>
    match unhex h with
    | none => (st, "bad-op")
    | some p =>
      match Stash.step s (.add p) with
      | (s', .handle hd) =>
        ({ st with stash := s' }, s!"{hd} {s'.countItems} {s'.countRemoved} {Stash.committed s'} {s'.capacity}")
      | _ => (st, "ub")
  | ["get", h] =>
    match h.toNat? with
    | none => (st, "bad-op")
    | some h =>
      match Stash.step s (.get h) with
      | (_, .item sz rm p) => (st, s!"{sz} {b01 rm} {hex p}")
      | _ => (st, "ub")
  | ["rm", h] =>
    match h.toNat? with
    | none => (st, "bad-op")
    | some h =>
      match Stash.step s (.remove h) with
      | (s', .unit) => ({ st with stash := s' }, s!"ok {s'.countItems} {s'.countRemoved}")
      | _ => (st, "ub")
  | ["gc"] =>
    match Stash.step s .gc with
    | (s', .unit) => ({ st with stash := s' }, s!"ok {s'.countItems} {s'.countRemoved} {Stash.committed s'} {s'.capacity}")
    | _ => (st, "ub")
  | ["clear"] => ({ st with stash := Stash.clear s }, "ok")
  | ["size"] => (st, s!"{s.countItems} {s.countRemoved}")
  | ["idx"] => (st, idxStr s.index)
  | _ => (st, "bad-op")

def step (st : St) (line : String) : St × String :=
  match words line with
  | "D" :: w :: cb :: rest =>
    match w.toNat?, cb.toNat? with
    | some w, some cb => stepDense st w cb rest
    | _, _ => (st, "bad-op")
  | "S" :: rest => stepSmall st rest
  | "R" :: rest => stepRel st rest
  | "I" :: rest => stepStash st rest
  | _ => (st, "bad-op")

def main : IO Unit := loop step {}
