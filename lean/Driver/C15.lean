/- Model driver for C15 (stub: not built yet). -/
import Driver.Common

def main : IO Unit := pure ()
