/-
Model driver for C10 (area assembly).  Same op lines as harness/c10.cpp:

  seg ax ay bx by cx cy dx dy
      -> "lt(s,t) lt(t,s) eq osx(s,t) osx(t,s) yro(s,t) yro(t,s) I(s,t) I(t,s) # case(s,t) case(t,s)"
         I = "0" | "1:x:y" (collinear overlap: exact location) | "1:?" (proper crossing: the
         returned point is a rounded float computation that is not modelled)
  list x1 y1 x2 y2 ...   -> "sorted=<segs> erased=<segs> pairs=N overlap=N ix=N"
  extract id:x:y ...     -> "segs=<segs> invalid=N dupnodes=N"
  ring o|i x y x y ...   -> "sum=S cw=0|1 fixed=<points> fsum=S"
  asm <mode> <cfg> w<id>:<role> id:x:y ...
      -> what create_rings() decides BEFORE ring building:
         "invalid=N nodes=N pairs=N overlap=N ix=N open=N touching=N remaining=N"
  judge <mode> <cfg> w<id>:<role> id:x:y ... ## O:id@x@y,..|I:..|O:..
      -> the executable specification `Valid` applied to the rings the real assembler
         produced: "ok" or "bad:<failing clauses>"
  rb x1 y1 x2 y2 ...     -> ring building step by step (model of create_locations_list,
         find_split_locations, create_rings_simple_case incl. find_enclosing_ring, and the cutting
         into partial rings of create_rings_complex_case):
         "n=N ix=K [segs=.. locs=item.rev,.. open=N opens=x:y;.. splits=x:y;.. ret=0|1
            (simple rings=O:item.rev,..:sum|I<outer>:..  |  complex pieces=item.rev,..|..)]"
-/
import Osmium.Model.Area
import Driver.Common

open Osmium.Area Driver

def showSeg (s : Seg) : String :=
  s!"{s.first.x},{s.first.y},{s.second.x},{s.second.y}"

def showSegs (l : List Seg) : String :=
  if l.isEmpty then "-" else ";".intercalate (l.map showSeg)

def caseName : IsectCase → String
  | .same => "same"
  | .endpointTouch => "endpoint-touch"
  | .cross => "cross"
  | .miss => "miss"
  | .parallel => "parallel"
  | .collinearTouch => "collinear-touch"
  | .collinearApart => "collinear-apart"
  | .overlap _ => "overlap"

def showIsect : IsectCase → String
  | .cross => "1:?"
  | .overlap v => s!"1:{v.x}:{v.y}"
  | _ => "0"

def ints (ws : List String) : Option (List Int) := ws.mapM String.toInt?

def segsOfInts : List Int → Option (List Seg)
  | [] => some []
  | a :: b :: c :: d :: rest => (segsOfInts rest).map (Seg.ofEnds ⟨a, b⟩ ⟨c, d⟩ :: ·)
  | _ => none

def pointsOfInts : List Int → Option (List Vec)
  | [] => some []
  | a :: b :: rest => (pointsOfInts rest).map (⟨a, b⟩ :: ·)
  | _ => none

def parseNode (tok : String) : Option Node :=
  match tok.splitOn ":" with
  | [i, x, y] => do
    let i ← i.toInt?
    let x ← x.toInt?
    let y ← y.toInt?
    some ⟨i, ⟨x, y⟩⟩
  | _ => none

/-- (way id, nodes) list from "w<id>:<role> node node ... w<id>:<role> ..." -/
def parseWays (toks : List String) : Option (List (Int × List Node)) :=
  let r := toks.foldl (fun (acc : Option (List (Int × List Node))) tok =>
    match acc with
    | none => none
    | some ws =>
      if tok.startsWith "w" then
        match ((tok.drop 1).toString.splitOn ":") with
        | [i, _] => (i.toInt?).map fun i => (i, []) :: ws
        | _ => none
      else
        match ws, parseNode tok with
        | (i, ns) :: more, some n => some ((i, n :: ns) :: more)
        | _, _ => none) (some [])
  r.map fun ws => (ws.map fun (i, ns) => (i, ns.reverse)).reverse

/-- the ways the assembler extracts segments from: mode w = the first way only; relation
    modes = members in order, a way id that occurred before is skipped (duplicate_ways) -/
def effectiveWays (mode : String) (ways : List (Int × List Node)) : List (List Node) :=
  if mode == "w" || mode == "v" then (ways.take 1).map (·.2)
  else
    (ways.foldl (fun (acc : List Int × List (List Node)) w =>
      if acc.1.contains w.1 then acc else (w.1 :: acc.1, acc.2 ++ [w.2])) ([], [])).2

def parseRing (tok : String) : Option (Bool × List Vec) :=
  match tok.splitOn ":" with
  | [k, pts] => do
    let ps ← (pts.splitOn ",").mapM fun p =>
      match p.splitOn "@" with
      | [_, x, y] => do
        let x ← x.toInt?
        let y ← y.toInt?
        some (⟨x, y⟩ : Vec)
      | _ => none
    some (k == "O", ps)
  | _ => none

def buildMP : List (Bool × List Vec) → MP → Option MP
  | [], acc => some acc.reverse
  | (true, pts) :: rest, acc => buildMP rest (⟨pts, []⟩ :: acc)
  | (false, pts) :: rest, o :: acc => buildMP rest ({ o with inners := o.inners ++ [pts] } :: acc)
  | (false, _) :: _, [] => none

def parseMP (tok : String) : Option MP :=
  if tok == "-" || tok == "" then some [] else do
    let rs ← (tok.splitOn "|").mapM parseRing
    buildMP rs []

def showPoints (l : List Vec) : String :=
  ";".intercalate (l.map fun v => s!"{v.x},{v.y}")

def showEntries (r : List SLoc) : String :=
  ",".intercalate (r.map fun x => s!"{x.item}.{b01 x.reverse}")

def showLocs (l : List Vec) : String :=
  if l.isEmpty then "-" else ";".intercalate (l.map fun v => s!"{v.x}:{v.y}")

def ringBuilding (input : List Seg) : String :=
  let segs := eraseDuplicates (sortSegs input)
  if segs.isEmpty then "n=0"
  else
    let ix := findIntersections segs
    if ix > 0 then s!"n={segs.length} ix={ix}"
    else
      let locs := locationsList segs
      let (opens, splits) := findSplitLocations segs
      let head := s!"n={segs.length} ix=0 segs={showSegs segs} locs={showEntries locs} open={opens.length} opens={showLocs (opens.map (SLoc.loc segs))} splits={showLocs splits} ret={b01 opens.isEmpty}"
      if !opens.isEmpty then head
      else if splits.isEmpty then
        match createRingsSimple (findEnclosingRing segs) segs with
        | none => head ++ " simple assert"
        | some (rings, _) =>
          head ++ " simple rings=" ++ "|".intercalate (rings.map fun r =>
            (match r.outer with | none => "O" | some k => s!"I{k}") ++ ":" ++ showEntries r.segs ++ ":" ++
              toString (ringOf segs r.segs).sum)
      else if splits.length > 100 then head ++ " toomany"
      else
        match createPieces segs splits with
        | none => head ++ " complex assert"
        | some (pieces, _) => head ++ " complex pieces=" ++ "|".intercalate (pieces.map showEntries)

def step (line : String) : String :=
  match words line with
  | "seg" :: rest =>
    match ints rest with
    | some [ax, ay, bx, by', cx, cy, dx, dy] =>
      let s := Seg.ofEnds ⟨ax, ay⟩ ⟨bx, by'⟩
      let t := Seg.ofEnds ⟨cx, cy⟩ ⟨dx, dy⟩
      let c1 := s.intersectCase t
      let c2 := t.intersectCase s
      " ".intercalate [b01 (s.lt t), b01 (t.lt s), b01 (s == t), b01 (s.outsideXRange t), b01 (t.outsideXRange s),
        b01 (s.yRangeOverlap t), b01 (t.yRangeOverlap s), showIsect c1, showIsect c2, "#", caseName c1, caseName c2]
    | _ => "bad-op"
  | "list" :: rest =>
    match (ints rest).bind segsOfInts with
    | some l =>
      let sorted := sortSegs l
      let (e, pairs, ov) := eraseDuplicatesFull sorted
      s!"sorted={showSegs sorted} erased={showSegs e} pairs={pairs} overlap={ov} ix={findIntersections e}"
    | none => "bad-op"
  | "extract" :: rest =>
    match rest.mapM parseNode with
    | some w => s!"segs={showSegs (extractSegments w)} invalid={countInvalid w} dupnodes={countDupNodesFrom none w}"
    | none => "bad-op"
  | "ring" :: k :: rest =>
    match (ints rest).bind pointsOfInts with
    | some pts =>
      let r := ringOfPoints pts
      let f := r.fixDirection (k == "o")
      s!"sum={r.sum} cw={b01 r.isCw} fixed={showPoints f.points} fsum={f.sum}"
    | none => "bad-op"
  | "rb" :: rest =>
    match (ints rest).bind segsOfInts with
    | some l => if l.any (fun s => s.first == s.second) then "bad-op" else ringBuilding l
    | none => "bad-op"
  | "asm" :: mode :: cfg :: rest =>
    match parseWays rest, cfg.toNat? with
    | some ways, some cfg =>
      let ws := effectiveWays mode ways
      let inv := (ws.map countInvalid).foldl (· + ·) 0
      if inv > 0 && cfg / 4 % 2 == 0 then s!"invalid={inv}"
      else
        let p := preCheck (allSegments ws)
        s!"invalid={inv} nodes={p.nodes} pairs={p.pairs} overlap={p.overlapping} ix={p.intersections} open={p.openRings} touching={p.touching} remaining={p.remaining}"
    | _, _ => "bad-op"
  | "judge" :: mode :: _cfg :: rest =>
    let wayToks := rest.takeWhile (· != "##")
    match parseWays wayToks, (rest.dropWhile (· != "##")).drop 1 with
    | some ways, [ringTok] =>
      match parseMP ringTok with
      | some mp =>
        let v := judge (allSegments (effectiveWays mode ways)) mp
        if v.ok then "ok" else "bad:" ++ ",".intercalate v.failing
      | none => "bad-op"
    | _, _ => "bad-op"
  | _ => "bad-op"

def main : IO Unit := loopPure step
