/- Model driver for C10 (stub: not built yet). -/
import Driver.Common

def main : IO Unit := pure ()
