/-
Line-protocol helpers shared by all model drivers.  One op per input line, one output line
per op.  Core-only.
-/
namespace Driver

def words (line : String) : List String :=
  (line.trimAscii.toString.splitOn " ").filter (· ≠ "")

def b01 (b : Bool) : String := if b then "1" else "0"

def hexDigit (c : Char) : Option Nat :=
  if '0' ≤ c ∧ c ≤ '9' then some (c.toNat - '0'.toNat)
  else if 'a' ≤ c ∧ c ≤ 'f' then some (c.toNat - 'a'.toNat + 10)
  else if 'A' ≤ c ∧ c ≤ 'F' then some (c.toNat - 'A'.toNat + 10)
  else none

/-- "0a41" → [0x0a, 0x41]; "-" → [] -/
def unhex (s : String) : Option (List UInt8) :=
  if s == "-" then some [] else
  let rec go : List Char → List UInt8 → Option (List UInt8)
    | [], acc => some acc.reverse
    | [_], _ => none
    | a :: b :: rest, acc =>
      match hexDigit a, hexDigit b with
      | some x, some y => go rest (UInt8.ofNat (x * 16 + y) :: acc)
      | _, _ => none
  go s.toList []

def hexChar (n : Nat) : Char :=
  if n < 10 then Char.ofNat (n + '0'.toNat) else Char.ofNat (n - 10 + 'a'.toNat)

/-- [] → "-" -/
def hex (bs : List UInt8) : String :=
  if bs.isEmpty then "-" else
  String.ofList (bs.flatMap fun b => [hexChar (b.toNat / 16), hexChar (b.toNat % 16)])

/-- Stateful line loop: `step state line = (state', output line)`. -/
partial def loop {σ : Type} (step : σ → String → σ × String) (s : σ) : IO Unit := do
  let stdin ← IO.getStdin
  let stdout ← IO.getStdout
  let rec go (s : σ) : IO Unit := do
    let line ← stdin.getLine
    if line.isEmpty then
      stdout.flush
      return ()
    let (s', out) := step s line
    stdout.putStrLn out
    go s'
  go s

/-- Stateless variant. -/
def loopPure (f : String → String) : IO Unit :=
  loop (fun (_ : Unit) l => ((), f l)) ()

end Driver
