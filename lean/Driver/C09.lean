/-
Model driver for C09 (same op lines as harness/c09.cpp):

  rd  <comp> <fd|buf> <ibs> <path> <fixes> <streams>
  rtm <comp> <fd|buf> <ibs> <path> <fixes> <streams>

<fixes>   = three or four 0/1 digits: bufMulti bzUnused bufTrunc [gzDirect] (which repairs the tree under test has)
<streams> = "-" or comma separated  csize:payloadlen[:t|:ts|:d|:m]
            (t = truncated, ts = truncated with slack, d = damaged: data error after payloadlen bytes,
             m = no stream header: BZ_DATA_ERROR_MAGIC / "incorrect header check"; gzread: raw bytes / garbage)
            — the library oracle: what zlib / libbz2 see in the file (computed by the reference
            implementation at generation time).  <path> is ignored.
Output:  <status> lens=<rle> total=<n> | offs=<rle> fsize=<n>        (rtm: without the part after "|")
-/
import Driver.Common
import Osmium.Model.Decomp

open Osmium.Decomp

namespace Driver.C09

def rle (xs : List Nat) : String :=
  let rec go : List Nat → Nat → Nat → List String → List String
    | [], cur, n, acc => (if n == 0 then acc else (item cur n) :: acc)
    | x :: xs, cur, n, acc =>
      if n > 0 && x == cur then go xs cur (n + 1) acc
      else go xs x 1 (if n == 0 then acc else (item cur n) :: acc)
  let parts := (go xs 0 0 []).reverse
  if parts.isEmpty then "-" else ",".intercalate parts
where
  item (v n : Nat) : String := if n > 1 then s!"{v}x{n}" else s!"{v}"

def parseStream (w : String) : Option (Stream Unit) :=
  match w.splitOn ":" with
  | [c, p] => do
    let c ← c.toNat?
    let p ← p.toNat?
    pure { csize := c, payload := List.replicate p () }
  | [c, p, t] => do
    let c ← c.toNat?
    let p ← p.toNat?
    if t == "t" then pure { csize := c, payload := List.replicate p (), trunc := true }
    else if t == "ts" then pure { csize := c, payload := List.replicate p (), trunc := true, slack := true }
    else if t == "d" then pure { csize := c, payload := List.replicate p (), bad := .data }
    else if t == "m" then pure { csize := c, payload := List.replicate p (), bad := .magic }
    else none
  | _ => none

def parseStreams (w : String) : Option (CFile Unit) :=
  if w == "-" then some [] else (w.splitOn ",").mapM parseStream

def parseFixes (w : String) : Option Fixes :=
  match w.toList with
  | [a, b, c] =>
    if [a, b, c].all (fun x => x == '0' || x == '1') then
      some { bufMulti := a == '1', bzUnused := b == '1', bufTrunc := c == '1' }
    else none
  | [a, b, c, d] =>
    if [a, b, c, d].all (fun x => x == '0' || x == '1') then
      some { bufMulti := a == '1', bzUnused := b == '1', bufTrunc := c == '1', gzDirect := d == '1' }
    else none
  | _ => none

def errStr (e : Err) : String :=
  let c := match e.cls with
    | .gzip => "gzip"
    | .bzip2 => "bzip2"
    | .fuel => "FUEL"
  let p := match e.phase with
    | .read => "read"
    | .close => "close"
  s!"err:{c}@{p}"

def step (line : String) : String :=
  match words line with
  | [op, comp, mode, ibs, _path, fx, streams] =>
    match (match comp with | "none" => some Comp.none | "gzip" => some Comp.gzip | "bzip2" => some Comp.bzip2 | _ => none),
          (match mode with | "fd" => some Mode.fd | "buf" => some Mode.buf | _ => none),
          ibs.toNat?, parseFixes fx, parseStreams streams with
    | some c, some m, some ibs, some fx, some f =>
      if op != "rd" && op != "rtm" then "bad-op" else
      let r := readFile { ibs := ibs } fx c m f
      let status := match r.err with
        | none => "ok"
        | some e => if op == "rtm" then s!"err:{(errStr e).drop 4 |>.takeWhile (· != '@')}@queue" else errStr e
      let lens := r.chunks.map List.length
      let head := s!"{status} lens={rle lens} total={lens.sum}"
      if op == "rtm" then head
      else s!"{head} | offs={rle r.offs} fsize={inputSize c f}"
    | _, _, _, _, _ => "bad-op"
  | _ => "bad-op"

end Driver.C09

def main : IO Unit := Driver.loopPure Driver.C09.step
