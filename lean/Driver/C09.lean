/- Model driver for C09 (stub: not built yet). -/
import Driver.Common

def main : IO Unit := pure ()
