/-
Model driver for C11.  One history per line:

  H <variant> <relmask> <memmask> <cb> <maxbuf> <wr> <fixed> | R <id> <content> <k><ref> ... | ...
      | O <k> <id> <content> | Q <k> <id> <hint> | F | ... | E

  variant  : subset of the letters n w r (TNodes/TWays/TRelations) or `mp` (MultipolygonManager)
  relmask  : new_relation(r)  = bit (content mod 4) of relmask
             (mp: content mod 4 ∈ {0,1}, i.e. type=multipolygon|boundary, and some way member)
  memmask  : new_member(r,m,n) = bit ((|ref| + n) mod 8) of memmask   (mp: always true)
  k        : n | w | r

or one GENERATED history per line (large structured histories; harness/c11.cpp and tools/props/c11.py
synthesize the same history from the same parameters):

  G <variant> <relmask> <memmask> <cb> <maxbuf> <wr> <fixed> | <shape> <n> <k> <ro> <sg> <st> <kd> <miss> <dup> <extra> <ni> <q> <seed> [<ak> <am>] | E

  n members M(0..n-1): magnitude 10 + j*st (ak = 0 or absent) or 10 + (j mod am)*st + (j div am)*2^ak (the ID ALPHABET
  dimension: members j, j+am, j+2am, … have ids that differ by multiples of 2^ak), negative iff sg=1 | sg=2 ∧ j%3=0 | sg=3 ∧ j<2; kind w (kd=0), nwr[j%3] (kd=1), n (2), r (3)
  shape 0 share    : n*k relations, relation i = [M(i mod n)]          1 shareadj : n*k relations, relation i = [M(i div k)]
        2 window   : n relations, relation i = [M(i..i+k-1 mod n)]     3 huge     : relation 0 = all members, relation i≥1 = [M((i-1)k)]
        4 pairs    : n relations, relation i = [M(i), M(n-1-i)]         5 random   : n relations, 1..k members chosen by hash
        6 hub      : n relations, relation i = [M(i)] (+ M(0) if i%k=0)
  dup: relation i lists its first member once more if i%dup=0; ni: relation i is not interesting (content%4=2) if i%ni=ni-1;
  ro: input order of the relations 0 ascending, 1 descending, 2 interleaved (front/back alternating);
  miss: M(j) never arrives if j%miss=miss-1; extra: unrelated objects (magnitude+1, st≥2) every extra-th member;
  q: a lookup of a pseudo-random member after every q-th object and of every member after the run (0: none);
  after every object the fence lookup `Q n 0`, after every 1000th a flush.
  Output: `G ops=<objects> ev=<C and N events> ck=<running digest after every 4096th object and at the end> hist=<digest of
  the synthesized history> ; I <count> <digest> ; S … ; F … ; U…` (digest: see `Digest` below).

Output: the events in order, then the incomplete list, database counts, flush statistics:
  C <rid> <k><ref>=<res>,...   N <k><id>   Q <k><id>=<res>   T
  I <rid>,...   S <live rels>/<rels> n=<t>/<a>/<r> w=... r=...   F <flushes> <flushed> <left>   U<ub>
  res : `-` nullptr | `<id>:<content>:1` live object | `W` wild pointer
-/
import Osmium.Model.RelMgrVec
import Driver.Common

open Osmium.RelMgr Osmium.Order Driver

def parseKind : Char → Option Kind
  | 'n' => some .node
  | 'w' => some .way
  | 'r' => some .relation
  | _ => none

def kindStr : Kind → String
  | .node => "n"
  | .way => "w"
  | .relation => "r"

def parseMember (s : String) : Option Member :=
  match s.toList with
  | c :: rest => do
    let k ← parseKind c
    let ref ← (String.ofList rest).toInt?
    some ⟨k, ref⟩
  | [] => none

def splitSections (ws : List String) : List (List String) :=
  let rec go : List String → List String → List (List String) → List (List String)
    | [], cur, acc => (cur.reverse :: acc).reverse
    | w :: rest, cur, acc => if w == "|" then go rest [] (cur.reverse :: acc) else go rest (w :: cur) acc
  go ws [] []

def mkCfg (variant : String) (rm mm : Nat) (cb : Bool) (maxbuf wr : Nat) (fixed : Bool) : Cfg :=
  let mp := variant == "mp"
  { tn := !mp && variant.contains 'n'
    tw := mp || variant.contains 'w'
    tr := !mp && variant.contains 'r'
    newRel := fun r =>
      if mp then (r.content % 4 == 0 || r.content % 4 == 1) && r.members.any (fun m => m.kind == .way)
      else (rm >>> (r.content % 4)) % 2 == 1
    newMem := fun _ m n => if mp then true else (mm >>> ((m.ref.natAbs + n) % 8)) % 2 == 1
    hasCallback := cb
    maxBuf := maxbuf
    wr := wr
    fixed := fixed }

def lookupStr : Lookup → String
  | .absent => "-"
  | .found o => s!"{o.id}:{o.content}:1"
  | .wild => "W"

def eventStr : Event → String
  | .completeWild pos => s!"C? {pos}"
  | .complete _ rid _ looks =>
    s!"C {rid} " ++ ",".intercalate (looks.map fun (m, l) => s!"{kindStr m.kind}{m.ref}={lookupStr l}")
  | .notIn k id => s!"N {kindStr k}{id}"
  | .query k id res => s!"Q {kindStr k}{id}={lookupStr res}"
  | .thrown => "T"

def countsStr (es : List Elem) : String :=
  let (t, a, r) := dbCounts es
  s!"{t}/{a}/{r}"

def tailStr (s : State) : List String := [
  s!"S {s.countRelations}/{s.rdb.size} n={countsStr s.ndb} w={countsStr s.wdb} r={countsStr s.rmdb}",
  s!"F {s.flushes} {s.flushedBytes} {s.outBytes}",
  s!"U{b01 s.ub}"]

/-- The compiled model runs the vector machine `vRun` (Model/RelMgrVec.lean); `vrun_abs`
    (Lemmas/RelMgrVec.lean): `(vRun c rels ops).abs = run c rels ops` for all arguments. -/
def runLine (secs : List (List String)) : Option String := do
  match secs with
  | ("H" :: variant :: rm :: mm :: cb :: maxbuf :: wr :: fixed :: []) :: rest =>
    let cfg := mkCfg variant (← rm.toNat?) (← mm.toNat?) (cb == "1") (← maxbuf.toNat?) (← wr.toNat?) (fixed == "1")
    let mut rels : List Rel := []
    let mut ops : List Op := []
    for sec in rest do
      match sec with
      | "R" :: id :: content :: ms =>
        let members ← ms.mapM parseMember
        rels := { id := ← id.toInt?, content := ← content.toNat?, members := members } :: rels
      | ["O", k, id, content] =>
        let k ← parseKind (k.toList.headD ' ')
        ops := .obj ⟨k, ← id.toInt?, ← content.toNat?⟩ :: ops
      | "Q" :: k :: id :: _ =>
        let k ← parseKind (k.toList.headD ' ')
        ops := .query k (← id.toInt?) :: ops
      | ["F"] => ops := .flush :: ops
      | ["E"] => pure ()
      | [] => pure ()
      | _ => none
    let s := (vRun cfg rels.reverse ops.reverse).abs
    -- MultipolygonManager does not override *_not_in_any_relation: nothing to observe there
    let evs := (s.events.filter fun e => match e with | .notIn .. => variant != "mp" | _ => true).map eventStr
    let tail := ("I " ++ (if s.incomplete.isEmpty then "-" else ",".intercalate (s.incomplete.map toString))) :: tailStr s
    some (" ; ".intercalate (evs ++ tail))
  | _ => none

/-! ### Generated histories -/

namespace Digest

def mix (x : UInt64) : UInt64 :=
  let z := x + 0x9E3779B97F4A7C15
  let z := (z ^^^ (z >>> 30)) * 0xBF58476D1CE4E5B9
  let z := (z ^^^ (z >>> 27)) * 0x94D049BB133111EB
  z ^^^ (z >>> 31)

/-- pseudo-random choice `(seed, a, b)` -/
def hm (seed a b : UInt64) : UInt64 := mix (mix (seed + a) + b)

/-- one step of the running digest -/
def step (h x : UInt64) : UInt64 :=
  let z := (h ^^^ x) * 0x9E3779B97F4A7C15
  z ^^^ (z >>> 32)

def ofInt (i : Int) : UInt64 := i.toInt64.toUInt64

def kc : Kind → UInt64
  | .node => 1
  | .way => 2
  | .relation => 3

/-- (status, content): 0 nullptr, 1 not the input object / wild, 2 the input object -/
def lookCode (ref : Int) : Lookup → UInt64 × UInt64
  | .absent => (0, 0)
  | .wild => (1, 0)
  | .found o => if o.id == ref then (2, UInt64.ofNat o.content) else (1, 0)

/-- hash of a C or N event (they are summed per object: the order of the callbacks of one
    object is not part of the property) -/
def evHash : Event → UInt64
  | .complete _ rid _ looks =>
    looks.foldl (fun e (m, l) =>
      let (st, ct) := lookCode m.ref l
      step (step (step (step e (kc m.kind)) (ofInt m.ref)) st) ct) (step 1 (ofInt rid))
  | .completeWild pos => step 5 (UInt64.ofNat pos)
  | .notIn k id => step (step 2 (kc k)) (ofInt id)
  | _ => 0

structure Acc where
  h : UInt64 := 0       -- running digest
  a : UInt64 := 0       -- sum of the C/N events since the last boundary
  objs : Nat := 0       -- fences seen (= objects)
  evs : Nat := 0
  cks : List UInt64 := []

/-- boundaries are the query events (the fence after every object) and `thrown` -/
def feed (mp : Bool) (acc : Acc) : Event → Acc
  | .query k id res =>
    let (st, ct) := lookCode id res
    let h := step (step (step (step (step acc.h acc.a) 3) (kc k)) (ofInt id)) (st * 4294967296 + ct)
    let fence := k == .node && id == 0
    let objs := if fence then acc.objs + 1 else acc.objs
    { acc with h := h, a := 0, objs := objs, cks := if fence && objs % 4096 == 0 then h :: acc.cks else acc.cks }
  | .thrown => { acc with h := step (step acc.h acc.a) 4, a := 0 }
  | .notIn k id => if mp then acc else { acc with a := acc.a + evHash (.notIn k id), evs := acc.evs + 1 }
  | e => { acc with a := acc.a + evHash e, evs := acc.evs + 1 }

/-- weighted sum `Σ (i+1)·x_i` (a cheap position-sensitive digest for the synthesized history) -/
structure WSum where
  i : UInt64 := 1
  s : UInt64 := 0

def WSum.add (w : WSum) (x : UInt64) : WSum := { i := w.i + 1, s := w.s + w.i * x }

end Digest

structure GSpec where
  shape : Nat
  n : Nat
  k : Nat
  ro : Nat
  sg : Nat
  st : Nat
  kd : Nat
  miss : Nat
  dup : Nat
  extra : Nat
  ni : Nat
  q : Nat
  seed : UInt64
  ak : Nat := 0
  am : Nat := 1

namespace GSpec
open Digest

def kindOf (g : GSpec) (j : Nat) : Kind :=
  match g.kd with
  | 0 => .way
  | 1 => if j % 3 == 0 then .node else if j % 3 == 1 then .way else .relation
  | 2 => .node
  | _ => .relation

def mag (g : GSpec) (j : Nat) : Nat :=
  if g.ak == 0 then 10 + j * g.st else 10 + (j % g.am) * g.st + (j / g.am) * 2 ^ g.ak

def neg (g : GSpec) (j : Nat) : Bool :=
  g.sg == 1 || (g.sg == 2 && j % 3 == 0) || (g.sg == 3 && j < 2)

def idOf (g : GSpec) (j : Nat) : Int := if g.neg j then -(g.mag j : Int) else (g.mag j : Int)

def nRels (g : GSpec) : Nat :=
  match g.shape with
  | 0 => g.n * g.k
  | 1 => g.n * g.k
  | 3 => 1 + g.n / g.k
  | _ => g.n

def memberIdx (g : GSpec) (i : Nat) : List Nat :=
  let js : List Nat :=
    match g.shape with
    | 0 => [i % g.n]
    | 1 => [i / g.k]
    | 2 => (List.range g.k).map (fun t => (i + t) % g.n)
    | 3 => if i == 0 then List.range g.n else [(i - 1) * g.k]
    | 4 => [i, g.n - 1 - i]
    | 5 =>
      let w := 1 + (hm g.seed (UInt64.ofNat i) 3).toNat % g.k
      (List.range w).map (fun t => (hm g.seed (UInt64.ofNat i) (UInt64.ofNat (10 + t))).toNat % g.n)
    | _ => if i % g.k == 0 then [i, 0] else [i]
  if g.dup > 0 && i % g.dup == 0 then js ++ [js.headD 0] else js

def rel (g : GSpec) (i : Nat) : Rel :=
  let cc := if g.ni > 0 && i % g.ni == g.ni - 1 then 2 else (hm g.seed (UInt64.ofNat i) 2).toNat % 2
  { id := (i : Int) + 1
    content := 4 * ((hm g.seed (UInt64.ofNat i) 1).toNat % 250) + cc
    members := (g.memberIdx i).map (fun j => ⟨g.kindOf j, g.idOf j⟩) }

def perm (g : GSpec) (p : Nat) : Nat :=
  let r := g.nRels
  match g.ro with
  | 0 => p
  | 1 => r - 1 - p
  | _ => if p % 2 == 0 then p / 2 else r - 1 - p / 2

def rels (g : GSpec) : List Rel := (List.range g.nRels).map (fun p => g.rel (g.perm p))

def content (g : GSpec) (k : Kind) (id : Int) : Nat :=
  (hm (g.seed ^^^ 0x55) (UInt64.ofNat id.natAbs) (kc k * 2 + (if id < 0 then 1 else 0))).toNat % 100000

/-- the objects of the second pass in file order: per type, negative ids by magnitude, then positive ids -/
def objects (g : GSpec) : Array Osmium.RelMgr.Obj := Id.run do
  let mut out : Array Osmium.RelMgr.Obj := #[]
  for k in [Kind.node, Kind.way, Kind.relation] do
    for negPass in [true, false] do
      for j in [0:g.n] do
        if g.kindOf j == k && g.neg j == negPass then
          if !(g.miss > 0 && j % g.miss == g.miss - 1) then
            out := out.push ⟨k, g.idOf j, g.content k (g.idOf j)⟩
          if g.extra > 0 && g.st ≥ 2 && j % g.extra == 0 then
            let id : Int := if negPass then -((g.mag j : Int) + 1) else (g.mag j : Int) + 1
            out := out.push ⟨k, id, g.content k id⟩
        if g.kd == 0 && k == .node && !negPass && g.extra > 0 && j % (g.extra * 7) == 0 then
          out := out.push ⟨.node, (g.mag j : Int), g.content .node (g.mag j : Int)⟩
  return out

def ops (g : GSpec) : List Op := Id.run do
  let objs := g.objects
  let mut out : Array Op := #[]
  let mut p := 0
  for o in objs do
    out := out.push (.obj o)
    out := out.push (.query .node 0)
    if g.q > 0 && p % g.q == g.q - 1 then
      let j := (hm g.seed (UInt64.ofNat p) 7).toNat % g.n
      out := out.push (.query (g.kindOf j) (g.idOf j))
    if p % 1000 == 999 then
      out := out.push .flush
    p := p + 1
  if g.q > 0 then
    for j in [0:g.n] do
      out := out.push (.query (g.kindOf j) (g.idOf j))
  return out.toList

def histDigest (rels : List Rel) (ops : List Op) : UInt64 :=
  let w := rels.foldl (fun (w : WSum) r =>
    r.members.foldl (fun w m => (w.add (kc m.kind)).add (ofInt m.ref))
      (((w.add (ofInt r.id)).add (UInt64.ofNat r.content)).add (UInt64.ofNat r.members.length))) {}
  let w := ops.foldl (fun (w : WSum) op =>
    match op with
    | .obj o => (((w.add 5).add (kc o.kind)).add (ofInt o.id)).add (UInt64.ofNat o.content)
    | .query k id => ((w.add 6).add (kc k)).add (ofInt id)
    | .flush => w.add 7) w
  w.s

end GSpec

def runGen (secs : List (List String)) : Option String := do
  match secs with
  | ("G" :: variant :: rm :: mm :: cb :: maxbuf :: wr :: fixed :: []) :: ps :: _ =>
    let cfg := mkCfg variant (← rm.toNat?) (← mm.toNat?) (cb == "1") (← maxbuf.toNat?) (← wr.toNat?) (fixed == "1")
    let vs ← ps.mapM (·.toNat?)
    let g : GSpec ← match vs with
      | [shape, n, k, ro, sg, st, kd, miss, dup, extra, ni, q, seed] =>
        some { shape, n, k, ro, sg, st, kd, miss, dup, extra, ni, q, seed := UInt64.ofNat seed }
      | [shape, n, k, ro, sg, st, kd, miss, dup, extra, ni, q, seed, ak, am] =>
        some { shape, n, k, ro, sg, st, kd, miss, dup, extra, ni, q, seed := UInt64.ofNat seed, ak, am }
      | _ => none
    -- ids must stay inside int64_t (the same guard as harness/c11.cpp)
    if g.n == 0 || g.k == 0 || g.am == 0 || g.ak > 62 ||
       (g.ak > 0 && ((g.n - 1) / g.am ≥ 2 ^ (63 - g.ak) || 10 + g.am * g.st + 1 ≥ 2 ^ g.ak)) then none
    let rels := g.rels
    let ops := g.ops
    let hd := GSpec.histDigest rels ops
    let s := (vRun cfg rels ops).abs
    let acc := s.events.foldl (Digest.feed (variant == "mp")) {}
    let hfin := Digest.step acc.h acc.a
    let cks := ",".intercalate ((hfin :: acc.cks).reverse.map toString)
    let inc := s.incomplete
    let idig := inc.foldl (fun h r => Digest.step h (Digest.ofInt r)) 0
    some (" ; ".intercalate
      ([s!"G ops={acc.objs} ev={acc.evs} ck={cks} hist={hd}", s!"I {inc.length} {idig}"] ++ tailStr s))
  | _ => none

def main : IO Unit := loopPure fun line =>
  let secs := splitSections (words line)
  match secs with
  | ("G" :: _) :: _ => (runGen secs).getD "bad-op"
  | _ => (runLine secs).getD "bad-op"
