/- Model driver for C11 (stub: not built yet). -/
import Driver.Common

def main : IO Unit := pure ()
