/-
Model driver for C11.  One history per line:

  H <variant> <relmask> <memmask> <cb> <maxbuf> <wr> <fixed> | R <id> <content> <k><ref> ... | ...
      | O <k> <id> <content> | Q <k> <id> <hint> | F | ... | E

  variant  : subset of the letters n w r (TNodes/TWays/TRelations) or `mp` (MultipolygonManager)
  relmask  : new_relation(r)  = bit (content mod 4) of relmask
             (mp: content mod 4 ∈ {0,1}, i.e. type=multipolygon|boundary, and some way member)
  memmask  : new_member(r,m,n) = bit ((|ref| + n) mod 8) of memmask   (mp: always true)
  k        : n | w | r

Output: the events in order, then the incomplete list, database counts, flush statistics:
  C <rid> <k><ref>=<res>,...   N <k><id>   Q <k><id>=<res>   T
  I <rid>,...   S <live rels>/<rels> n=<t>/<a>/<r> w=... r=...   F <flushes> <flushed> <left>   U<ub>
  res : `-` nullptr | `<id>:<content>:1` live object | `W` wild pointer
-/
import Osmium.Model.RelMgr
import Driver.Common

open Osmium.RelMgr Osmium.Order Driver

def parseKind : Char → Option Kind
  | 'n' => some .node
  | 'w' => some .way
  | 'r' => some .relation
  | _ => none

def kindStr : Kind → String
  | .node => "n"
  | .way => "w"
  | .relation => "r"

def parseMember (s : String) : Option Member :=
  match s.toList with
  | c :: rest => do
    let k ← parseKind c
    let ref ← (String.ofList rest).toInt?
    some ⟨k, ref⟩
  | [] => none

def splitSections (ws : List String) : List (List String) :=
  let rec go : List String → List String → List (List String) → List (List String)
    | [], cur, acc => (cur.reverse :: acc).reverse
    | w :: rest, cur, acc => if w == "|" then go rest [] (cur.reverse :: acc) else go rest (w :: cur) acc
  go ws [] []

def mkCfg (variant : String) (rm mm : Nat) (cb : Bool) (maxbuf wr : Nat) (fixed : Bool) : Cfg :=
  let mp := variant == "mp"
  { tn := !mp && variant.contains 'n'
    tw := mp || variant.contains 'w'
    tr := !mp && variant.contains 'r'
    newRel := fun r =>
      if mp then (r.content % 4 == 0 || r.content % 4 == 1) && r.members.any (fun m => m.kind == .way)
      else (rm >>> (r.content % 4)) % 2 == 1
    newMem := fun _ m n => if mp then true else (mm >>> ((m.ref.natAbs + n) % 8)) % 2 == 1
    hasCallback := cb
    maxBuf := maxbuf
    wr := wr
    fixed := fixed }

def lookupStr : Lookup → String
  | .absent => "-"
  | .found o => s!"{o.id}:{o.content}:1"
  | .wild => "W"

def eventStr : Event → String
  | .completeWild pos => s!"C? {pos}"
  | .complete _ rid _ looks =>
    s!"C {rid} " ++ ",".intercalate (looks.map fun (m, l) => s!"{kindStr m.kind}{m.ref}={lookupStr l}")
  | .notIn k id => s!"N {kindStr k}{id}"
  | .query k id res => s!"Q {kindStr k}{id}={lookupStr res}"
  | .thrown => "T"

def countsStr (es : List Elem) : String :=
  let (t, a, r) := dbCounts es
  s!"{t}/{a}/{r}"

def runLine (line : String) : Option String := do
  let secs := splitSections (words line)
  match secs with
  | ("H" :: variant :: rm :: mm :: cb :: maxbuf :: wr :: fixed :: []) :: rest =>
    let cfg := mkCfg variant (← rm.toNat?) (← mm.toNat?) (cb == "1") (← maxbuf.toNat?) (← wr.toNat?) (fixed == "1")
    let mut rels : List Rel := []
    let mut ops : List Op := []
    for sec in rest do
      match sec with
      | "R" :: id :: content :: ms =>
        let members ← ms.mapM parseMember
        rels := { id := ← id.toInt?, content := ← content.toNat?, members := members } :: rels
      | ["O", k, id, content] =>
        let k ← parseKind (k.toList.headD ' ')
        ops := .obj ⟨k, ← id.toInt?, ← content.toNat?⟩ :: ops
      | "Q" :: k :: id :: _ =>
        let k ← parseKind (k.toList.headD ' ')
        ops := .query k (← id.toInt?) :: ops
      | ["F"] => ops := .flush :: ops
      | ["E"] => pure ()
      | [] => pure ()
      | _ => none
    let s := run cfg rels.reverse ops.reverse
    -- MultipolygonManager does not override *_not_in_any_relation: nothing to observe there
    let evs := (s.events.filter fun e => match e with | .notIn .. => variant != "mp" | _ => true).map eventStr
    let tail := [
      "I " ++ (if s.incomplete.isEmpty then "-" else ",".intercalate (s.incomplete.map toString)),
      s!"S {s.countRelations}/{s.rdb.size} n={countsStr s.ndb} w={countsStr s.wdb} r={countsStr s.rmdb}",
      s!"F {s.flushes} {s.flushedBytes} {s.outBytes}",
      s!"U{b01 s.ub}"]
    some (" ; ".intercalate (evs ++ tail))
  | _ => none

def main : IO Unit := loopPure fun line => (runLine line).getD "bad-op"
