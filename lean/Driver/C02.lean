/- Model driver for C02 (stub: not built yet). -/
import Driver.Common

def main : IO Unit := pure ()
