/-
Model driver for C07.

1. plain linear trace validator for the Reader pipeline machine
   (`Osmium.Pipeline.Trace.stepLine`: `cfg …`, one fully specified event per line
   `<tid> <tag> <qid> <arg> <payload>`, `end`; one output line per input line: ok / reject / skip /
   final summary).  The scheduling validator used by the checks of C05 and C07 is model_c05
   (lean/Driver/C05.lean); this one replays an already linearised run with `step?` only.

2. truncation sweep of the PBF framing readers (Model/PbfFd.lean):

     trunc <strict 0|1> <piece> <hex of the complete file> <cuts: a-b,c,...>

   for every cut k the outcome of `PBFParser::run` on the first k bytes, through the input-queue
   reader (`readAll`) and through the direct-fd reader (`readAllFd`, read(2) returning at most
   `piece` bytes per call; 0 = no short reads), with the real `decode_blob_header` and the real limits:

     T <k>:<queue outcome>:<fd outcome> ...        outcome = ok<n> | eh | ed<n>
   (ok<n>: normal return after n data blobs; eh: exception before the header is known; ed<n>:
   exception after n complete data blobs).  `strict` = `Fixes.lengthStrict`.
-/
import Osmium.Model.Pipeline
import Osmium.Model.PbfFd
import Driver.Common

open Osmium Osmium.PbfFd

def outcomeName : Outcome → String
  | .ok n => s!"ok{n}"
  | .errHeader => "eh"
  | .errData n => s!"ed{n}"

def parseCuts (spec : String) (n : Nat) : List Nat :=
  (spec.splitOn ",").flatMap fun tok =>
    match tok.splitOn "-" with
    | [a] => match a.toNat? with
      | some a => if a ≤ n then [a] else []
      | none => []
    | [a, b] => match a.toNat?, b.toNat? with
      | some a, some b => (List.range (min b n + 1 - a)).map (· + a)
      | _, _ => []
    | _ => []

def truncLine (strict piece hex cuts : String) : String :=
  match Driver.unhex hex, piece.toNat? with
  | some bytes, some piece =>
    let fx : Fixes := { lengthStrict := strict == "1" }
    let mh := PbfFraming.maxBlobHeaderSize
    let mb := PbfFraming.maxUncompressedBlobSize
    let out := (parseCuts cuts bytes.length).map fun k =>
      let p := bytes.take k
      let q := outcome (readAll fx mh mb PbfFraming.blobSize p)
      let sched := if piece == 0 then [] else List.replicate (k / piece + 8) piece
      let f := outcome (readAllFd fx mh mb PbfFraming.blobSize { data := p, sched := sched })
      s!"{k}:{outcomeName q}:{outcomeName f}"
    "T " ++ " ".intercalate out
  | _, _ => "bad-op"

def step (sim : Osmium.Pipeline.Trace.Sim) (line : String) : Osmium.Pipeline.Trace.Sim × String :=
  match Driver.words line with
  | ["trunc", strict, piece, hex, cuts] => (sim, truncLine strict piece hex cuts)
  | _ => Osmium.Pipeline.Trace.stepLine sim line

def main : IO Unit := Driver.loop step .none
