/- Model driver for C07 (stub: not built yet). -/
import Driver.Common

def main : IO Unit := pure ()
