/-
Model driver for C07: plain linear trace validator for the Reader pipeline machine
(`Osmium.Pipeline.Trace.stepLine`: `cfg …`, one fully specified event per line
`<tid> <tag> <qid> <arg> <payload>`, `end`; one output line per input line: ok / reject / skip /
final summary).  The scheduling validator used by the checks of C05 and C07 is model_c05
(lean/Driver/C05.lean); this one replays an already linearised run with `step?` only.
-/
import Osmium.Model.Pipeline
import Driver.Common

def main : IO Unit := Driver.loop Osmium.Pipeline.Trace.stepLine .none
