/-
Model driver for the PBF parts of C01/C02 (exe model_pbf).  One op per line:

  enc  <opts> | <hdr> | <obj> | <obj> …     → hex of `Pbf.encodeFile` (the writer model)
  spec <choices> | <hdr> | <obj> | …        → hex of `PbfSpec.encode` (the specification encoder)
  specmix <dm> <choices> | <hdr> | <obj> | … → hex of `PbfSpec.encodeMixed` (C05: dense/plain per PrimitiveGroup from the bits of <dm>)
  dec  <ropts> <hex>                        → `ok <dumpHeader> | <dump obj> | …`  or  `err`
  est  <opts> | <hdr> | <obj> | …           → `S <size()>:<count()> …` of the current block after every object
  proj <opts> | <hdr> | <obj> | …           → `ok <dumpHeader> | <dump obj> | …` of `project opts`

<opts>  = D<0|1>M<0..31>H<0|1>L<0|1>   dense, metadata bits (1 version 2 timestamp 4 changeset 8 uid 16 user), history, locations_on_ways
<ropts> = N<0|1>W<0|1>R<0|1>M<0|1>      entity bits and read_meta
<hdr>/<obj> = the canonical dump lines of Osmium.Osm (`dumpHeader` / `dump`).
-/
import Driver.Common
import Osmium.Model.Pbf
import Osmium.Model.PbfSpec
import Osmium.Model.PbfMixed

open Osmium Osmium.Osm Osmium.Pbf

namespace PbfDriver

def segs (line : String) : List String := (line.trimAscii.toString.splitOn " | ").map (·.trimAscii.toString)

def bytesOf (s : String) : Option (List UInt8) := Driver.unhex s

def parseLoc (s : String) : Option Location :=
  match s.splitOn "," with
  | [x, y] => do pure ⟨← x.toInt?, ← y.toInt?⟩
  | _ => none

def parseBox (s : String) : Option (Location × Location) :=
  match s.splitOn ";" with
  | [a, b] => do pure (← parseLoc a, ← parseLoc b)
  | _ => none

def parseTag (s : String) : Option Tag :=
  match s.splitOn "=" with
  | [k, v] => do pure ⟨← bytesOf k, ← bytesOf v⟩
  | _ => none

def dropPrefix (s : String) (n : Nat) : String := (s.drop n).toString

def parseMeta (ws : List String) : Option (Meta × List String) :=
  match ws with
  | id :: v :: vis :: t :: c :: u :: user :: rest => do
    let id ← id.toInt?
    let v ← (dropPrefix v 1).toNat?
    let t ← (dropPrefix t 1).toNat?
    let c ← (dropPrefix c 1).toNat?
    let u ← (dropPrefix u 1).toNat?
    let user ← bytesOf user
    let tagWs := rest.takeWhile (·.startsWith "T")
    let tags ← tagWs.mapM fun w => parseTag (dropPrefix w 1)
    pure ({ id := id, version := v, visible := vis == "V", timestamp := t, changeset := c, uid := u, user := user, tags := tags },
          rest.drop tagWs.length)
  | _ => none

def parseObj (s : String) : Option Object :=
  match Driver.words s with
  | "n" :: ws => do
    let (m, rest) ← parseMeta ws
    match rest with
    | [l] => do pure (.node m (← parseLoc (dropPrefix l 1)))
    | _ => none
  | "w" :: ws => do
    let (m, rest) ← parseMeta ws
    let ns ← rest.mapM fun w =>
      match (dropPrefix w 1).splitOn "@" with
      | [r, l] => do pure ({ ref := ← r.toInt?, location := ← parseLoc l } : NodeRef)
      | _ => none
    pure (.way m ns)
  | "r" :: ws => do
    let (m, rest) ← parseMeta ws
    let ms ← rest.mapM fun w =>
      match (dropPrefix w 1).splitOn ":" with
      | [t, r, role] => do pure (⟨← t.toNat?, ← r.toInt?, ← bytesOf role⟩ : Member)
      | _ => none
    pure (.relation m ms)
  | _ => none

def parseHeader (s : String) : Option Header :=
  match Driver.words s with
  | "h" :: g :: hs :: bs => do
    let g ← bytesOf g
    let boxes ← bs.mapM fun w => parseBox (dropPrefix w 1)
    pure { generator := g, boxes := boxes, multipleVersions := hs == "H" }
  | _ => none

/-- "D1M31H0L0" -/
def numAfter (s : String) (c : Char) : Option Nat :=
  match s.splitOn (String.singleton c) with
  | [_, r] => (r.takeWhile Char.isDigit).toString.toNat?
  | _ => none

def parseOpts (s : String) : Option Opts := do
  let d ← numAfter s 'D'
  let m ← numAfter s 'M'
  let h ← numAfter s 'H'
  let l ← numAfter s 'L'
  pure { dense := d != 0, mdVersion := m % 2 == 1, mdTimestamp := m / 2 % 2 == 1, mdChangeset := m / 4 % 2 == 1,
         mdUid := m / 8 % 2 == 1, mdUser := m / 16 % 2 == 1, history := h != 0, locationsOnWays := l != 0 }

def parseROpts (s : String) : Option ROpts := do
  let n ← numAfter s 'N'
  let w ← numAfter s 'W'
  let r ← numAfter s 'R'
  let m ← numAfter s 'M'
  pure { nodes := n != 0, ways := w != 0, relations := r != 0, readMeta := m != 0 }

def dumpAll (h : Header) (os : List Object) : String :=
  " | ".intercalate (("ok " ++ dumpHeader h) :: os.map dump)

def parseCase (rest : List String) : Option (Header × List Object) :=
  match rest with
  | h :: os => do pure (← parseHeader h, ← os.mapM parseObj)
  | [] => none

def handle (line : String) : String :=
  match segs line with
  | [] => "bad-op"
  | first :: rest =>
    match Driver.words first with
    | ["enc", o] =>
      match parseOpts o, parseCase rest with
      | some o, some (h, os) =>
        match encodeFile o h os with
        | some bs => Driver.hex bs
        | none => "err"
      | _, _ => "bad-op"
    | ["est", o] =>
      match parseOpts o, parseCase rest with
      | some o, some (_, os) =>
        let (_, outs) := os.foldl (fun (acc : WState × List String) ob =>
          let s := acc.1.write o ob
          (s, match s.cur with
              | some b => s!"{b.size o}:{b.count}" :: acc.2
              | none => "-" :: acc.2)) (({} : WState), [])
        " ".intercalate ("S" :: outs.reverse)
      | _, _ => "bad-op"
    | ["proj", o] =>
      match parseOpts o, parseCase rest with
      | some o, some (h, os) => dumpAll (projectHeader o h) (os.filterMap (project o))
      | _, _ => "bad-op"
    | "spec" :: ch =>
      match PbfSpec.parseChoices ch, parseCase rest with
      | some ch, some (h, os) => Driver.hex (PbfSpec.encode ch h os)
      | _, _ => "bad-op"
    | "specmix" :: dm :: ch =>
      match dm.toNat?, PbfSpec.parseChoices ch, parseCase rest with
      | some dm, some ch, some (h, os) => Driver.hex (PbfSpec.encodeMixed ch dm h os)
      | _, _, _ => "bad-op"
    | ["dec", r, hx] =>
      match parseROpts r, Driver.unhex hx with
      | some r, some bs =>
        match decodeFile noInflate r bs with
        | some (h, os) => dumpAll h os
        | none => "err"
      | _, _ => "bad-op"
    | _ => "bad-op"

end PbfDriver

def main : IO Unit := Driver.loopPure PbfDriver.handle
