/- Model driver for the Pbf format family (C01/C02/C03 parts) — stub. -/
import Driver.Common

def main : IO Unit := pure ()
