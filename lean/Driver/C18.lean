/- Model driver for C18 (stub: not built yet). -/
import Driver.Common

def main : IO Unit := pure ()
