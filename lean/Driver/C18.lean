/-
Model driver for C18 (lean/Osmium/Model/Tile.lean with rnd := rne53 and the constants
regenerated from the source, lean/Osmium/Generated/C18Consts.lean).  Doubles come in as 16-digit
hex bit patterns and go out as "m e" (value m*2^e, m odd).  Ops (same as harness/c18.cpp):
  ext z | tx z xbits | ty z ybits | tile z xbits ybits | tloc z lon lat xbits ybits
  txyz z tx ty | lonx lon | xlon xbits | rtx lon
A result that involves undefined behaviour is printed as "ub|<what the x86-64 build returns>".
-/
import Osmium.Model.Tile
import Osmium.Generated.C18Consts
import Driver.Common

open Osmium.Tile Osmium.Generated.C18 Driver

def finOr0 : EVal → Rat
  | .fin q => q
  | _ => 0

def cfg : Cfg := { M := finOr0 (EVal.ofBits mBits), rnd := rne53, fixed := fixedVariant }

def pcfg : ProjCfg :=
  { rnd := rne53, R := finOr0 (EVal.ofBits rBits), degToRad := finOr0 (EVal.ofBits degToRadBits),
    radToDeg := finOr0 (EVal.ofBits radToDegBits), prec := (prec : Nat) }

def parseHex (s : String) : Option Nat :=
  if s.isEmpty then none else
  s.toList.foldl (fun acc c => do
    let a ← acc
    let d ← hexDigit c
    pure (a * 16 + d)) (some 0)

def parseBits (s : String) : Option EVal := (parseHex s).map EVal.ofBits

/-- strict result + x86 result → output text -/
def showR (strict : Except Err String) (x86 : String) : String :=
  match strict with
  | .ok s => s
  | .error .ub => "ub|" ++ x86
  | .error .invalidLocation => "invalid_location"

def tileStr (t : Tile) : String := s!"{t.x} {t.y} {t.z} {b01 t.valid}"

def tileX86 (z : Nat) (x y : EVal) : Tile :=
  if cfg.fixed then
    -- repaired variant: no UB possible, never used
    ⟨0, 0, z⟩
  else ⟨mercxToTilexX86 cfg z x, mercyToTileyX86 cfg z y, z⟩

def step (line : String) : String :=
  match words line with
  | ["ext", z] =>
    match z.toNat? with
    | some z => s!"{canonDyadic (tileExtentInZoom cfg z)} {numTilesInZoom z}"
    | none => "bad-op"
  | ["tx", z, xb] =>
    match z.toNat?, parseBits xb with
    | some z, some x => showR ((mercxToTilex cfg z x).map toString) (toString (mercxToTilexX86 cfg z x))
    | _, _ => "bad-op"
  | ["ty", z, yb] =>
    match z.toNat?, parseBits yb with
    | some z, some y => showR ((mercyToTiley cfg z y).map toString) (toString (mercyToTileyX86 cfg z y))
    | _, _ => "bad-op"
  | ["tile", z, xb, yb] =>
    match z.toNat?, parseBits xb, parseBits yb with
    | some z, some x, some y => showR ((Tile.ofCoords cfg z x y).map tileStr) (tileStr (tileX86 z x y))
    | _, _, _ => "bad-op"
  | ["tloc", z, lon, lat, xb, yb] =>
    match z.toNat?, lon.toInt?, lat.toInt?, parseBits xb, parseBits yb with
    | some z, some lon, some lat, some x, some y =>
      -- the projection functions are parameters of the model: here the table {lon ↦ x}, {lat ↦ y}
      showR ((Tile.ofLoc cfg (fun _ => x) (fun _ => y) z lon lat).map tileStr) (tileStr (tileX86 z x y))
    | _, _, _, _, _ => "bad-op"
  | ["txyz", z, tx, ty] =>
    match z.toNat?, tx.toInt?, ty.toInt? with
    | some z, some tx, some ty => tileStr (Tile.ofXY z tx ty)
    | _, _, _ => "bad-op"
  | ["lonx", lon] =>
    match lon.toInt? with
    | some lon => canonDyadic (lonToX pcfg lon)
    | none => "bad-op"
  | ["xlon", xb] =>
    match parseBits xb with
    | some x => (xToLonE pcfg x).canon
    | none => "bad-op"
  | ["rtx", lon] =>
    match lon.toInt? with
    | some lon =>
      match xToLonE pcfg (.fin (lonToX pcfg lon)) with
      | .fin l =>
        match doubleToFix pcfg l with
        | .ok v => toString v
        | .error _ => "ub"
      | _ => "ub"
    | none => "bad-op"
  | _ => "bad-op"

def main : IO Unit := loopPure step
