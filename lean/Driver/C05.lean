/- Model driver for C05 (stub: not built yet). -/
import Driver.Common

def main : IO Unit := pure ()
