/-
Model driver for C05 / C07: trace validator for the Reader pipeline machine
(Osmium/Model/Pipeline.lean).

A scenario is `cfg k=v …`, then one item per line, then `end`; the driver prints ONE line per
scenario: `accept <summary of the final model state>` or `reject …`.

Item line: `<tid> <tag> <qid> <arg> <payload> <mode>`
  mode `!`  LOGGED event: it was recorded by a hook at this position of the trace, so it is executed
            at this position relative to all other logged events (hooks inside a critical section
            of a queue are thereby replayed in the order of the critical sections);
  mode `~`  UNLOGGED, eager: a step of the thread between its surrounding logged events that no
            hook records (unlocked atomic load, thread-local step, promise.set_value, …): executed
            as soon as it is the thread's turn and the step is enabled;
  mode `^`  UNLOGGED, lazy: a store that other threads can observe as "not yet done" (m_done,
            m_in_use): executed only when the thread's next logged event forces it or when another
            thread cannot go on without it.
  tag `sync` (mode `!`) is a position marker without a model step.
Wild cards, filled in from the model state: payload `*` of pop-now / pop-wake (front element),
of push-locked (the waiter notify_one picks), of p-get / c-get (the value of the future held);
`push-size * full|space` reads the current size and requires it to be ≥ max / < max.

The scheduler searches an interleaving of the per-thread item sequences that respects the
windows above and in which EVERY item is an enabled transition of `Pipeline.step?`.  What it
accepts is a run of the model (each fired item is a `step?` success from the previous state).
-/
import Osmium.Model.Pipeline
import Driver.Common

open Osmium Osmium.Mon Osmium.Pipeline Osmium.Pipeline.Trace

structure Item where
  tid : Tid
  tag : String
  qid : Nat
  arg : String
  pl : String
  mode : Char
  lineNo : Nat
  deriving Inhabited

def Item.show (i : Item) : String := s!"line {i.lineNo}: {i.tid} {i.tag} {i.qid} {i.arg} {i.pl} {String.singleton i.mode}"

/-- concrete event for an item in state `s` (wild cards filled in); none = malformed or a wild
    card that cannot be filled now -/
def resolve (c : Cfg Nat) (s : State Nat) (i : Item) : Option (Ev Nat) :=
  let q := if i.qid = 1 then s.inq else s.outq
  let qc := if i.qid = 1 then c.inqC else c.outqC
  let wrap : QueueSM.Ev Nat → Ev Nat := if i.qid = 1 then .qi else .qo
  if i.qid = 1 ∨ i.qid = 2 then
    match i.tag with
    | "push-size" =>
      let n := q.items.length
      if i.arg == "*" then
        if (i.pl == "full") == decide (n ≥ qc.max) then some (wrap (.pushSize i.tid n)) else none
      else i.arg.toNat?.map fun n => wrap (.pushSize i.tid n)
    | "push-locked" =>
      match i.arg.toNat? with
      | some n =>
        if i.pl == "*" then some (wrap (.pushLocked i.tid n ((q.waiters.find? (fun w => !w.2)).map (·.1))))
        else (optNat i.pl).map fun w => wrap (.pushLocked i.tid n w)
      | none => none
    | "pop-now" =>
      match i.arg.toNat? with
      | some n => if i.pl == "*" then some (wrap (.popNow i.tid n q.items.head?)) else (parseItem i.pl).map fun r => wrap (.popNow i.tid n r)
      | none => none
    | "pop-wake" =>
      match i.arg.toNat? with
      | some n => if i.pl == "*" then some (wrap (.popWake i.tid n q.items.head?)) else (parseItem i.pl).map fun r => wrap (.popWake i.tid n r)
      | none => none
    | _ => (i.arg.toNat?).bind fun a => (parseQEv i.tid i.tag a i.pl).map wrap
  else
    match i.tag, i.pl with
    | "p-get", "*" =>
      match s.ppc with
      | .got id => (s.fut id).map .pGet
      | _ => none
    | "c-get", "*" =>
      match s.cpc with
      | .readGot id => (s.fut id).map .cGet
      | _ => none
    | _, _ => (i.arg.toNat?).bind fun a => parseEv i.tid i.tag 0 a i.pl

def tryFire (c : Cfg Nat) (s : State Nat) (i : Item) : Option (State Nat) :=
  if i.tag == "sync" then some s else (resolve c s i).bind (step? c s)

structure Sched where
  s : State Nat
  threads : List (Tid × List Item)
  logOrder : List Tid          -- threads of the logged items not yet fired, in trace order
  fired : Nat

def Sched.head (st : Sched) (t : Tid) : Option Item :=
  ((st.threads.find? (·.1 == t)).bind fun p => p.2.head?)

def Sched.pop (st : Sched) (t : Tid) (s' : State Nat) : Sched :=
  { st with s := s', fired := st.fired + 1,
            threads := st.threads.map fun p => if p.1 == t then (p.1, p.2.tail) else p }

/-- fire every eager unlogged head item that is enabled, until nothing changes -/
partial def fireEagers (c : Cfg Nat) (st : Sched) : Sched :=
  let rec pass (ts : List Tid) (st : Sched) (changed : Bool) : Sched × Bool :=
    match ts with
    | [] => (st, changed)
    | t :: rest =>
      match st.head t with
      | some i =>
        if i.mode == '~' then
          match tryFire c st.s i with
          | some s' => pass (t :: rest) (st.pop t s') true
          | none => pass rest st changed
        else pass rest st changed
      | none => pass rest st changed
  let (st', ch) := pass (st.threads.map (·.1)) st false
  if ch then fireEagers c st' else st'

mutual
  /-- fire the head item of thread `t`, first helping it (unlogged items of other threads) if it
      is not enabled -/
  partial def fireHead (c : Cfg Nat) (depth : Nat) (excl : List Tid) (st : Sched) (t : Tid) : Except String Sched :=
    match st.head t with
    | none => .ok st
    | some i =>
      match tryFire c st.s i with
      | some s' => .ok (fireEagers c (st.pop t s'))
      | none =>
        if depth = 0 then .error (i.show ++ " not enabled; " ++ diag st.s)
        else
          match unblock c depth t (t :: excl) st i ((st.threads.map (·.1)).filter fun u => !(t :: excl).contains u) with
          | some st' =>
            -- the helped item may already have been fired (it was eager and became enabled)
            if ((st'.head t).map (·.lineNo)) != some i.lineNo then .ok st' else
            match tryFire c st'.s i with
            | some s' => .ok (fireEagers c (st'.pop t s'))
            | none => .error (i.show ++ " not enabled; " ++ diag st.s)
          | none => .error (i.show ++ " not enabled; " ++ diag st.s)

  /-- find ONE other thread whose pending unlogged items, fired in order, make `i` enabled -/
  partial def unblock (c : Cfg Nat) (depth : Nat) (t : Tid) (excl : List Tid) (st : Sched) (i : Item) (cands : List Tid) : Option Sched :=
    match cands with
    | [] => none
    | u :: rest =>
      let rec go (st' : Sched) (fuel : Nat) : Option Sched :=
        if fuel = 0 then none else
        match st'.head u with
        | some j =>
          if j.mode == '!' then none else
          match fireHead c (depth - 1) excl st' u with
          | .ok st'' =>
            if ((st''.head t).map (·.lineNo)) != some i.lineNo then some st''
            else if (tryFire c st''.s i).isSome then some st'' else go st'' (fuel - 1)
          | .error _ => none
        | none => none
      match go st 64 with
      | some r => some r
      | none => unblock c depth t excl st i rest
end

partial def runSched (c : Cfg Nat) (st : Sched) : Except String Sched :=
  let st := fireEagers c st
  match st.logOrder with
  | t :: rest =>
    -- everything thread t has to do before its next logged item, then the logged item
    let rec upTo (st : Sched) (fuel : Nat) : Except String Sched :=
      if fuel = 0 then .error "fuel" else
      match st.head t with
      | none => .error s!"thread {t}: logged item missing"
      | some i =>
        match fireHead c 3 [] st t with
        | .error e => .error e
        | .ok st' => if i.mode == '!' then .ok st' else upTo st' (fuel - 1)
    match upTo st 100000 with
    | .error e => .error e
    | .ok st' => runSched c { st' with logOrder := rest }
  | [] =>
    -- no logged item left: drain the unlogged tails
    match st.threads.find? (fun p => !p.2.isEmpty) with
    | none => .ok st
    | some _ =>
      let rec drain (ts : List Tid) (st : Sched) (progress : Bool) (err : String) : Except String Sched :=
        match ts with
        | [] => if progress then runSched c st else .error err
        | t :: rest =>
          match st.head t with
          | none => drain rest st progress err
          | some _ =>
            match fireHead c 3 [] st t with
            | .ok st' => drain rest st' true err
            | .error e => drain rest st progress e
      drain (st.threads.map (·.1)) st false "stuck"

structure Accum where
  cfg : Option (Cfg Nat) := none
  items : List Item := []      -- reversed
  bad : Option String := none
  lineNo : Nat := 0

def finish (a : Accum) : String :=
  match a.bad, a.cfg with
  | some b, _ => "reject " ++ b
  | none, none => "reject no-cfg"
  | none, some c =>
    let items := a.items.reverse
    let tids := (items.map (·.tid)).eraseDups
    let threads := tids.map fun t => (t, items.filter (·.tid == t))
    let logOrder := (items.filter (·.mode == '!')).map (·.tid)
    match runSched c { s := init Nat, threads := threads, logOrder := logOrder, fired := 0 } with
    | .ok st => s!"accept fired={st.fired} " ++ summary c st.s
    | .error e => "reject " ++ e

def stepLine (a : Accum) (line : String) : Accum × Option String :=
  let a := { a with lineNo := a.lineNo + 1 }
  match words line with
  | "cfg" :: rest =>
    match parseCfg rest with
    | some c => ({ cfg := some c, lineNo := a.lineNo }, none)
    | none => ({ bad := some "bad-cfg", lineNo := a.lineNo }, none)
  | ["end"] => ({ lineNo := a.lineNo }, some (finish a))
  | [t, tag, qid, arg, pl, mode] =>
    match t.toNat?, qid.toNat?, mode.toList with
    | some t, some qid, [m] =>
      ({ a with items := { tid := t, tag := tag, qid := qid, arg := arg, pl := pl, mode := m, lineNo := a.lineNo } :: a.items }, none)
    | _, _, _ => ({ a with bad := some s!"bad-line {a.lineNo}" }, none)
  | [] => (a, none)
  | _ => ({ a with bad := some s!"bad-line {a.lineNo}" }, none)

partial def main : IO Unit := do
  let stdin ← IO.getStdin
  let stdout ← IO.getStdout
  let rec go (a : Accum) : IO Unit := do
    let line ← stdin.getLine
    if line.isEmpty then
      stdout.flush
      return ()
    let (a', out) := stepLine a line
    match out with
    | some o => stdout.putStrLn o
    | none => pure ()
    go a'
  go {}
