/-
Model driver for C20.  Same op lines as harness/c20.cpp and harness/c20_diff.cpp:
  apply <entry> <handlers> <items...>   -> event log of Osmium.Dispatch.apply
  filt <Class> <c|m|r> <items...>       -> "<count>: <positions>" of ItemIter.run / InIter.run
  diff <entry> <nh> <tokens...>         -> DiffIter.run / applyDiff
  fdrive <Class> <c|m|r> <script> <n> <items...> -> itemDrive / inDrive (n is for the harness only)
  drive <entry> <script> <tokens...>    -> Osmium.Dispatch.drive (script chars: d r i p a c s e j q = ~)
-/
import Osmium.Model.Dispatch
import Driver.Common

open Osmium.Dispatch Osmium.Generated.C20 Driver

def typeOfChar : Char → Option ItemType
  | 'X' => some .undefined | 'n' => some .node | 'w' => some .way | 'r' => some .relation
  | 'a' => some .area | 'c' => some .changeset | 'T' => some .tagList | 'N' => some .wayNodeList
  | 'M' => some .relationMemberList | 'F' => some .relationMemberListFull | 'O' => some .outerRing
  | 'I' => some .innerRing | 'D' => some .changesetDiscussion | _ => none

def cbName : Callback → String
  | .osmObject => "osm_object" | .node => "node" | .way => "way" | .relation => "relation"
  | .area => "area" | .changeset => "changeset" | .tagList => "tag_list"
  | .wayNodeList => "way_node_list" | .relationMemberList => "relation_member_list"
  | .outerRing => "outer_ring" | .innerRing => "inner_ring"
  | .changesetDiscussion => "changeset_discussion" | .flush => "flush"

def parseItem (s : String) : Option Item :=
  match s.toList with
  | [c] => (typeOfChar c).map fun t => { ty := t, removed := false }
  | [c, '-'] => (typeOfChar c).map fun t => { ty := t, removed := true }
  | _ => none

/-- split the token list at "|" -/
def groups (ws : List String) : List (List String) :=
  ws.foldr (fun w acc =>
    if w == "|" then [] :: acc
    else match acc with
      | [] => [[w]]
      | g :: rest => (w :: g) :: rest) [[]]

def parseLeaf : String → Option Leaf
  | "S" => some .static | "D" => some .dyn | "Df" => some .dynFn | "D0" => some .dynUnset | _ => none

def parseSig (c : Char) : Option Sig :=
  let p : Option Param := match c.toLower with
    | 'n' => some .node | 'w' => some .way | 'r' => some .relation | 'a' => some .area
    | 'c' => some .changeset | 'o' => some .object | 'e' => some .entity | 'i' => some .item
    | 'g' => some .generic | _ => none
  p.map fun p => { param := p, nonConst := c.isUpper }

def parseHandler (s : String) : Option Handler :=
  match parseLeaf s with
  | some l => some (.leaf l)
  | none =>
    match s.toList with
    | ['L', c] => (parseSig c).map .lambda
    | 'C' :: ':' :: rest => ((String.ofList rest).splitOn "+").mapM parseLeaf |>.map .chain
    | _ => none

def isChain : Handler → Bool
  | .chain _ => true
  | _ => false

def parseEntry : String → Option (Source × ItemClass × Constness)
  | "bec" => some (.filtered, .entity, .const) | "bem" => some (.filtered, .entity, .mut)
  | "fic" => some (.filtered, .item, .const) | "fim" => some (.filtered, .item, .mut)
  | "fec" => some (.filtered, .entity, .const) | "fem" => some (.filtered, .entity, .mut)
  | "foc" => some (.filtered, .object, .const) | "fom" => some (.filtered, .object, .mut)
  | "xec" => some (.raw, .entity, .const) | "xem" => some (.raw, .entity, .mut)
  | "xoc" => some (.raw, .object, .const) | "xom" => some (.raw, .object, .mut)
  | "rim" => some (.reader, .item, .mut) | "rem" => some (.reader, .entity, .mut)
  | "rom" => some (.reader, .object, .mut)
  | "Rim" => some (.reader, .item, .mut)
  | _ => none

def showEvent (e : Event) : String :=
  match e.pos with
  | some p => s!"{e.h}.{e.sub}:{cbName e.cb}{if e.nonConst then "!" else ""}:{p}"
  | none => s!"{e.h}.{e.sub}:{cbName e.cb}"

def showLog (evs : List String) (thrown : Bool) : String :=
  let body := if evs.isEmpty then "-" else " ".intercalate evs
  if thrown then body ++ " !unknown_type" else body

def parseFilterClass : String → Option FilterClass
  | "Item" => some .item | "OSMEntity" => some .entity | "OSMObject" => some .object
  | "Node" => some .node | "Way" => some .way | "Relation" => some .relation | "Area" => some .area
  | "Changeset" => some .changeset | "TagList" => some .tagList | "WayNodeList" => some .wayNodeList
  | "RelationMemberList" => some .relationMemberList | "OuterRing" => some .outerRing
  | "InnerRing" => some .innerRing | "ChangesetDiscussion" => some .changesetDiscussion | _ => none

/-- diff tokens: objects `t:id:v`, fillers (single type char) -/
def parseDiffTok (s : String) : Option (Option Obj) :=
  match s.splitOn ":" with
  | [t, id, v] =>
    let ty : Option Nat := match t with
      | "n" => some 1 | "w" => some 2 | "r" => some 3 | "a" => some 4 | _ => none
    match ty, id.toInt?, v.toNat? with
    | some ty, some id, some v => some (some ⟨ty, id, v⟩)
    | _, _, _ => none
  | [t] =>
    match t.toList with
    | [c] => if c == 'n' || c == 'w' || c == 'r' || c == 'a' then none
             else (typeOfChar c).map fun _ => none
    | _ => none
  | _ => none

def showDiff (posmap : Array Nat) (d : Diff) : String :=
  let g (i : Nat) : String := toString (posmap.getD i 0)
  s!"{g d.prev},{g d.curr},{g d.next},{b01 d.first},{b01 d.last}"

def dcbName : DiffCb → String
  | .node => "node" | .way => "way" | .relation => "relation"

def parseDriveOp : Char → Option DriveOp
  | 'd' => some .deref | 'r' => some .arrow | 'i' => some .inc | 'p' => some .post | 'a' => some .adv2
  | 'c' => some .copy | 's' => some .assign | 'e' => some .derefB | 'j' => some .incB | 'q' => some .postB
  | '=' => some .cmpEnd | '~' => some .cmpAB | _ => none

def showDriveOut (posmap : Array Nat) : DriveOut → String
  | .present (some d) => showDiff posmap d
  | .present none => "out-of-range"
  | .atEnd => "@"
  | .isEnd b => s!"E{b01 b}"
  | .equal b => s!"Q{b01 b}"

def step (line : String) : String :=
  match words line with
  | "apply" :: entry :: hs :: items =>
    match parseEntry entry, (hs.splitOn ",").mapM parseHandler, (groups items).mapM (·.mapM parseItem) with
    | some (src, cls, k), some hs, some bufs =>
      if k == .const && hs.any isChain then "bad-op"
      else
        let r := apply src cls k hs bufs
        showLog (r.1.map showEvent) r.2
    | _, _, _ => "bad-op"
  | "filt" :: cls :: mode :: items =>
    match parseFilterClass cls, (groups items).mapM (·.mapM parseItem) with
    | some fc, some bufs =>
      let nb := number bufs
      let visited := if mode == "r" then InIter.run fc nb else ItemIter.run fc nb.flatten
      s!"{visited.length}:" ++ String.join (visited.map fun p => s!" {p.1}")
    | _, _ => "bad-op"
  | "fdrive" :: cls :: mode :: script :: _n :: items =>
    match parseFilterClass cls, (groups items).mapM (·.mapM parseItem), (script.toList.filter (· ≠ '.')).mapM parseDriveOp with
    | some fc, some bufs, some ops =>
      let nb := number bufs
      let outs := if mode == "r" then inDrive fc nb ops else itemDrive fc nb.flatten ops
      showLog (outs.map fun o => match o with
        | .item (some p) => toString p
        | .item none => "out-of-range"
        | .atEnd => "@"
        | .isEnd b => s!"E{b01 b}"
        | .equal b => s!"Q{b01 b}") false
    | _, _, _ => "bad-op"
  | "drive" :: entry :: script :: toks =>
    match (toks.filter (· ≠ "|")).mapM parseDiffTok, (script.toList.filter (· ≠ '.')).mapM parseDriveOp with
    | some ts, some ops =>
      if entry == "it" || entry == "itc" || entry == "itr" then
        let withPos := indexed ts
        let objs := withPos.filterMap fun p => p.2.map fun o => (p.1, o)
        let xs := objs.map (·.2)
        let posmap := (objs.map (·.1)).toArray
        showLog ((drive xs ops).map (showDriveOut posmap)) false
      else "bad-op"
    | _, _ => "bad-op"
  | "diff" :: entry :: nh :: toks =>
    match (toks.filter (· ≠ "|")).mapM parseDiffTok, nh.toNat? with
    | some ts, some nh =>
      let withPos := indexed ts
      let objs := withPos.filterMap fun p => p.2.map fun o => (p.1, o)
      let xs := objs.map (·.2)
      let posmap := (objs.map (·.1)).toArray
      if entry == "it" || entry == "itc" || entry == "itr" then
        let r := DiffIter.run xs
        showLog (r.map fun d => match d with
          | some d => showDiff posmap d
          | none => "out-of-range") false
      else if entry == "ad" || entry == "adc" || entry == "adr" then
        let r := applyDiff xs nh
        showLog (r.1.map fun e => s!"{e.h}:{dcbName e.cb}:{showDiff posmap e.d}") r.2
      else "bad-op"
    | _, _ => "bad-op"
  | _ => "bad-op"

def main : IO Unit := loopPure step
