/- Model driver for C20 (stub: not built yet). -/
import Driver.Common

def main : IO Unit := pure ()
