/- Model driver for C19 (stub: not built yet). -/
import Driver.Common

def main : IO Unit := pure ()
