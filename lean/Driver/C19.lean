/-
Model driver for C19: trace validator for QueueSM / PoolSM.

Input: one line per event, `<tid> <tag> <qid> <arg> <payload>`; control lines
  new queue            start a scenario with plain queues (created by `q-new`)
  new pool <max> <w,w,…>   start a pool scenario: work queue bound, worker thread ids
  end                  print a summary of the final model state
Output: one line per input line: `ok`, `reject <why>` for the first event that is not an
enabled transition of the model with the same observables, `skip` after a rejection.

Queue tags (payload): q-new(arg=max) push-enter(x) push-test(arg=saw) push-size(arg=n)
  push-full-waited(arg=n) push-locked(arg=n, woken tid|-) pop-now(arg=n, item|-) pop-block
  pop-wake(arg=n, item|-) pop-rewait trypop(arg=n, item|-) sd-enter sd-flag sd-locked
  item = `<producer>:<value>`; in pool mode values are tasks `j.<id>.<outcome>` / `stop`,
  outcome = `v.<n>` | `s.<class>.<payload>` (derived from std::exception) | `o.<type>.<payload>` (any other type).
Pool tags: worker-got(arg=0/1) task-run(payload=id) worker-exit dtor-start dtor-pushed
  dtor-join(payload=worker) dtor-done future-get(payload=`<id>.<outcome>`)
Validation uses `spurious := true` (C++ allows spurious wake-ups).
-/
import Osmium.Model.PoolSM
import Driver.Common

open Osmium Osmium.Mon Driver

inductive Sim where
  | none
  | queues (qs : List (Nat × QueueSM.Cfg × QueueSM.State Nat))
  | pool (c : PoolSM.Cfg) (qid : Option Nat) (s : PoolSM.State)
  | dead

/-- `v.<n>` value | `s.<cls>.<payload>` exception derived from std::exception |
    `o.<ty>.<payload>` exception of any other type -/
def parseOutcome : List String → Option PoolSM.Outcome
  | ["v", n] => n.toNat?.map .value
  | ["s", c, n] => do some (.stdExc (← c.toNat?) (← n.toNat?))
  | ["o", t, n] => do some (.otherExc (← t.toNat?) (← n.toNat?))
  | _ => none

def parseTask (s : String) : Option PoolSM.Task :=
  match s.splitOn "." with
  | ["stop"] => some .stop
  | "j" :: id :: rest => do
    let id ← id.toNat?
    let o ← parseOutcome rest
    some (.job id o)
  | _ => none

def parseNatItem (s : String) : Option (Option (QueueSM.Item Nat)) :=
  if s == "-" then some none else
  match s.splitOn ":" with
  | [p, v] => do
    let p ← p.toNat?
    let v ← v.toNat?
    some (some (p, v))
  | _ => none

def parseTaskItem (s : String) : Option (Option (QueueSM.Item PoolSM.Task)) :=
  if s == "-" then some none else
  match s.splitOn ":" with
  | [p, v] => do
    let p ← p.toNat?
    let v ← parseTask v
    some (some (p, v))
  | _ => none

def parseOptTid (s : String) : Option (Option Tid) :=
  if s == "-" then some none else s.toNat?.map some

/-- queue event from a line; `px` parses an element, `pi` an optional item -/
def parseQEv {α : Type} (px : String → Option α) (pi : String → Option (Option (QueueSM.Item α)))
    (t : Tid) (tag : String) (arg : Nat) (pl : String) : Option (QueueSM.Ev α) :=
  match tag with
  | "push-enter" => (px pl).map (.pushEnter t)
  | "push-test" => some (.pushTest t (arg != 0))
  | "push-size" => some (.pushSize t arg)
  | "push-full-waited" => some (.pushFullWaited t arg)
  | "push-locked" => (parseOptTid pl).map (.pushLocked t arg)
  | "pop-now" => (pi pl).map (.popNow t arg)
  | "pop-block" => some (.popBlock t)
  | "pop-wake" => (pi pl).map (.popWake t arg)
  | "pop-rewait" => some (.popRewait t)
  | "trypop" => (pi pl).map (.tryPop t arg)
  | "sd-enter" => some (.sdEnter t)
  | "sd-flag" => some (.sdFlag t)
  | "sd-locked" => some (.sdLocked t)
  | _ => none

def parsePoolEv (t : Tid) (tag : String) (arg : Nat) (pl : String) : Option PoolSM.Ev :=
  match tag with
  | "worker-got" => some (.workerGot t (arg != 0))
  | "task-run" => pl.toNat?.map (.taskRun t)
  | "worker-exit" => some (.workerExit t)
  | "dtor-start" => some (.dtorStart t)
  | "dtor-pushed" => some (.dtorPushed t)
  | "dtor-join" => pl.toNat?.map (.dtorJoin t)
  | "dtor-done" => some (.dtorDone t)
  | "future-get" =>
    match pl.splitOn "." with
    | id :: rest => do
      let id ← id.toNat?
      let o ← parseOutcome rest
      some (.futureGet t id o)
    | _ => none
  | _ => (parseQEv parseTask parseTaskItem t tag arg pl).map .q

def pcName {α : Type} : QueueSM.Pc α → String
  | .idle => "idle" | .pushEntered _ => "pushEntered" | .pushPolling _ => "pushPolling"
  | .pushMustWait _ => "pushMustWait" | .pushReady _ => "pushReady" | .popWaiting => "popWaiting"
  | .sdEntered => "sdEntered" | .sdFlagged => "sdFlagged"

def qDiag {α : Type} (s : QueueSM.State α) (t : Tid) : String :=
  s!"model: size={s.items.length} in_use={b01 s.inUse} pc[{t}]={pcName (s.pc t)} waiters={s.waiters.length}"

def qSummary {α : Type} (s : QueueSM.State α) : String :=
  s!"size={s.items.length} in_use={b01 s.inUse} called={s.called.length} pushed={s.pushed.length} dropped={s.dropped.length} removed={s.removed.length} popped={s.popped.length} waiting={s.waiters.length}"

def wpcName : PoolSM.WPc → String
  | .loop => "loop" | .got _ => "got" | .running _ _ => "running" | .stopping => "stopping"
  | .exited => "exited"

def dpcName : PoolSM.DPc → String
  | .notStarted => "notStarted" | .pushing k => s!"pushing{k}" | .joining => "joining" | .done => "done"

def stepLine (sim : Sim) (line : String) : Sim × String :=
  match words line with
  | ["new", "queue"] => (.queues [], "ok")
  | ["new", "pool", mx, ws] =>
    match mx.toNat?, ((ws.splitOn ",").filter (· ≠ "")).mapM (·.toNat?) with
    | some mx, some ws => (.pool { workers := ws, qc := { max := mx, spurious := true } } none PoolSM.init, "ok")
    | _, _ => (.dead, "reject bad-line")
  | ["end"] =>
    match sim with
    | .queues qs => (sim, "final " ++ " ; ".intercalate (qs.map fun (id, _, s) => s!"q{id} " ++ qSummary s))
    | .pool _ _ s =>
      (sim, s!"final {qSummary s.q} dtor={dpcName s.dtor} submitted={s.submitted.length} exited={s.exitedL.length} joined={s.joined.length}")
    | .dead => (sim, "final dead")
    | .none => (sim, "final none")
  | [t, tag, qid, arg, pl] =>
    match sim with
    | .dead => (sim, "skip")
    | .none => (.dead, "reject no-scenario")
    | .queues qs =>
      match t.toNat?, qid.toNat?, arg.toNat? with
      | some t, some qid, some arg =>
        if tag == "q-new" then
          (.queues ((qid, { max := arg, spurious := true }, QueueSM.init Nat) :: qs.filter (·.1 != qid)), "ok")
        else
          match qs.find? (·.1 == qid) with
          | some (_, c, s) =>
            match parseQEv (fun s => s.toNat?) parseNatItem t tag arg pl with
            | some e =>
              match QueueSM.step? c s e with
              | some s' => (.queues ((qid, c, s') :: qs.filter (·.1 != qid)), "ok")
              | none => (.dead, "reject not-enabled " ++ qDiag s t)
            | none => (.dead, "reject bad-event")
          | none => (.dead, "reject unknown-queue")
      | _, _, _ => (.dead, "reject bad-line")
    | .pool c q0 s =>
      match t.toNat?, qid.toNat?, arg.toNat? with
      | some t, some qid, some arg =>
        match parsePoolEv t tag arg pl with
        | some e =>
          -- all queue events of a pool scenario must be on the one work queue
          let isQ := match e with | .q _ => true | _ => false
          let q1 := if isQ then (match q0 with | none => some qid | some q => some q) else q0
          if isQ && q1 != some qid then (.dead, "reject other-queue") else
          match PoolSM.step? c s e with
          | some s' => (.pool c q1 s', "ok")
          | none => (.dead, s!"reject not-enabled {qDiag s.q t} wpc[{t}]={wpcName (s.wpc t)} dtor={dpcName s.dtor}")
        | none => (.dead, "reject bad-event")
      | _, _, _ => (.dead, "reject bad-line")
  | [] => (sim, "ok")
  | _ => (.dead, "reject bad-line")

def main : IO Unit := loop stepLine .none
