/- Model driver for C03 (stub: not built yet). -/
import Driver.Common

def main : IO Unit := pure ()
