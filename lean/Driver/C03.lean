/-
Model driver for C03 (exe model_c03).  One op per line:

  lay <script>     builder script (same tokens as harness/c03.cpp `lay`)
                   → `<hex of HostileLayout.build> <ok|oob: Layout.decodeAll of it> <Guards 0|1>`
                     or `err:length_error` (a builder's length check throws)
  xmlmon <hex>     XML document → tokenizer → builder-protocol monitor (Model/HostileXml.lean)
                   → `fine` | `ub:<kind>` | `tokerr` (outside the tokenizer's domain)
  oplcur <hex>     one OPL line (`-` = empty): the cursor program over the memory (Model/HostileOpl.lean,
                   `parseLineCur {}`) against the abstract line parser (`OplFmt.parseLine {}`)
                   → `same` | `DIFF cur=<class> abs=<class>`,
                     class ∈ ok-none / ok-some / err:opl / err:location / err:length / err:fuel
-/
import Driver.Common
import Osmium.Model.HostileLayout
import Osmium.Model.HostileXml
import Osmium.Model.HostileOpl

open Osmium Osmium.HostileLayout Osmium.Layout

namespace C03Driver

def bytes? (s : String) : Option Bytes := Driver.unhex s

def splitC (s : String) (c : String) : List String := s.splitOn c

def dropN (s : String) (n : Nat) : String := (s.drop n).toString

/-- tokens up to (not including) the closing token -/
def untilTok (close : String) : List String → List String × List String
  | [] => ([], [])
  | t :: ts => if t == close then ([], ts) else let (a, b) := untilTok close ts; (t :: a, b)

def parseTags (ts : List String) : Option (List (Bytes × Bytes)) :=
  ts.mapM fun t =>
    match splitC (dropN t 2) "=" with
    | [k, v] => do pure (← bytes? k, ← bytes? v)
    | _ => none

def parseNodes (ts : List String) : Option (List NodeRefS) :=
  ts.mapM fun t =>
    match splitC t ":" with
    | [_, r, x, y] => do pure ⟨← r.toInt?, ← x.toInt?, ← y.toInt?⟩
    | _ => none

def parseMembers (ts : List String) : Option (List MemberS) :=
  ts.mapM fun t =>
    match splitC t ":" with
    | [_, ty, r, role] => do pure ⟨← ty.toNat?, ← r.toInt?, ← bytes? role⟩
    | _ => none

/-- `c:<date>:<uid>:<user>` optionally followed by `x:<text>` -/
def parseComments : Nat → List String → Option (List CommentS)
  | 0, _ => none
  | _, [] => some []
  | f + 1, t :: ts =>
    match splitC t ":" with
    | ["c", d, u, user] => do
      let d ← d.toNat?
      let u ← u.toNat?
      let user ← bytes? user
      match ts with
      | t2 :: ts2 =>
        match splitC t2 ":" with
        | ["x", text] => do
          let text ← bytes? text
          let rest ← parseComments f ts2
          pure (⟨d, u, user, some text⟩ :: rest)
        | _ => do
          let rest ← parseComments f ts
          pure (⟨d, u, user, none⟩ :: rest)
      | [] => pure [⟨d, u, user, none⟩]
    | _ => none      -- a text without comment: the builders' behaviour is not modelled by `build`

def parseSubs : Nat → List String → Option (List SubS)
  | 0, _ => none
  | _, [] => some []
  | f + 1, t :: ts =>
    if t == "T" then
      let (a, b) := untilTok "t" ts
      do pure (.tags (← parseTags a) :: (← parseSubs f b))
    else if t == "L" then
      let (a, b) := untilTok "l" ts
      do pure (.nodes tyWayNodeList (← parseNodes a) :: (← parseSubs f b))
    else if t == "M" then
      let (a, b) := untilTok "e" ts
      do pure (.members (← parseMembers a) :: (← parseSubs f b))
    else if t == "D" then
      let (a, b) := untilTok "d" ts
      do pure (.discussion (← parseComments (a.length + 1) a) :: (← parseSubs f b))
    else none

def parseScript (ws : List String) : Option ObjS :=
  match ws with
  | k :: rest =>
    let kind? : Option OKind :=
      if k == "N" then some .node else if k == "W" then some .way else if k == "R" then some .relation
      else if k == "A" then some .area else if k == "C" then some .changeset else none
    match kind? with
    | none => none
    | some kind =>
      let (user?, rest) : Option Bytes × List String :=
        match rest with
        | t :: ts => if t.startsWith "u:" then (bytes? (dropN t 2), ts) else (some [], t :: ts)
        | [] => (some [], [])
      match user?, parseSubs (rest.length + 1) rest with
      | some user, some subs => some { kind := kind, fixed := ctorFixed kind, user := user, subs := subs }
      | _, _ => none
  | [] => none

def xmlmon (doc : Bytes) : String :=
  match XmlFmt.tokenize doc with
  | none => "tokerr"
  | some evs =>
    match HostileXml.monitor {} evs with
    | none => "fine"
    | some m => m.name

/-- `Except` has no `DecidableEq` instance -/
def sameRes : Except OplFmt.PErr (Option Osm.Object) → Except OplFmt.PErr (Option Osm.Object) → Bool
  | .ok a, .ok b => decide (a = b)
  | .error a, .error b => decide (a = b)
  | _, _ => false

def oplClass : Except OplFmt.PErr (Option Osm.Object) → String
  | .ok none => "ok-none"
  | .ok (some _) => "ok-some"
  | .error .opl => "err:opl"
  | .error .location => "err:location"
  | .error .length => "err:length"
  | .error .fuel => "err:fuel"

def oplcur (line : Bytes) : String :=
  let cur := HostileOpl.parseLineCur {} line
  let abs := OplFmt.parseLine {} line
  if sameRes cur abs then "same" else "DIFF cur=" ++ oplClass cur ++ " abs=" ++ oplClass abs

def step (line : String) : String :=
  match Driver.words line with
  | "lay" :: ws =>
    match parseScript ws with
    | none => "bad-op"
    | some o =>
      -- what the builders CHECK: set_user / add_tag / add_member / add_comment throw std::length_error
      -- beyond max_osm_string_length (set_user since repair bc6b907)
      if o.user.length > maxStr || !(o.subs.all fun s => s.lengthsOk) then "err:length_error" else
      -- the bytes the builders never write are 0 in a fresh harness buffer? no: the harness prints what
      -- is there; `fill` is taken from the environment of the check (ASan malloc fill = 0xbe)
      let b := build 0xbe o
      let v := match decodeAll b with | .ok _ => "ok" | .error _ => "oob"
      Driver.hex b ++ " " ++ v ++ " " ++ (if decide (Guards 0xbe o) then "1" else "0")
  | ["xmlmon", h] =>
    match Driver.unhex h with
    | some bs => xmlmon bs
    | none => "bad-op"
  | ["oplcur", h] =>
    match Driver.unhex h with
    | some bs => oplcur bs
    | none => "bad-op"
  | _ => "bad-op"

end C03Driver

def main : IO Unit := Driver.loopPure C03Driver.step
